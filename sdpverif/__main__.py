from .cli import main
import sys
sys.exit(main())
