"""Object-capable extension of the abstract interpreter (pyabs): instances of the package's output classes
(Output, TableData, BaseData and the per-mode dataclasses), class methods, super(), dataclass construction from the
dataclass-field model (dcmodel), generators (evaluated eagerly), getattr / setattr / __dict__.

It lets the checks evaluate the *output layer* (Output.format and everything it reaches) abstractly on the lock-step parse
results of the E4 fixed points, so that expectations can be stated on the final, documented output.  As everywhere in
this package nothing of /repo is imported: the interpreter walks the ast of the functions found in the source."""
import ast
import copy

from .core import AnalysisError
from .dcmodel import DCModel, DIALECTS_MOD, BASE_MOD
from .pyabs import (Interp, Obj, W, PyRaise, Raised, LexUnknown, NonUniform, _SELF, _Return, dict_find, _MISSING, uniform, lift,
                    deep_eq, KeysList)


class ClsD:
    """class descriptor: a source class or the synthetic per-mode class"""

    def __init__(self, name, mro, key=None, dataclass_fields=None):
        self.name, self.mro, self.key = name, mro, key
        self.fields = dataclass_fields          # ordered {name: FieldInfo} or None

    def __repr__(self):
        return f"<class {self.name}>"

    def __deepcopy__(self, memo):
        return self


class Inst:
    def __init__(self, cls):
        self.cls = cls
        self.attrs = {}

    def __repr__(self):
        return f"<{self.cls.name} object>"


class _Super:
    def __init__(self, inst, after):
        self.inst, self.after = inst, after


class _Bound:
    def __init__(self, func, self_obj):
        self.func, self.self_obj = func, self_obj


class ObjInterp(Interp):
    def __init__(self, model, tokens_ns, dc=None):
        super().__init__(model, tokens_ns, Obj())
        self.dc = dc or DCModel(model)
        self._cls_cache = {}
        self._yield = []

    # ------------------------------------------------------------------ classes
    def clsd(self, key):
        if key not in self._cls_cache:
            m = self.model
            c = m.classes[key]
            fields = self.dc.dc_fields(key) if key in self.dc.own_fields else None
            self._cls_cache[key] = ClsD(c.name, m.mro(key), key, fields)
        return self._cls_cache[key]

    def lookup(self, cls, name, after=None):
        mro = cls.mro
        if after is not None:
            mro = mro[mro.index(after) + 1:]
        for k in mro:
            c = self.model.classes[k]
            if name in c.methods:
                return c.methods[name]
        return None

    def class_attr(self, cls, name):
        for k in cls.mro:
            c = self.model.classes[k]
            if name in c.attrs:
                ann, val, node = c.attrs[name]
                if val is None:
                    continue
                if isinstance(val, ast.Call) and isinstance(val.func, ast.Name) and val.func.id == "field":
                    continue
                return True, self.ev(val, {"__module__": c.module})
        return False, None

    # ------------------------------------------------------------------ names
    def name(self, id_, env):
        if id_ in env:
            return env[id_]
        if id_ in ("super", "setattr", "dataclass"):
            return ("builtin", id_)
        r = None
        mod = env.get("__module__")
        if mod is not None:
            r = self.model.resolve_symbol(mod, id_)
            if r and r[0] == "class":
                return self.clsd(r[1])
            if r and r[0] == "ext" and r[1] in ("dataclasses.dataclass",):
                return ("builtin", "dataclass")
            if r and r[0] == "ext" and r[1] in ("copy.deepcopy",):
                return ("ext", "copy.deepcopy")
        return super().name(id_, env)

    def module_value(self, module, name):
        if module.name == DIALECTS_MOD and name == "dialect_by_name":
            return {k: (self.clsd(v) if v is not None else None) for k, v in self.dc.dialect_by_name.items()}
        return super().module_value(module, name)

    # ------------------------------------------------------------------ calls
    def call_func(self, f, args, kwargs=None, bound_self=True, self_obj=None):
        if self_obj is None:
            return self._call_plain(f, args, kwargs)
        node = f.node
        is_gen = any(isinstance(n, (ast.Yield, ast.YieldFrom)) for n in ast.walk(node))
        a = node.args
        params = [x.arg for x in a.posonlyargs + a.args]
        env_self = {}
        if not f.is_static and params and params[0] in ("self", "cls"):
            env_self[params[0]] = self_obj
        return self._call_with(f, args, kwargs, env_self, is_gen)

    def _call_plain(self, f, args, kwargs):
        is_gen = any(isinstance(n, (ast.Yield, ast.YieldFrom)) for n in ast.walk(f.node))
        return self._call_with(f, args, kwargs, {}, is_gen)

    def _call_with(self, f, args, kwargs, pre_env, is_gen):
        node = f.node
        a = node.args
        params = [x.arg for x in a.posonlyargs + a.args]
        if f.cls and not f.is_static and params and params[0] in ("self", "cls"):
            params = params[1:]
        env = {"__module__": f.module}
        env.update(pre_env)
        args = list(args)
        if len(args) > len(params):
            if a.vararg:
                env[a.vararg.arg] = tuple(args[len(params):])
                args = args[:len(params)]
            else:
                raise PyRaise(TypeError(f"{f.qual}() takes {len(params)} positional arguments but {len(args)} were given"))
        for p, v in zip(params, args):
            env[p] = v
        kwonly = [x.arg for x in a.kwonlyargs]
        extra = {}
        for k, v in (kwargs or {}).items():
            if k in params or k in kwonly:
                env[k] = v
            elif a.kwarg:
                extra[k] = v
            else:
                raise PyRaise(TypeError(f"{f.qual}() got an unexpected keyword argument {k!r}"))
        if a.kwarg:
            env[a.kwarg.arg] = extra
        for p, d in zip(params[len(params) - len(a.defaults):], a.defaults):
            if p not in env:
                env[p] = self.ev(d, {"__module__": f.module})
        for p, d in zip(a.kwonlyargs, a.kw_defaults):
            if p.arg not in env and d is not None:
                env[p.arg] = self.ev(d, {"__module__": f.module})
        for p in params + kwonly:
            if p not in env:
                raise PyRaise(TypeError(f"{f.qual}() missing argument {p!r}"))
        self.depth += 1
        if self.depth > 80:
            raise LexUnknown("recursion too deep")
        prev = self.cur_func
        self.cur_func = f
        if is_gen:
            self._yield.append([])
        try:
            self.block(node.body, env)
        except _Return as r:
            if is_gen:
                return self._yield.pop()
            return r.v
        finally:
            self.depth -= 1
            self.cur_func = prev
        if is_gen:
            return self._yield.pop()
        return None

    def ev(self, e, env):
        if isinstance(e, ast.Yield):
            if not self._yield:
                raise LexUnknown("yield outside a generator call")
            self._yield[-1].append(self.ev(e.value, env) if e.value is not None else None)
            return None
        if isinstance(e, ast.YieldFrom):
            if not self._yield:
                raise LexUnknown("yield from outside a generator call")
            self._yield[-1].extend(self.iterate(self.ev(e.value, env)))
            return None
        if isinstance(e, ast.Lambda):
            return ("lambda", e, env)
        return super().ev(e, env)

    def call(self, e, env):
        f = self.ev(e.func, env)
        if isinstance(f, (ClsD, _Bound)) or (isinstance(f, tuple) and f and f[0] in ("lambda",)) or \
                (isinstance(f, tuple) and f and f[0] == "builtin" and f[1] in ("super", "setattr", "dataclass", "type", "getattr", "hasattr", "isinstance")):
            args = []
            for a in e.args:
                if isinstance(a, ast.Starred):
                    args.extend(self.iterate(self.ev(a.value, env)))
                else:
                    args.append(self.ev(a, env))
            kwargs = {}
            for k in e.keywords:
                if k.arg is None:
                    kwargs.update(self.ev(k.value, env))
                else:
                    kwargs[k.arg] = self.ev(k.value, env)
            if isinstance(f, ClsD):
                return self.construct_inst(f, args, kwargs)
            if isinstance(f, _Bound):
                return self.call_func(f.func, args, kwargs, self_obj=f.self_obj)
            if f[0] == "lambda":
                _, lam, lenv = f
                loc = dict(lenv)
                for p, v in zip([x.arg for x in lam.args.args], args):
                    loc[p] = v
                return self.ev(lam.body, loc)
            return self.builtin_obj(f[1], args, kwargs, env)
        return super().call(e, env)

    def call_value(self, f, args):
        """call a callable value (lambda, nested function, bound method, package function)"""
        if isinstance(f, _Bound):
            return self.call_func(f.func, list(args), {}, self_obj=f.self_obj)
        if isinstance(f, ClsD):
            return self.construct_inst(f, list(args), {})
        if isinstance(f, tuple) and f:
            if f[0] == "lambda":
                _, lam, lenv = f
                loc = dict(lenv)
                for p_, v in zip([x.arg for x in lam.args.args], args):
                    loc[p_] = v
                return self.ev(lam.body, loc)
            if f[0] == "closure":
                return self.call_closure(f[1], f[2], list(args), {})
            if f[0] == "func":
                return self.call_func(f[1], list(args), {})
            if f[0] == "builtin":
                return self.builtin(f[1], list(args), {})
        raise LexUnknown("call of a computed callable")

    def external(self, name, args, kwargs):
        if name in ("copy.deepcopy", "copy.copy"):
            return copy.deepcopy(args[0]) if name.endswith("deepcopy") else copy.copy(args[0])
        if name == "logging.getLogger":
            return Obj(_kind="logger")
        if name.startswith("logging.") or name.startswith("logger."):
            return None
        if name == "itertools.groupby":
            items = self.iterate(args[0])
            key = kwargs.get("key", args[1] if len(args) > 1 else None)
            groups = []
            for it in items:
                k = self.call_value(key, [it]) if key is not None else it
                if groups and deep_eq(groups[-1][0], k):
                    groups[-1][1].append(it)
                else:
                    groups.append((k, [it]))
            return [(k, list(v)) for k, v in groups]
        if name in ("itertools.chain",):
            out = []
            for a in args:
                out.extend(self.iterate(a))
            return out
        return super().external(name, args, kwargs)

    def builtin_obj(self, name, args, kwargs, env):
        if name == "super":
            inst = env.get("self")
            cf = self.cur_func
            if not isinstance(inst, Inst) or cf is None or not cf.cls:
                raise LexUnknown("super() outside an instance method")
            return _Super(inst, (cf.module.name, cf.cls))
        if name == "setattr":
            o, a, v = args
            if isinstance(o, Inst):
                o.attrs[uniform(a, "setattr name")] = v
                return None
            if isinstance(o, Obj):
                setattr(o, a, v)
                return None
            raise LexUnknown("setattr target")
        if name == "dataclass":
            c = args[0]
            if isinstance(c, ClsD) and c.fields is None:
                c.fields = self.dc.overlay(c.mro[1:] if c.key else c.mro)
            return c
        if name == "type":
            if len(args) == 1:
                x = args[0]
                if isinstance(x, Inst):
                    return x.cls
                return ("type", type(x))
            nm, bases, body = args
            if body:
                raise LexUnknown("type() with a non-empty namespace")
            keys = [b.key for b in bases]
            if any(k is None for k in keys):
                raise LexUnknown("type() over a synthetic base")
            mro = self._c3(keys)
            return ClsD(uniform(nm, "class name"), mro, None, None)
        if name in ("getattr", "hasattr"):
            o, a = args[0], args[1]
            if isinstance(o, (Inst, ClsD)):
                a = uniform(a, "attribute name")
                try:
                    v = self.get_attr(o, a)
                    return True if name == "hasattr" else v
                except PyRaise:
                    if name == "hasattr":
                        return False
                    if len(args) > 2:
                        return args[2]
                    raise
            return super().builtin(name, args, kwargs)
        if name == "isinstance":
            x, t = args
            if isinstance(t, ClsD):
                return isinstance(x, Inst) and t.key in x.cls.mro
            if isinstance(x, Inst):
                return False
            return super().builtin(name, args, kwargs)
        raise LexUnknown(f"builtin {name}")

    def _c3(self, bases):
        m = self.model
        seqs = [list(m.mro(b)) for b in bases] + [list(bases)]
        res = []
        while True:
            seqs = [s for s in seqs if s]
            if not seqs:
                return res
            cand = None
            for s in seqs:
                h = s[0]
                if not any(h in o[1:] for o in seqs):
                    cand = h
                    break
            if cand is None:
                raise AnalysisError("inconsistent MRO for a synthetic class")
            res.append(cand)
            for s in seqs:
                if s and s[0] == cand:
                    del s[0]

    # ------------------------------------------------------------------ instances
    def construct_inst(self, cls, args, kwargs):
        inst = Inst(cls)
        if cls.fields is not None:
            names = list(cls.fields)
            if len(args) > len(names):
                raise PyRaise(TypeError(f"{cls.name}() takes {len(names)} positional arguments"))
            given = dict(zip(names, args))
            for k, v in kwargs.items():
                k = uniform(k, "keyword name")
                if k not in cls.fields:
                    raise PyRaise(TypeError(f"{cls.name}.__init__() got an unexpected keyword argument {k!r}"))
                if k in given:
                    raise PyRaise(TypeError(f"{cls.name}() got multiple values for argument {k!r}"))
                given[k] = v
            for n, fi in cls.fields.items():
                if n in given:
                    inst.attrs[n] = given[n]
                elif fi.default_kind == "default":
                    inst.attrs[n] = self.ev(fi.default_node, {"__module__": self._module_of_field(fi)})
                elif fi.default_kind == "factory":
                    fac = self.ev(fi.default_node, {"__module__": self._module_of_field(fi)})
                    if fac == ("type", list):
                        inst.attrs[n] = []
                    elif fac == ("type", dict):
                        inst.attrs[n] = {}
                    elif isinstance(fac, tuple) and fac[0] == "lambda":
                        inst.attrs[n] = self.ev(fac[1].body, dict(fac[2]))
                    else:
                        raise LexUnknown(f"default_factory of {cls.name}.{n}")
                else:
                    raise PyRaise(TypeError(f"{cls.name}() missing required argument {n!r}"))
            post = self.lookup(cls, "__post_init__")
            if post is not None:
                self.call_func(post, [], {}, self_obj=inst)
            return inst
        init = self.lookup(cls, "__init__")
        if init is not None:
            self.call_func(init, args, kwargs, self_obj=inst)
        elif args or kwargs:
            raise PyRaise(TypeError(f"{cls.name}() takes no arguments"))
        return inst

    def _module_of_field(self, fi):
        for key, fields in self.dc.own_fields.items():
            if fi in fields:
                return self.model.classes[key].module
        raise AnalysisError("field without an owner class")

    def fields_view(self, cls):
        if cls.fields is None:
            raise PyRaise(AttributeError("__dataclass_fields__"))
        fv = getattr(cls, "_fv", None)
        if fv is None:
            # the analysed code only reads field metadata; one view per class
            fv = cls._fv = {n: Obj(name=n, metadata=copy.deepcopy(fi.metadata)) for n, fi in cls.fields.items()}
        return fv

    def get_attr(self, o, name):
        if isinstance(o, Inst):
            if name == "__dict__":
                return o.attrs
            if name in o.attrs:
                return o.attrs[name]
            if name == "__dataclass_fields__":
                return self.fields_view(o.cls)
            if name == "__class__":
                return o.cls
            f = self.lookup(o.cls, name)
            if f is not None:
                if f.is_static:
                    return ("func", f)
                if f.is_classmethod:
                    return _Bound(f, o.cls)
                decos = {ast.unparse(d).split(".")[-1] for d in f.node.decorator_list}
                if decos & {"property", "cached_property"}:
                    v = self.call_func(f, [], {}, self_obj=o)
                    if "cached_property" in decos:
                        o.attrs[name] = v        # computed once per object, as functools.cached_property does
                    return v
                return _Bound(f, o)
            ok, v = self.class_attr(o.cls, name)
            if ok:
                return v
            raise PyRaise(AttributeError(f"'{o.cls.name}' object has no attribute '{name}'"))
        if isinstance(o, ClsD):
            if name == "__name__":
                return o.name
            if name == "__dataclass_fields__":
                return self.fields_view(o)
            f = self.lookup(o, name)
            if f is not None:
                if f.is_classmethod:
                    return _Bound(f, o)
                return ("func", f)
            ok, v = self.class_attr(o, name)
            if ok:
                return v
            raise PyRaise(AttributeError(f"type object '{o.name}' has no attribute '{name}'"))
        raise LexUnknown("get_attr")

    def attribute(self, e, env):
        # self inside an instance / class method of an output class
        if isinstance(e.value, ast.Name) and e.value.id in env and isinstance(env[e.value.id], (Inst, ClsD)):
            return self.get_attr(env[e.value.id], e.attr)
        o = self.ev(e.value, env)
        if isinstance(o, (Inst, ClsD)):
            return self.get_attr(o, e.attr)
        if isinstance(o, _Super):
            f = self.lookup(o.inst.cls, e.attr, after=o.after)
            if f is None:
                raise PyRaise(AttributeError(f"super has no {e.attr}"))
            return _Bound(f, o.inst)
        if isinstance(o, W) or isinstance(o, (str, dict, list, set, int, float, bool)) or o is None:
            return ("method", o, e.attr)
        return self._attribute_of_value(o, e, env)

    def _attribute_of_value(self, o, e, env):
        # reuse the base implementation on an already evaluated receiver
        tmp = ast.Attribute(value=ast.Name(id="__recv__", ctx=ast.Load()), attr=e.attr, ctx=ast.Load())
        env2 = dict(env)
        env2["__recv__"] = o
        return super().attribute(tmp, env2)

    def assign(self, t, v, env):
        if isinstance(t, ast.Attribute):
            o = self.ev(t.value, env)
            if isinstance(o, Inst):
                o.attrs[t.attr] = v
                return
        super().assign(t, v, env)

    def delete(self, t, env):
        if isinstance(t, ast.Attribute):
            o = self.ev(t.value, env)
            if isinstance(o, Inst):
                if t.attr not in o.attrs:
                    raise PyRaise(AttributeError(t.attr))
                del o.attrs[t.attr]
                return
        super().delete(t, env)

    def truth(self, v):
        if isinstance(v, (Inst, ClsD, _Bound)):
            return True
        return super().truth(v)

    def method(self, o, m, args, kwargs):
        return super().method(o, m, args, kwargs)

    def compare(self, op, l, r):
        if isinstance(op, (ast.Is, ast.IsNot)) and (isinstance(l, (Inst, ClsD)) or isinstance(r, (Inst, ClsD))):
            same = l is r
            return same if isinstance(op, ast.Is) else not same
        if isinstance(op, (ast.In, ast.NotIn)) and isinstance(r, Inst):
            it = self.lookup(r.cls, "__iter__")
            if it is None:
                raise PyRaise(TypeError("argument of type object is not iterable"))
            vals = self.call_func(it, [], {}, self_obj=r)
            res = any(deep_eq(x, l) for x in vals)
            return res if isinstance(op, ast.In) else not res
        return super().compare(op, l, r)

    def iterate(self, it):
        if isinstance(it, Inst):
            f = self.lookup(it.cls, "__iter__")
            if f is None:
                raise PyRaise(TypeError("object is not iterable"))
            return self.call_func(f, [], {}, self_obj=it)
        return super().iterate(it)



# ---------------------------------------------------------------------------
# entry point used by the checks
# ---------------------------------------------------------------------------

class ShapeMismatch(Exception):
    """the output layer handles the exemplars of one word class in structurally different ways"""


def format_output(ctx, parser_output, output_mode="sql", group_by_type=False):
    """lock-step evaluation; when the control flow of the output layer depends on a feature in which the exemplars of a class
    differ, evaluate once per exemplar and zip the results (ShapeMismatch when they cannot be zipped)"""
    try:
        return _format_output(ctx, parser_output, output_mode, group_by_type)
    except (NonUniform, LexUnknown) as first:
        from .deriv import _leaves, _project, _zip, _ShapeMismatch
        width = None
        for v in _leaves(parser_output):
            width = len(v.ex)
            break
        if width is None:
            raise
        results, errors = [], []
        for i in range(width):
            try:
                results.append(_format_output(ctx, [_project(copy.deepcopy(x), i) for x in parser_output], output_mode, group_by_type))
                errors.append(None)
            except PyRaise as pr:
                results.append(None)
                errors.append(pr)
        if all(errors):
            raise errors[0]
        if any(errors):
            bad = [k for k, e in enumerate(errors) if e][0]
            raise ShapeMismatch(f"exemplar #{bad} of the word classes makes the output layer raise {errors[bad]} while others do not ({first})")
        try:
            return _zip(results)
        except _ShapeMismatch as sm:
            raise ShapeMismatch(f"{sm} ({first})")


def _format_output(ctx, parser_output, output_mode="sql", group_by_type=False):
    m = ctx.model
    dc = ctx._get("dcmodel", lambda: DCModel(m))
    it = ObjInterp(m, ctx.grammar.tokens_ns, dc)
    key = ("simple_ddl_parser.output.core", "Output")
    if key not in m.classes:
        raise AnalysisError("anchor vanished: class Output")
    out = it.construct_inst(it.clsd(key), [], {"parser_output": copy.deepcopy(parser_output), "output_mode": output_mode,
                                              "group_by_type": group_by_type})
    fmt = it.lookup(out.cls, "format")
    if fmt is None:
        raise AnalysisError("anchor vanished: Output.format")
    return it.call_func(fmt, [], {}, self_obj=out)


def eval_method(ctx, cls_key, ctor_kwargs, preset, method, args=()):
    """construct an instance of a package class abstractly, preset attributes, call one method; returns (result, instance attrs)"""
    m = ctx.model
    dc = ctx._get("dcmodel", lambda: DCModel(m))
    it = ObjInterp(m, ctx.grammar.tokens_ns, dc)
    if cls_key not in m.classes:
        raise AnalysisError(f"anchor vanished: class {cls_key}")
    inst = it.construct_inst(it.clsd(cls_key), [], dict(ctor_kwargs))
    inst.attrs.update(preset)
    f = it.lookup(inst.cls, method)
    if f is None:
        raise AnalysisError(f"anchor vanished: {cls_key[1]}.{method}")
    res = it.call_func(f, list(args), {}, self_obj=inst)
    return res, inst.attrs


class _RunInterp(ObjInterp):
    """Parser.run evaluated abstractly: parse_data is replaced by a given flat result, file dumps are recorded"""

    def __init__(self, model, tokens_ns, dc, flat):
        super().__init__(model, tokens_ns, dc)
        self.flat = flat
        self.dumps = []
        self.json_dumped = None

    def call_method(self, name, args, kwargs=None):
        if name == "parse_data":
            self.self_attrs["tables"] = copy.deepcopy(self.flat)
            return self.self_attrs["tables"]
        return super().call_method(name, args, kwargs)

    def _call_plain(self, f, args, kwargs):
        if f.name == "dump_data_to_file":
            self.dumps.append((list(args), dict(kwargs or {})))
            return None
        return super()._call_plain(f, args, kwargs)

    def external(self, name, args, kwargs):
        if name == "json.dumps":
            self.json_dumped = args[0]
            return abstract_json_dumps(args[0], **kwargs)
        return super().external(name, args, kwargs)


def abstract_json_dumps(v, **kwargs):
    """json.dumps of a value that may hold lock-step words: the real encoder, once per exemplar"""
    import json
    from .deriv import _leaves, _project
    width = None
    for x in _leaves([v]):
        width = len(x.ex)
        break
    try:
        if width is None:
            return json.dumps(v, **kwargs)
        outs = [json.dumps(_project(copy.deepcopy(v), i), **kwargs) for i in range(width)]
    except (TypeError, ValueError) as e:
        raise PyRaise(e)
    return outs[0] if all(o == outs[0] for o in outs[1:]) else W(outs)


def run_tail(ctx, flat, **run_kwargs):
    """what Parser.run(**run_kwargs) returns when parse_data yields `flat` (lock-step values allowed but handled uniformly):
    returns (result, dumps recorded)"""
    m = ctx.model
    dc = ctx._get("dcmodel", lambda: DCModel(m))
    it = _RunInterp(m, ctx.grammar.tokens_ns, dc, flat)
    it.self_attrs = dict(getattr(it, "self_attrs", None) or {})
    it.self_attrs.setdefault("tables", [])
    f = m.parser_method("run")
    res = it.call_func(f, [], dict(run_kwargs))
    return res, it.dumps
