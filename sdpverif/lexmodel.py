"""E3 - the lexer as a finite transducer, obtained by abstract interpretation of
the t_* methods (and everything they call) as found in the source.

Domain
------
* lexer flags: exact constants (bool / small int / token-type strings) - the
  real finite control state of the lexer;
* the word under the cursor: a *word class* represented by a tuple of
  exemplar spellings interpreted in lock-step.  Every operation the code
  applies to the word (upper, startswith, endswith, count, in, get, len,
  slicing, comparisons ...) is applied to all exemplars; a non-string result
  (a branch condition, a table hit, a token type) must be the same for all of
  them, otherwise the class is not uniform for the current code and the run
  ends ANALYSIS-ERROR (never a verdict).  The exemplars of a class are chosen
  to differ in everything the class leaves open (length, letter case pattern,
  digits, underscore, first letter).

No module of /repo is imported: the interpreter walks the ast of the methods.
"""
import ast
import re

from .core import AnalysisError


from .pyabs import (W, lift, uniform, Obj, Interp, LexUnknown, NonUniform, Raised, PyRaise)  # noqa: F401


class WordClass:
    """A named class of words.  kind: KW (keyword, with case variant), PLAIN, NUM, PUNCT, STR, DQ, BT, BR, TAG ..."""

    WIDTH = 6

    def __init__(self, name, exemplars, kind, kw=None, case=None):
        self.name, self.kind, self.kw, self.case = name, kind, kw, case
        exemplars = list(exemplars)
        if len(set(exemplars)) > 1:
            # every lock-step class has the same width so that words of different classes can meet
            exemplars = [exemplars[i % len(exemplars)] for i in range(self.WIDTH)]
        self.word = W(exemplars) if len(set(exemplars)) > 1 else exemplars[0]
        self.exemplars = tuple(exemplars)

    def __repr__(self):
        return self.name

    @property
    def show(self):
        return self.exemplars[0]


def _case_variants(k):
    """spellings of keyword k other than the all-upper one"""
    out = []
    low = k.lower()
    if low != k:
        out.append(low)
    cap = k.capitalize()
    if cap not in (k, low):
        out.append(cap)
    alt = "".join(c.lower() if i % 2 == 0 else c.upper() for i, c in enumerate(k))
    if alt not in out and alt != k:
        out.append(alt)
    alt2 = "".join(c.upper() if i % 2 == 0 else c.lower() for i, c in enumerate(k))
    if alt2 not in out and alt2 != k:
        out.append(alt2)
    return out


def rule_regex(model, f):
    """the regex of a t_ rule: its docstring, or the argument of PLY's @TOKEN decorator folded to a string"""
    for d in f.node.decorator_list:
        if isinstance(d, ast.Call) and ast.unparse(d.func).split(".")[-1] == "TOKEN" and len(d.args) == 1:
            v = _fold_str(f.module, d.args[0], 0)
            if v is None:
                raise AnalysisError(f"lexer rule {f.id}: the @TOKEN argument is not a constant string expression")
            return v
    return ast.get_docstring(f.node, clean=False)


def _fold_str(module, n, depth):
    if depth > 8:
        return None
    if isinstance(n, ast.Constant) and isinstance(n.value, str):
        return n.value
    if isinstance(n, ast.BinOp) and isinstance(n.op, ast.Add):
        a, b = _fold_str(module, n.left, depth + 1), _fold_str(module, n.right, depth + 1)
        return None if a is None or b is None else a + b
    if isinstance(n, ast.JoinedStr):
        out = ""
        for v in n.values:
            if isinstance(v, ast.Constant):
                out += str(v.value)
            elif isinstance(v, ast.FormattedValue) and v.format_spec is None and v.conversion == -1:
                x = _fold_str(module, v.value, depth + 1)
                if x is None:
                    return None
                out += x
            else:
                return None
        return out
    if isinstance(n, ast.Name) and n.id in module.assigns:
        return _fold_str(module, module.assigns[n.id], depth + 1)
    return None


# ---------------------------------------------------------------------------
# the lexer model
# ---------------------------------------------------------------------------

class LexResult:
    __slots__ = ("type", "value_kind", "value", "flags", "rule", "raised")

    def __init__(self, type_, value_kind, value, flags, rule, raised=None):
        self.type, self.value_kind, self.value, self.flags, self.rule, self.raised = \
            type_, value_kind, value, flags, rule, raised

    def __repr__(self):
        return f"<{self.type}:{self.value_kind}>"


class LexModel:
    def __init__(self, model, grammar):
        self.model = model
        self.gm = grammar
        self.ns = grammar.tokens_ns
        self.tokens = set(grammar.terminals)
        self.methods = model.parser_methods()
        # rules in PLY's order: functions by first line
        self.rules = []
        for name, f in self.methods.items():
            if name.startswith("t_") and name not in ("t_error", "t_ignore"):
                doc = rule_regex(model, f)
                if doc is None:
                    raise AnalysisError(f"lexer rule {f.id} has no regex docstring")
                self.rules.append((f.firstline, name, doc, f))
        self.rules.sort(key=lambda r: r[0])
        self.compiled = []
        for _l, name, doc, f in self.rules:
            try:
                self.compiled.append((name, re.compile(doc, re.VERBOSE)))   # PLY compiles with re.VERBOSE by default
            except re.error as e:
                raise AnalysisError(f"regex of {name} does not compile: {e}")
        # string-valued t_ rules would need PLY's length ordering: none today
        for k in model.parser_mro():
            for an, (_a, val, _n) in model.classes[k].attrs.items():
                if an.startswith("t_") and an != "t_ignore":
                    raise AnalysisError(f"string lexer rule {an}: rule ordering model incomplete")
        ign = model.lookup_attr(model.parser_key, "t_ignore")
        self.t_ignore = ast.literal_eval(ign[1][1]) if ign else ""
        self.start_flags = self._start_flags()
        self.flag_names = sorted(self.start_flags)
        self.cache = {}
        self.all_keys = set()
        for k, v in self.ns.items():
            if isinstance(v, dict):
                self.all_keys |= {x for x in v if isinstance(x, str)}
        self.nonuniform = 0
        self.classes = {}
        # constant attributes the constructor puts on the parser object (a lexer rule may read them)
        self.self_consts = {}
        init = self.methods.get("__init__")
        if init is not None:
            for n in ast.walk(init.node):
                if isinstance(n, ast.Assign) and isinstance(n.value, ast.Constant):
                    for t in n.targets:
                        if isinstance(t, ast.Attribute) and isinstance(t.value, ast.Name) and t.value.id == "self":
                            self.self_consts[t.attr] = n.value.value

    # -- start state ---------------------------------------------------------
    def _start_flags(self):
        f = self.model.parser_method("set_default_flags_in_lexer")
        flags = Obj()
        it = Interp(self.model, self.ns, flags)
        # setattr(self.lexer, attr, const) needs a builtin
        node = f.node
        env = {"__module__": f.module}
        for st in node.body:
            self._reset_stmt(it, st, env, flags)
        return dict(flags.__dict__)

    def _reset_stmt(self, it, st, env, flags):
        if isinstance(st, ast.Assign):
            v = it.ev(st.value, env)
            for t in st.targets:
                it.assign(t, v, env)
        elif isinstance(st, ast.For):
            for x in it.ev(st.iter, env):
                it.assign(st.target, x, env)
                for s in st.body:
                    self._reset_stmt(it, s, env, flags)
        elif isinstance(st, ast.Expr) and isinstance(st.value, ast.Call) and isinstance(st.value.func, ast.Name) \
                and st.value.func.id == "setattr":
            a = st.value.args
            obj = it.ev(a[0], env)
            name = it.ev(a[1], env)
            if obj is not flags or not isinstance(name, str):
                raise AnalysisError("set_default_flags_in_lexer: unsupported setattr")
            setattr(flags, name, it.ev(a[2], env))
        elif isinstance(st, ast.Expr) and isinstance(st.value, ast.Constant):
            pass
        else:
            raise AnalysisError(f"set_default_flags_in_lexer: unsupported statement {type(st).__name__}")

    def flags_tuple(self, d):
        return tuple(sorted(d.items()))

    @property
    def start(self):
        return self.flags_tuple(self.start_flags)

    # -- word classes ------------------------------------------------------
    def kw(self, k, case="upper"):
        key = ("KW", k, case)
        if key not in self.classes:
            if case == "upper":
                self.classes[key] = WordClass(k, [k], "KW", k, "upper")
            else:
                vs = _case_variants(k)
                if not vs:
                    raise AnalysisError(f"keyword {k} has no other-case spelling")
                self.classes[key] = WordClass(f"{vs[0]}", vs, "KW", k, "other")
        return self.classes[key]

    def plain(self, label="name", exemplars=None):
        ex = exemplars or ["c", "id", "Col", "a_1", "user_name", "ZipCode2"]
        key = ("PLAIN", label, tuple(ex))
        if key not in self.classes:
            for x in ex:
                if x.upper() in self.all_keys:
                    raise AnalysisError(f"exemplar {x} of PLAIN collides with a keyword table (tables changed)")
            self.classes[key] = WordClass(label, ex, "PLAIN")
        return self.classes[key]

    def custom(self, label, exemplars, kind="CUSTOM"):
        key = (kind, label, tuple(exemplars))
        if key not in self.classes:
            self.classes[key] = WordClass(label, exemplars, kind)
        return self.classes[key]

    # -- which rule takes the word ---------------------------------------------
    def rule_for(self, wc):
        name0 = None
        for ex in wc.exemplars:
            hit = None
            for name, rx in self.compiled:
                m = rx.match(ex)
                if m and m.end() > 0:
                    hit = (name, m.end())
                    break
            if hit is None:
                hit = ("t_error", 0)
            if hit[0] != "t_error" and hit[1] != len(ex):
                raise LexUnknown(f"word {ex!r} is not taken whole by one lexer rule ({hit[0]} stops at {hit[1]})")
            if name0 is None:
                name0 = hit[0]
            elif name0 != hit[0]:
                raise NonUniform(f"class {wc.name}: exemplars go to different lexer rules ({name0} / {hit[0]})")
        return name0

    # -- the transition function ---------------------------------------------
    def step(self, flags, wc):
        key = (flags, wc)
        if key in self.cache:
            return self.cache[key]
        rule = self.rule_for(wc)
        lexer = Obj(**dict(flags))
        it = Interp(self.model, self.ns, lexer, self_attrs=dict(self.self_consts))
        if rule == "t_error":
            res = LexResult("<t_error>", "raw", wc.word, flags, rule, raised="t_error")
            self.cache[key] = res
            return res
        t = Obj(type=rule[2:], value=wc.word)
        raised = None
        try:
            out = it.call_method(rule, [t])
        except Raised as r:
            out, raised = None, f"{r.cls_name}: {r.text}"
        if raised:
            res = LexResult("<raise>", "raw", wc.word, self.flags_tuple(lexer.__dict__), rule, raised=raised)
        elif out is None:
            res = LexResult(None, "dropped", None, self.flags_tuple(lexer.__dict__), rule)
        else:
            if not isinstance(out, Obj):
                raise LexUnknown(f"{rule} returns {type(out).__name__}")
            ttype = out.type
            if isinstance(ttype, W):
                raise NonUniform(f"class {wc.name}: token type not uniform {ttype}")
            val = out.value
            vk = self._value_kind(wc, val)
            res = LexResult(ttype, vk, val, self.flags_tuple(lexer.__dict__), rule)
        for k, v in res.flags:
            if isinstance(v, W):
                raise NonUniform(f"class {wc.name}: flag {k} not uniform")
        if it.self_attrs != self.self_consts:
            changed = sorted(k for k in it.self_attrs if it.self_attrs.get(k) != self.self_consts.get(k))
            raise AnalysisError(f"lexer rule {rule} keeps state on the parser object itself ({changed}); the lexer model tracks only "
                                "self.lexer.* (such state is not reset per statement - see the T-PURE / T-RESET obligations of C03)")
        self.cache[key] = res
        return res

    def _value_kind(self, wc, val):
        ex = wc.exemplars
        vals = val.ex if isinstance(val, W) else (val,) * len(ex)
        if tuple(vals) == tuple(ex):
            return "raw"
        if tuple(vals) == tuple(x.upper() for x in ex):
            return "upper"
        if tuple(vals) == tuple(x[:-1] for x in ex):
            return "raw-minus-last"
        if tuple(vals) == tuple(x[:-1].upper() for x in ex):
            return "upper-minus-last"
        return "other"
