"""Helpers shared by the fragment specs: punctuation classes, number classes and the delta oracle."""
from ..deriv import ACC, Summ, TOP, has_top
from ..pyabs import W, deep_eq, lift


def punct(lm):
    return {
        "(": lm.custom("(", ["("], "PUNCT"), ")": lm.custom(")", [")"], "PUNCT"),
        ",": lm.custom(",", [","], "PUNCT"), ".": lm.custom(".", ["."], "PUNCT"),
        "=": lm.custom("=", ["="], "PUNCT"),
        # a run of dots is ONE token for the scanner (T-SQL db..table)
        "..": lm.custom("..", [".."], "PUNCT"),
    }


def numbers(lm):
    return {
        "NUM": lm.custom("<n>", ["1", "25", "300", "0", "7", "007"], "NUM"),
        "NEG": lm.custom("<-n>", ["-1", "-25", "-300"], "NUM"),
        "BIG": lm.custom("<2^63>", ["9223372036854775807", "9223372036854775808", "18446744073709551616"], "NUM"),
        "NEGBIG": lm.custom("<-2^63>", ["-9223372036854775808", "-9223372036854775807", "-18446744073709551616"], "NUM"),
    }


def to_int(v):
    return lift(int, v)


def show(v):
    from ..deriv import _short
    if isinstance(v, Matcher):
        return repr(v)
    return _short(v)


class Matcher:
    """expected value given by a predicate instead of a literal"""

    def match(self, actual):
        raise NotImplementedError


def _has_matcher(v, d=0):
    if isinstance(v, Matcher):
        return True
    if d > 5:
        return False
    if isinstance(v, dict):
        return any(_has_matcher(x, d + 1) for x in v.values())
    if isinstance(v, (list, tuple)):
        return any(_has_matcher(x, d + 1) for x in v)
    return False


def matches(expected, actual):
    from ..pyabs import NonUniform
    try:
        return _matches(expected, actual)
    except NonUniform:
        return False        # equal for some exemplars of a class only = not the expected value


def _matches(expected, actual):
    if isinstance(expected, Matcher):
        return expected.match(actual)
    if isinstance(expected, (list, tuple)) and isinstance(actual, (list, tuple)) and _has_matcher(expected):
        return len(expected) == len(actual) and all(matches(e, a) for e, a in zip(expected, actual))
    if isinstance(expected, dict) and isinstance(actual, dict) and _has_matcher(expected):
        if len(expected) != len(actual):
            return False
        for k, v in expected.items():
            if k not in actual or not matches(v, actual[k]):
                return False
        return True
    return deep_eq(expected, actual)


class DeltaOracle:
    """O-value: at every fold of a level accumulator the new value must equal the old value plus what
    the spec expects from the words of the folded segment(s); a head reduction must produce exactly the
    expected value.

    kinds: {segment kind: f(roles: dict role->lexed value, old) -> dict delta}
    level: {(lhs accumulator, inner accumulator): f(old, inner_value) -> expected new}   (e.g. table += column)
    """

    def __init__(self, spec, kinds, level=None, ignore_keys=(), normalize=None):
        self.normalize = normalize
        self.spec, self.kinds, self.level = spec, kinds, level or {}
        self.ignore_by_lhs = ignore_keys if isinstance(ignore_keys, dict) else {None: set(ignore_keys)}
        self.ignore = set()
        self.checked = 0

    def __call__(self, ex, red):
        spec = self.spec
        if red.lhs not in spec.accumulators or red.old_vals is None:
            return 0
        if has_top(red.new) or any(has_top(v) for v in red.old_vals):
            return 0
        rhs = red.rhs
        old = None
        inner = []
        groups = []        # [(kind, inst, roles)]
        for e, ov in zip(rhs, red.old_vals):
            if e.summ is ACC:
                if e.sym == red.lhs and old is None:
                    old = ov
                else:
                    inner.append((e.sym, ov))
            elif isinstance(e.summ, Summ):
                for (w, t, val) in e.summ.words:
                    inst = None
                    if not groups or groups[-1][0] != t.kind or t.begin:
                        groups.append((t.kind, {}, []))
                    if t.role:
                        groups[-1][1][t.role] = val
                    groups[-1][2].append(w)
        wit = ex.render(red.ctx_path)
        if any(e.summ is not ACC and isinstance(e.summ, Summ) and not e.summ.first_begin for e in rhs[:1 if old is None else 2][-1:]):
            return 0       # fold starts inside a segment: O-segment reports it
        expected = old
        try:
            for sym, iv in inner:
                fn = self.level.get((red.lhs, sym))
                if fn is None:
                    return 0
                expected = fn(expected, iv)
            for kind, roles, ws in groups:
                fn = self.kinds.get(kind)
                if fn is None:
                    continue
                expected = fn(roles, expected)
                if expected is None:
                    return 0
        except KeyError as e:
            return 0
        if expected is None or expected is old and not inner and not groups:
            return 0
        self.checked += 1
        self.ignore = set(self.ignore_by_lhs.get(red.lhs, ())) | set(self.ignore_by_lhs.get(None, ()))
        new = red.new
        if self.normalize is not None:
            import copy as _copy
            new = self.normalize(red.lhs, _copy.deepcopy(new))
            expected = self.normalize(red.lhs, _copy.deepcopy(expected))
        self.compare(ex, red, expected, new, wit, groups)
        return 1

    def compare(self, ex, red, expected, new, wit, groups):
        kinds = "+".join(g[0] for g in groups) or red.lhs
        if isinstance(expected, dict) and isinstance(new, dict):
            keys = []
            for k in list(expected) + [k for k in new if k not in expected]:
                if k in keys or k in self.ignore:
                    continue
                keys.append(k)
            for k in keys:
                if k not in new:
                    ex.add("O-value", f"{self.spec.name}: {kinds}: key `{k}` missing after `{red.prod}`",
                           f"expected {k!r}: {show(expected[k])!r}; the fold by {red.func} does not produce it", wit)
                elif k not in expected:
                    ex.add("O-value", f"{self.spec.name}: {kinds}: unexpected key `{show(k)}` after `{red.prod}`",
                           f"the fold by {red.func} adds {show(k)!r}: {show(new[k])!r}, which the words of the segment do not call for "
                           "(captured under a foreign key, or a neighbour changed)", wit)
                elif not matches(expected[k], new[k]):
                    ex.add("O-value", f"{self.spec.name}: {kinds}: `{k}` wrong after `{red.prod}`",
                           f"expected {k!r}: {show(expected[k])!r}, the fold by {red.func} gives {show(new[k])!r}", wit)
        elif not matches(expected, new):
            ex.add("O-value", f"{self.spec.name}: {kinds}: value wrong after `{red.prod}`",
                   f"expected {show(expected)!r}, got {show(new)!r}", wit)
