"""Judging the FINAL output of table statements (objabs): wraps a fragment's value oracle, collects the distinct
parse-level table values produced by the `expr` folds of the fixed point (one representative per structural shape) and
evaluates Output.format on each, in the requested output modes.

Rule sets (selected by the calling check):
  keys   (C02) primary_key = declared key columns in order; key columns NOT NULL; unique flags; references attached once
  shape  (C12) documented table / column skeleton, booleans, JSON-encodable leaves
  modes  (C10) every mode succeeds when the default mode does; common fields equal the default mode's; dialect-specific
               keys at top level only in the modes their dataclass metadata documents; (C11) what the default mode reports
               under table_properties is at top level in the owning mode"""
import copy
import multiprocessing as mp
import os

from ..core import AnalysisError
from ..dcmodel import DCModel
from ..pyabs import W, lift, deep_eq, PyRaise, LexUnknown, NonUniform
from ..objabs import ShapeMismatch
from .common import show
from .alter import deep_eq_safe, _Collector

REQUIRED_TABLE = ["table_name", "schema", "primary_key", "columns", "alter", "checks", "index", "partitioned_by", "tablespace"]
REQUIRED_COLUMN = ["name", "type", "size", "references", "unique", "nullable", "default", "check"]
COMMON = ["table_name", "schema", "columns", "primary_key", "checks", "index", "alter", "partitioned_by", "partition_by", "constraints", "tablespace"]


def _shape(v, d=0):
    if isinstance(v, dict):
        return ("d", tuple(sorted((str(k) if not isinstance(k, W) else "<w>", _shape(x, d + 1)) for k, x in v.items())))
    if isinstance(v, (list, tuple)):
        return ("l", tuple(_shape(x, d + 1) for x in v))
    if isinstance(v, W):
        f = v.ex[0]
        return "w:" + type(f).__name__ + (":" + f[0] if isinstance(f, str) and f and not f[0].isalnum() else "")
    return type(v).__name__ + (":" + str(v) if isinstance(v, bool) or v is None else "")


def _norm(x):
    return x.lower().replace('"', "").replace("`", "").replace("[", "").replace("]", "") if isinstance(x, str) else x


def _name_relations(t):
    """which pairs of column names are different as written but equal once quoting and case are ignored (part of the shape:
    such tables exercise every name comparison of the output layer)"""
    names = [c.get("name") for c in t.get("columns") or [] if isinstance(c, dict)]
    out = []
    for i in range(len(names)):
        for j in range(i + 1, len(names)):
            a, b = names[i], names[j]
            ea = a.ex if isinstance(a, W) else (a,) * 6
            eb = b.ex if isinstance(b, W) else (b,) * 6
            if all(x != y for x, y in zip(ea, eb)) and all(_norm(x) == _norm(y) for x, y in zip(ea, eb)):
                out.append((i, j))
    return tuple(out)


def _key_positions(t):
    """where the declared key columns sit in the column list (part of the shape: a key declared in another order than the columns
    are defined is a different case for the output layer than one declared in definition order)"""
    names = [c.get("name") for c in t.get("columns") or [] if isinstance(c, dict)]

    def pos(x):
        for i, n in enumerate(names):
            try:
                if deep_eq_safe(n, x):
                    return i
            except Exception:
                pass
        return -1
    out = [tuple(pos(x) for x in (t.get("primary_key") or []))]
    cons = t.get("constraints") or {}
    for k in ("primary_keys", "uniques"):
        for c in cons.get(k) or []:
            out.append((k, tuple(pos(x) for x in (c.get("columns") or []))))
    return tuple(out)


class FinalJudge:
    def __init__(self, ctx, inner, rules=("keys", "shape", "modes"), modes=None, max_shapes=40, label=""):
        self.ctx, self.inner, self.rules, self.label = ctx, inner, set(rules), label
        self.dc = ctx._get("dcmodel", lambda: DCModel(ctx.model))
        all_modes = sorted(self.dc.dialect_by_name)
        self.modes = list(modes) if modes else (all_modes if "modes" in self.rules else ["sql"])
        self.max_shapes = max_shapes
        self.seen = {}
        self.checked = 0
        self.inner_checked = 0
        self.pending = []
        from ..objabs import format_output
        self.fmt = format_output
        # forwarded attributes of the wrapped DeltaOracle
        for a in ("kinds", "level", "ignore_by_lhs", "spec"):
            if hasattr(inner, a):
                setattr(self, a, getattr(inner, a))

    def __call__(self, ex, red):
        r = self.inner(ex, red)
        self.inner_checked = getattr(self.inner, "checked", 0)
        if red.lhs == "expr" and isinstance(red.new, dict) and "table_name" in red.new and "columns" in red.new and red.new.get("columns"):
            k = (_shape(red.new), _name_relations(red.new), _key_positions(red.new))
            if k not in self.seen and len(self.seen) < 4000:
                self.seen[k] = (copy.deepcopy(red.new), ex.render(ex._cur_ctx))
        return r

    def on_accept(self, ex, final, steps):
        if hasattr(self.inner, "on_accept"):
            self.inner.on_accept(ex, final, steps)

    @property
    def total_checked(self):
        return self.inner_checked + self.checked

    def finish(self, ex):
        if hasattr(self.inner, "finish"):
            self.inner.finish(ex)
        global _JOB
        items = list(self.seen.values())
        self.n_shapes_seen = len(items)
        if len(items) > self.max_shapes:
            # an evenly spaced sample over the (breadth-first, small to large) order in which the shapes appeared
            step = len(items) / float(self.max_shapes)
            items = [items[int(i * step)] for i in range(self.max_shapes)]
        _JOB = (self, ex, items)
        n = min(8, os.cpu_count() or 2, max(1, len(items) // 3), int(os.environ.get("SDPVERIF_JOBS") or 64))
        if mp.current_process().daemon or n <= 1:
            results = [_work(i) for i in range(len(items))]
        else:
            with mp.get_context("fork").Pool(n) as pool:
                results = pool.map(_work, range(len(items)), chunksize=1)
        _JOB = None
        for found, checked, err in results:
            if err:
                raise AnalysisError(err)
            self.checked += checked
            for rule, key, detail, wit in found:
                ex.add(rule, key, detail, wit)
        self.checked_total = self.checked
        # the explorer reports oracle.checked as the number of value checks
        self.checked = self.inner_checked + self.checked

    # ------------------------------------------------------------------
    def judge(self, col, F, wit):
        n = 0
        outs = {}
        name = self.label or "final"
        for m in self.modes:
            try:
                outs[m] = self.fmt(self.ctx, [copy.deepcopy(F)], m, False)
            except PyRaise as pr:
                outs[m] = pr
            except ShapeMismatch as sm:
                col.add("O-uniform", f"{name}: the output layer treats the words of one class in structurally different ways (mode {m})", f"{sm}", wit)
                return n
            except (LexUnknown, NonUniform) as e:
                raise AnalysisError(f"{name}: output layer outside the interpreted subset in mode {m} on `{wit}`: {e}")
            n += 1
        base = outs.get("sql")
        if isinstance(base, PyRaise):
            col.add("O-final", f"{name}: the output layer raises {type(base.exc).__name__} on a parsed table",
                    f"{base.exc}", wit)
            return n
        if base is not None and (not isinstance(base, list) or len(base) != 1 or not isinstance(base[0], dict)):
            col.add("O-final", f"{name}: a parsed table does not yield exactly one entry", f"{show(base)!r}"[:300], wit)
            return n
        if "shape" in self.rules:
            for m, out in outs.items():
                if not isinstance(out, PyRaise):
                    self.shape(col, name, m, out[0], wit)
        if "keys" in self.rules and base is not None:
            self.keys(col, name, F, base[0], wit)
        if "modes" in self.rules and base is not None:
            for m, out in outs.items():
                if m == "sql":
                    continue
                if isinstance(out, PyRaise):
                    col.add("O-mode", f"{name}: mode `{m}` turns a successful parse into {type(out.exc).__name__}",
                            f"the default mode formats this table, mode {m} raises: {out.exc}", wit)
                    continue
                self.mode_rules(col, name, m, out[0], base[0], wit)
        return n

    def shape(self, col, name, m, t, wit):
        def bad(what, detail):
            col.add("O-shape", f"{name}: {what} (mode {m})", detail, wit)
        for k in REQUIRED_TABLE:
            kk = "dataset" if (m == "bigquery" and k == "schema") else k
            if kk not in t:
                return bad(f"table entry lacks `{kk}`", f"keys: {sorted(map(str, t))}")
        for k, ty in (("primary_key", list), ("columns", list), ("alter", dict), ("checks", list), ("index", list), ("partitioned_by", list)):
            if not isinstance(t[k], ty):
                return bad(f"`{k}` is not a {ty.__name__}", f"{show(t[k])!r}"[:120])
        names = []
        for c in t["columns"]:
            if not isinstance(c, dict):
                return bad("a column entry is not a dict", f"{show(c)!r}"[:120])
            for k in REQUIRED_COLUMN:
                if k not in c:
                    return bad(f"a column entry lacks `{k}`", f"{show(c)!r}"[:300])
            for k in ("unique", "nullable"):
                v = c[k]
                vs = v.ex if isinstance(v, W) else (v,)
                if not all(isinstance(x, bool) for x in vs):
                    return bad(f"column `{k}` is not a boolean", f"{show(c)!r}"[:300])
            names.append(c["name"])
        for p in t["primary_key"]:
            if not any(deep_eq_safe(p, nm) for nm in names) and not isinstance(p, W):
                return bad("primary_key names something that is not a column", f"{show(t['primary_key'])!r} vs {show(names)!r}")
        if not _jsonable(t):
            return bad("a value json cannot encode", f"{show(t)!r}"[:300])

    def keys(self, col, name, F, t, wit):
        def bad(what, detail):
            col.add("O-keys", f"{name}: {what}", detail, wit)
        cols = F.get("columns") or []
        declared = F.get("primary_key")
        if declared:
            exp_pk = list(declared)
        else:
            exp_pk = [c["name"] for c in cols if isinstance(c, dict) and c.get("primary_key") is True]
            for kc in (F.get("constraints") or {}).get("primary_keys") or []:
                exp_pk += list(kc.get("columns") or [])
        if not deep_eq_safe(t.get("primary_key"), exp_pk):
            return bad("primary_key is not the declared key", f"expected {show(exp_pk)!r}, got {show(t.get('primary_key'))!r}")
        by_name = {}
        for c in t["columns"]:
            for p in exp_pk:
                if deep_eq_safe(c["name"], p) and c.get("nullable") is not False:
                    return bad("a primary-key column is reported nullable", f"{show(c)!r}"[:300])
        for c_parse, c_out in zip(cols, t["columns"]):
            is_key = any(deep_eq_safe(c_out["name"], p) for p in exp_pk)
            if not is_key and isinstance(c_parse.get("nullable"), bool) and c_out.get("nullable") != c_parse.get("nullable"):
                return bad("nullability of a column that is not part of the key changed",
                           f"column {show(c_out['name'])!r}: declared nullable={c_parse.get('nullable')}, reported {c_out.get('nullable')}; key = {show(exp_pk)!r}")
        # unique flags
        single = []
        us = F.get("unique_statement")
        if isinstance(us, list) and len(us) == 1:
            single.append(us[0])
        for c_parse, c_out in zip(cols, t["columns"]):
            want = bool(c_parse.get("unique")) or any(deep_eq_safe(c_parse.get("name"), s_) for s_ in single)
            if isinstance(c_out.get("unique"), bool) and c_out["unique"] != want and not (c_out["unique"] and not want and single == [] and False):
                # multi-column unique must never flag; single / inline must flag
                multi = [u for u in ((F.get("constraints") or {}).get("uniques") or [])]
                return bad("unique flag of a column is wrong", f"column {show(c_out['name'])!r}: reported unique={c_out['unique']}, "
                                                              f"declared inline={bool(c_parse.get('unique'))}, single-column UNIQUE clause on it={want and not c_parse.get('unique')}")
        # references from table-level FOREIGN KEY clauses are attached to their own columns, once
        for r in F.get("ref_columns") or []:
            hits = [c for c in t["columns"] if deep_eq_safe(c["name"], r.get("name"))]
            for c in hits:
                ref = c.get("references")
                if not isinstance(ref, dict) or not deep_eq_safe(ref.get("table"), r.get("table")) or not deep_eq_safe(ref.get("column"), r.get("column")):
                    return bad("a FOREIGN KEY clause is not attached to its column", f"column {show(c)!r} vs declared {show(r)!r}"[:400])
        n_checks = len(F.get("checks") or [])
        if len(t.get("checks") or []) != n_checks:
            return bad("number of reported CHECKs", f"declared {n_checks}, reported {len(t.get('checks') or [])}")

    def mode_rules(self, col, name, m, t, base, wit):
        def bad(what, detail):
            col.add("O-mode", f"{name}: {what} (mode {m})", detail, wit)
        for k in COMMON:
            km = "dataset" if (m == "bigquery" and k == "schema") else k
            if (k in base) != (km in t):
                return bad(f"common field `{k}` present in one of default / {m} only", f"default keys {sorted(map(str, base))}; {m} keys {sorted(map(str, t))}")
            if k in base and not _common_equal(k, base[k], t[km], m):
                return bad(f"common field `{k}` differs from the default mode", f"default {show(base[k])!r} vs {m} {show(t[km])!r}"[:500])
        # dialect-specific keys at top level only where documented
        _n, _mro, fields = self.dc.mode_class(m)
        fields = dict(fields)
        for fn, fi in list(fields.items()):
            if "alias" in fi.metadata:
                fields[fi.metadata["alias"]] = fi
        for k in t:
            if k in base or k in ("dataset",):
                continue
            fi = fields.get(k) if isinstance(k, str) else None
            modes = fi.metadata.get("output_modes") if fi is not None else None
            if fi is None or not (modes is None or m in modes):
                return bad(f"key `{show(k)}` is shown at top level in a mode it is not documented for",
                           f"field metadata: {fi.metadata if fi is not None else 'not a field of the mode class'}")
        # what the default mode keeps under table_properties is at top level in the owning mode
        for k, v in (base.get("table_properties") or {}).items():
            fi = fields.get(k) if isinstance(k, str) else None
            if fi is not None and (fi.metadata.get("output_modes") is None or m in fi.metadata["output_modes"]) and not fi.metadata.get("exclude_always"):
                if k not in t or not deep_eq_safe(t[k], v):
                    return bad(f"clause key `{k}` is not at top level in its owning mode",
                               f"default mode reports table_properties[{k!r}] = {show(v)!r}; mode {m} top level has {show(t.get(k))!r}"[:400])


        # ... and the other way round: a clause the owning mode reports at top level is not lost in the default mode - it is kept
        # under table_properties (the property: a clause is captured under its key in the owning mode AND in the default mode)
        tp = base.get("table_properties") or {}
        for k, v in t.items():
            if k in base or k in ("dataset",) or not isinstance(k, str):
                continue
            provided = not _empty(v)        # (a mode's own default - None, False, an empty structure - is not a clause of the statement)
            if provided and (k not in tp or not deep_eq_safe(tp[k], v)):
                return bad(f"clause key `{k}` is reported by mode {m} but lost in the default mode",
                           f"mode {m} has {k} = {show(v)!r}; default mode table_properties has {show(tp.get(k))!r} (keys {sorted(map(str, tp))})"[:400])


def _empty(v):
    if isinstance(v, W):
        return False
    if v is None or v is False or (isinstance(v, str) and v == ""):
        return True
    if isinstance(v, dict):
        return all(_empty(x) for x in v.values())
    if isinstance(v, (list, tuple, set)):
        return all(_empty(x) for x in v)
    return False


def _common_equal(k, a, b, mode):
    if k == "columns" and isinstance(a, list) and isinstance(b, list) and len(a) == len(b):
        for ca, cb in zip(a, b):
            for kk in REQUIRED_COLUMN:
                if not deep_eq_safe(ca.get(kk), cb.get(kk)):
                    return False
        return True
    if k == "index" and mode == "mssql":
        strip = lambda lst: [{kk: vv for kk, vv in x.items() if kk != "clustered"} if isinstance(x, dict) else x for x in (lst or [])]
        return deep_eq_safe(strip(a), strip(b))
    return deep_eq_safe(a, b)


def _jsonable(v, d=0):
    if isinstance(v, W):
        return all(_jsonable(x, d + 1) for x in v.ex)
    if v is None or isinstance(v, (str, int, float, bool)):
        return True
    if d > 14:
        return True
    if isinstance(v, dict):
        return all((isinstance(k, str) or (isinstance(k, W) and all(isinstance(x, str) for x in k.ex))) and _jsonable(x, d + 1) for k, x in v.items())
    if isinstance(v, (list, tuple)):
        return all(_jsonable(x, d + 1) for x in v)
    return False


_JOB = None


def _work(i):
    judge, ex, items = _JOB
    col = _Collector(ex)
    try:
        n = judge.judge(col, items[i][0], items[i][1])
    except AnalysisError as e:
        return [], 0, str(e)
    return col.found, n, None
