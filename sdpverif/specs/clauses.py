"""Fragment *clauses* (C11): dialect clauses after the column list, any sequence of the compatible clauses of
one dialect group.

Oracle (from the property statement): folding a clause adds exactly its documented key, the value stored
under that key contains every value word of the clause exactly as written, and nothing else about the
table changes (names, columns, keys, constraints, other clauses).
"""
from ..deriv import Spec, Tag
from ..pyabs import W, deep_eq, lift
from .common import punct, numbers, DeltaOracle, Matcher


class Holds(Matcher):
    """value matcher: every listed word occurs in the value as written (as a leaf or inside a string leaf)"""

    def __init__(self, words):
        self.words = [w for w in words if w is not None]

    def leaves(self, v, out):
        if isinstance(v, dict):
            for k, x in v.items():
                self.leaves(k, out)
                self.leaves(x, out)
        elif isinstance(v, (list, tuple)):
            for x in v:
                self.leaves(x, out)
        else:
            out.append(v)

    def match(self, actual):
        ls = []
        self.leaves(actual, ls)
        for w in self.words:
            ok = False
            for leaf in ls:
                if isinstance(leaf, (str, W)) and (isinstance(leaf, str) or all(isinstance(x, str) for x in leaf.ex)):
                    r = lift(lambda a, b: a in b, w, leaf)
                    if r is True:
                        ok = True
                        break
                elif deep_eq(leaf, w):
                    ok = True
                    break
            if not ok:
                return False
        return True

    def __repr__(self):
        from .common import show
        return f"<value containing {[show(w) for w in self.words]}>"


class KeyColumns(Matcher):
    """a clause record whose `columns` are exactly these, in order (and that holds them nowhere else)"""

    def __init__(self, cols):
        self.cols = cols

    def match(self, actual):
        if not isinstance(actual, dict) or not isinstance(actual.get("columns"), list) or len(actual["columns"]) != len(self.cols):
            return False
        if not all(deep_eq(a, b) for a, b in zip(actual["columns"], self.cols)):
            return False
        return all(k in ("columns", "type") or v in (None, [], {}) for k, v in actual.items())

    def __repr__(self):
        from .common import show
        return f"<record with columns {[show(c) for c in self.cols]}>"


GROUPS = {
    "hql": ["STORED_AS", "LOCATION", "ROW_FORMAT", "ROW_FORMAT_SERDE", "FIELDS_TERMINATED", "TBLPROPERTIES", "PARTITIONED_BY",
            "CLUSTERED_BY", "CLUSTERED_BY_2", "INTO_BUCKETS", "COMMENT", "COMMENT_ESC"],
    "mysql": ["ENGINE", "DEFAULT_CHARSET", "AUTO_INCREMENT", "COMMENT_EQ"],
    "oracle": ["TABLESPACE", "STORAGE", "ORGANIZATION_INDEX"],
    "redshift": ["DISTSTYLE", "DISTKEY"],
    "snowflake": ["CLUSTER_BY", "CLUSTER_BY_2", "COMMENT_EQ", "RETENTION", "CHANGE_TRACKING", "WITH_TAG"],
    "mssql": ["ON", "TEXTIMAGE_ON", "WITH", "WITH_KW"],
    "bigquery": ["OPTIONS", "PARTITION_BY_F", "CLUSTER_BY_BARE"],
    "postgres": ["INHERITS", "PARTITION_BY_RANGE", "PARTITION_BY_2"],
    "spark": ["USING"],
    "db2": ["IN", "INDEX_IN", "ORGANIZE_BY"],
}


OWNER_MODE = {"hql": "hql", "mysql": "mysql", "oracle": "oracle", "redshift": "redshift", "snowflake": "snowflake", "mssql": "mssql",
              "bigquery": "bigquery", "postgres": "postgres", "spark": "spark_sql", "db2": "ibm_db2"}


def build(ctx, group="hql", tier="quick", only=None, final=None, final_modes=None):
    lm = ctx.lexer
    # multiple_options collects consecutive OPTIONS(...) clauses into one list (documented BigQuery behaviour)
    s = Spec(f"clauses-{group}", lm, accumulators={"expr", "defcolumn", "table_name", "multiple_options"})
    P, N = punct(lm), numbers(lm)
    pl = lm.plain
    t = pl("t", ["t", "tb", "Users", "t_1", "order_items", "Tbl2"])
    ca = pl("a", ["c", "id", "Col", "a_1", "user_name", "ZipCode2"])
    cb = pl("b", ["d", "uid", "Cal", "b_2", "order_total", "ZapCode3"])
    typ = pl("type", ["int", "varchar", "DECIMAL", "Text", "bigint", "num_9"])
    val = pl("val", ["parquet", "InnoDB", "utf8", "Orc", "ts_1", "PAGE"])
    val2 = pl("val2", ["x", "y1", "Zed", "q_2", "something", "V2"])
    kwcol = "KWCOL"     # placeholder: one edge per keyword-shaped column name (see below)
    s1 = lm.custom("'s1'", ["'a'", "'Hello'", "'/path/x'", "'it_s'", "'k.1'", "'p = q . r'"], "STR")
    s_esc = lm.custom("'s\\'s'", ["'customer\\pars_m_singles orders'", "'it\\pars_m_singles'", "'a\\pars_m_singleb'"], "STR")
    s2 = lm.custom("'s2'", ["'b'", "'World'", "'/other/y'", "'v_s'", "'v.2'", "'C d'"], "STR")
    # body: CREATE TABLE t ( a type NOT NULL , b type ( n ) )
    a = s.words(s.start, "head", [("KW", "CREATE"), ("KW", "TABLE"), (t, "name")])
    a = s.words(a, "lp", [P["("]])
    a = s.words(a, "col", [(ca, "name"), (typ, "type")])
    a = s.words(a, "opt:NOTNULL", [("KW", "NOT"), ("KW", "NULL")])
    a = s.words(a, "sep", [P[","]])
    a = s.words(a, "col", [(cb, "name"), (typ, "type"), P["("], (N["NUM"], "size1"), P[")"]])
    home = s.words(a, "end", [P[")"]])
    s.acc.add(home)
    W_ = {
        "STORED_AS": ("stored_as", [("KW", "STORED"), ("KW", "AS"), (val, "v")]),
        "LOCATION": ("location", [("KW", "LOCATION"), (s1, "v")]),
        "ROW_FORMAT": ("row_format", [("KW", "ROW"), ("KW", "FORMAT"), (pl("DELIMITED", ["DELIMITED", "delimited", "Delimited"]), "v")]),
        "ROW_FORMAT_SERDE": ("row_format", [("KW", "ROW"), ("KW", "FORMAT"), ("KW", "SERDE"), (s1, "v")]),
        "FIELDS_TERMINATED": ("fields_terminated_by", [(pl("FIELDS", ["FIELDS", "fields", "Fields"]), None), ("KW", "TERMINATED"), ("KW", "BY"), (s1, "v")]),
        "TBLPROPERTIES": ("tblproperties", [("KW", "TBLPROPERTIES"), P["("], (s1, "k"), P["="], (s2, "v"), P[")"]]),
        "PARTITIONED_BY": ("partitioned_by", [("KW", "PARTITIONED"), ("KW", "BY"), P["("], (val2, "k"), (typ, "v"), P[")"]]),
        "CLUSTERED_BY": ("clustered_by", [("KW", "CLUSTERED"), ("KW", "BY"), P["("], (ca, "v"), P[")"]]),
        # a list of two columns whose second one is called like a keyword of the column-definition vocabulary
        "CLUSTERED_BY_2": ("clustered_by", [("KW", "CLUSTERED"), ("KW", "BY"), P["("], (ca, "k"), P[","], (kwcol, "v"), P[")"]]),
        "CLUSTER_BY_2": ("cluster_by", [("KW", "CLUSTER"), ("KW", "BY"), P["("], (ca, "k"), P[","], (kwcol, "v"), P[")"]]),
        "INTO_BUCKETS": ("into_buckets", [("KW", "INTO"), (N["NUM"], "v"), (pl("BUCKETS", ["BUCKETS", "buckets", "Buckets"]), None)]),
        "COMMENT": ("comment", [("KW", "COMMENT"), (s1, "v")]),
        # a literal with an escaped quote as the line pre-processor hands it over (placeholder in place of the quote): the action
        # must put the quote back
        "COMMENT_ESC": ("comment", [("KW", "COMMENT"), (s_esc, "vesc")]),
        "ENGINE": ("engine", [("KW", "ENGINE"), P["="], (val, "v")]),
        "DEFAULT_CHARSET": ("default_charset", [("KW", "DEFAULT"), (lm.custom("CHARSET", ["CHARSET"], "WORD"), None), P["="], (val, "v")]),
        "AUTO_INCREMENT": ("auto_increment", [(lm.custom("AUTO_INCREMENT", ["AUTO_INCREMENT", "auto_increment", "Auto_Increment"], "AUTOINC"), None), P["="], (N["NUM"], "v")]),
        "COMMENT_EQ": ("comment", [("KW", "COMMENT"), P["="], (s1, "v")]),
        "TABLESPACE": ("tablespace", [("KW", "TABLESPACE"), (val, "v")]),
        "STORAGE": ("storage", [("KW", "STORAGE"), P["("], (pl("INITIAL", ["INITIAL", "initial", "Initial"]), None), (lm.custom("5M", ["5M", "10k", "64K"], "NUM"), "v"), P[")"]]),
        "ORGANIZATION_INDEX": ("organization_index", [(pl("ORGANIZATION", ["ORGANIZATION", "organization", "Organization"]), None), ("KW", "INDEX")]),
        "DISTSTYLE": ("diststyle", [(pl("DISTSTYLE", ["DISTSTYLE", "diststyle", "DistStyle"]), None), (pl("EVEN", ["EVEN", "even", "ALL", "all"]), "v")]),
        "DISTKEY": ("distkey", [(pl("DISTKEY", ["DISTKEY", "distkey", "DistKey"]), None), P["("], (ca, "v"), P[")"]]),
        "CLUSTER_BY": ("cluster_by", [("KW", "CLUSTER"), ("KW", "BY"), P["("], (ca, "v"), P[")"]]),
        "RETENTION": ("data_retention_time_in_days", [("KW", "DATA_RETENTION_TIME_IN_DAYS"), P["="], (N["NUM"], "vint")]),
        "CHANGE_TRACKING": ("change_tracking", [("KW", "CHANGE_TRACKING"), P["="], (pl("TRUE", ["TRUE", "true", "True"]), "vbool")]),
        "WITH_TAG": ("with_tag", [("KW", "WITH"), ("KW", "TAG"), P["("], (val2, "k"), P["="], (s1, "v"), P[")"]]),
        "ON": ("on", [("KW", "ON"), (lm.custom("[PRIMARY]", ["[PRIMARY]", "[primary]", "[fg_1]"], "BR"), "v")]),
        "TEXTIMAGE_ON": ("textimage_on", [("KW", "TEXTIMAGE_ON"), (lm.custom("[PRIMARY]", ["[PRIMARY]", "[primary]", "[fg_1]"], "BR"), "v")]),
        "WITH": ("with", [("KW", "WITH"), P["("], (pl("DATA_COMPRESSION", ["DATA_COMPRESSION", "data_compression", "Opt_1"]), "k"), P["="], (val, "v"), P[")"]]),
        # the documented values of DATA_COMPRESSION are NONE | ROW | PAGE: ROW is also a word of the after-columns vocabulary
        "WITH_KW": ("with", [("KW", "WITH"), P["("], (pl("DATA_COMPRESSION", ["DATA_COMPRESSION", "data_compression", "Opt_1"]), "k"), P["="], ("KW", "ROW", "v"), P[")"]]),
        # a partitioning key of two columns: both are columns of the key, in order
        "PARTITION_BY_2": ("partition_by", [("KW", "PARTITION"), ("KW", "BY"), (pl("HASH", ["HASH", "hash", "LIST", "list", "RANGE", "Range"]), "k"), P["("], (ca, "c1"), P[","], (cb, "c2"), P[")"]]),
        "OPTIONS": ("options", [("KW", "OPTIONS"), P["("], (val2, "k"), P["="], (s1, "v"), P[")"]]),
        "PARTITION_BY_F": ("partition_by", [("KW", "PARTITION"), ("KW", "BY"), (pl("DATE", ["DATE", "date", "Date"]), "k"), P["("], (cb, "v"), P[")"]]),
        "CLUSTER_BY_BARE": ("cluster_by", [("KW", "CLUSTER"), ("KW", "BY"), (ca, "v")]),
        "INHERITS": ("inherits", [("KW", "INHERITS"), P["("], (val2, "k"), P["."], (val, "v"), P[")"]]),
        "PARTITION_BY_RANGE": ("partition_by", [("KW", "PARTITION"), ("KW", "BY"), (pl("RANGE", ["RANGE", "range", "Range"]), "k"), P["("], (ca, "v"), P[")"]]),
        "USING": ("using", [("KW", "USING"), (val, "v")]),
        "IN": ("tablespace", [("KW", "IN"), (val, "v")]),
        "INDEX_IN": ("index_in", [("KW", "INDEX"), ("KW", "IN"), (val2, "v")]),
        "ORGANIZE_BY": ("organize_by", [(pl("ORGANIZE", ["ORGANIZE", "organize", "Organize"]), None), ("KW", "BY"), ("KW", "ROW", "v")]),
    }
    names = GROUPS[group] if only is None else only
    kinds = {}
    for cname in names:
        key, ws = W_[cname]
        kind = "clause:" + cname
        ws = [w if not (isinstance(w, tuple) and w[0] != "KW" and w[1] is None) else w[0] for w in ws]
        pos = [i for i, w in enumerate(ws) if isinstance(w, tuple) and w[0] == "KWCOL"]
        if pos:
            # a column called like a word of the column-definition vocabulary, in both spellings
            i = pos[0]
            a0 = s.words(home, kind, ws[:i])
            b0 = s.new()
            for k in ("ORDER", "SET", "NULL", "ARRAY", "ENUM", "ENCODE", "GENERATED", "DEFAULT"):    # (not the clause-opening words C06 excludes)
                for case in ("upper", "other"):
                    try:
                        wk = lm.kw(k, case)
                    except Exception:
                        continue
                    s.e[a0].append((wk, Tag(kind, False, ws[i][1]), b0))
            e = s.words(b0, kind, ws[i + 1:], begin=False)
        else:
            e = s.words(home, kind, ws)
        s.eps(e, home)
        kinds[kind] = clause_expect(key)
        if cname == "PARTITION_BY_2":
            kinds[kind] = lambda roles, old: {**old, "partition_by": KeyColumns([roles["c1"], roles["c2"]])}
    from . import table as T
    base = T.make_oracle(s)
    allk = dict(base.kinds)
    allk.update(kinds)
    level = dict(base.level)
    level[("expr", "multiple_options")] = lambda old, inner: {**old, **inner}
    if "clause:OPTIONS" in allk:
        inner_opt = allk["clause:OPTIONS"]

        def options_kind(roles, old):
            if old is None or "table_name" not in old:        # folding into multiple_options
                return {"options": Holds([roles.get("k"), roles.get("v")])}
            return inner_opt(roles, old)
        allk["clause:OPTIONS"] = options_kind
    oracle = DeltaOracle(s, allk, level, ignore_keys=base.ignore_by_lhs, normalize=normalize)
    if final:
        from .final import FinalJudge
        if final_modes is None and "modes" in final and tier != "thorough":
            final_modes = ["sql", OWNER_MODE[group], "sqlite"]
        oracle = FinalJudge(ctx, oracle, rules=final, modes=final_modes, label=s.name, max_shapes=60 if tier == "thorough" else 24)
    return s, oracle


def clause_expect(key):
    keys = key if isinstance(key, tuple) else (key,)

    def fn(roles, old):
        new = dict(old)
        vals = [roles.get(r) for r in ("k", "v", "v2")]
        if "vint" in roles:
            vals = [lift(int, roles["vint"])]
        if "vbool" in roles:
            vals = [True]
        if "vesc" in roles:
            vals = [lift(lambda x: x.replace("pars_m_single", "'"), roles["vesc"])]
        for i, k in enumerate(keys):
            if len(keys) > 1:
                new[k] = Holds([roles.get(("v", "v2")[i])])
            elif not any(v is not None for v in vals):
                new[k] = True
            else:
                new[k] = Holds(vals)
        return new
    return fn


def normalize(lhs, v):
    """TableData.pre_load_mods lower-cases every key of the parse result; keys that come from the clause word
    itself (AUTO_INCREMENT, DISTSTYLE ...) are therefore compared lower-cased."""
    from . import table as T
    v = T.normalize(lhs, v)
    if lhs == "expr" and isinstance(v, dict):
        out = {}
        for k, x in v.items():
            if isinstance(k, (str, W)):
                k = lift(lambda z: z.lower() if isinstance(z, str) else z, k)
            out[k] = x
        return out
    return v
