"""Fragment *types* (C09): parameterised and nested column types.

CREATE TABLE t ( a int , b <TYPE> <options> , z int ) where <TYPE> is drawn from
  plain | plain ( n ) | plain ( p , s ) | plain ( max ) | plain ( n CHAR ) | plain ( * , s ) | plain[] | w1 w2 | w1 w2 ( n )
  | s . type | angle-bracket types as word sequences after comma spacing:
        OPENk (a word with k '<' and no '>'),  element words,  inner commas,  mixed words (j '<' and k '>'),  CLOSEk (k '>')
    nested up to depth D (quick 3, thorough 6), with any admissible order of the words,
and <options> is any sequence of NOT NULL / DEFAULT n / COMMENT 's'.

Oracle (from the property): the column is reported once with its name; its type is ONE string that contains every word of the
type in order and has balanced angle brackets (exact spacing is not decided), with the size where one is given; the options
written after the type land on that column; the columns before and after are exactly as next to a plain type."""
from ..deriv import Spec, Tag
from ..pyabs import W, lift
from .common import punct, numbers, to_int, DeltaOracle, Matcher
from . import table as T


class TypeText(Matcher):
    def __init__(self, words):
        self.words = words

    def match(self, actual):
        def one(text, *ws):
            if not isinstance(text, str):
                return False
            pos = 0
            for w in ws:
                i = text.find(w, pos)
                if i < 0:
                    return False
                pos = i + len(w)
            return text.count("<") == text.count(">") == sum(w.count("<") for w in ws)
        r = lift(one, actual, *self.words)
        return r is True

    def __repr__(self):
        from .common import show
        return f"<one balanced type string containing {[show(w) for w in self.words]} in order>"


def build(ctx, tier="quick", depth=None):
    lm = ctx.lexer
    D = depth or (6 if tier == "thorough" else 3)
    s = Spec("types", lm, accumulators={"expr", "defcolumn", "table_name"})
    P, N = punct(lm), numbers(lm)
    pl = lm.plain
    t = pl("t", ["t", "tb", "Users", "t_1", "order_items", "Tbl2"])
    ca = pl("a", ["c", "id", "Col", "a_1", "user_name", "ZipCode2"])
    cb = pl("b", ["d", "uid", "Cal", "b_2", "order_total", "ZapCode3"])
    cz = pl("z", ["z", "zid", "Zol", "z_9", "last_seen", "Zz2"])
    typ = pl("type", ["int", "varchar", "DECIMAL", "Text", "bigint", "num_9"])
    w1 = pl("w1", ["double", "character", "Double", "CHARACTER", "long", "national"])
    w2 = pl("w2", ["precision", "varying", "Precision", "VARYING", "raw", "character"])
    sname = pl("schema", ["s", "db", "My_Schema", "x_1", "analytics", "Zq9"])
    strs = lm.custom("'s'", ["'a'", "'Hello'", "'x y'", "'it_s'", "'1'"], "STR")
    arr = lm.custom("t[]", ["int[]", "text[][]", "varchar[]", "Num_1[]"], "ARR")
    mx = lm.custom("max", ["max", "MAX", "Max"], "WORD")
    chr_ = lm.custom("CHAR", ["CHAR", "BYTE", "char", "byte"], "WORD")
    star = lm.custom("*", ["*"], "PUNCT")
    open1 = lm.custom("X<e", ["MAP<STRING", "STRUCT<a:INT", "map<string", "Struct<b_1:DECIMAL", "MAP<k1"], "TAG")
    open2 = lm.custom("X<Y<e", ["MAP<STRING<x", "STRUCT<a:STRUCT<b:INT", "map<k:struct<v", "Struct<m:MAP<STRING"], "TAG")
    elem = lm.custom("e", ["INT", "b:STRING", "string", "c_1:DECIMAL", "Text", "d:int"], "ELEM")
    m11 = lm.custom("e<x>", ["b:ARRAY<INT>", "c:MAP<K>", "d:array<int>", "e_1:Struct<x:INT>"], "TAG")
    m12 = lm.custom("e<x>>", ["b:ARRAY<INT>>", "c:MAP<K>>", "d:array<int>>", "e_1:Struct<x:INT>>"], "TAG")
    close1 = lm.custom("e>", ["INT>", "b:STRING>", "string>", "c_1:DECIMAL>"], "TAG")
    close2 = lm.custom("e>>", ["INT>>", "b:STRING>>", "string>>", "c_1:DECIMAL>>"], "TAG")
    gt1 = lm.custom(">", [">"], "TAG")
    gt2 = lm.custom(">>", [">>"], "TAG")
    # ---- CREATE TABLE t ( a int ,
    a = s.words(s.start, "head", [("KW", "CREATE"), ("KW", "TABLE"), (t, "name")])
    a = s.words(a, "lp", [P["("]])
    a = s.words(a, "col", [(ca, "name"), (typ, "tw1")])
    a0 = a
    a = s.words(a, "opt:DEF_NUM", [("KW", "DEFAULT"), (N["NUM"], "value")])     # optionally: an earlier DEFAULT clause
    s.eps(a0, a)
    # optionally: an earlier inline CHECK clause - whatever the lexer remembers of it must not reach the types that follow
    gt = lm.custom(">", [">", ">=", "<>"], "OP")
    a1 = s.words(a0, "opt:CHECK", [("KW", "CHECK"), P["("], (ca, "c1"), (gt, "op"), (N["NUM"], "c2"), P[")"]])
    s.eps(a1, a)
    a = s.words(a, "sep", [P[","]])
    n = s.edge(a, cb, Tag("col", True, "name"))
    O = s.new()
    # simple forms
    t1 = s.edge(n, typ, Tag("col", False, "tw1"))
    s.eps(t1, O)
    two = s.edge(n, w1, Tag("col", False, "tw1"))
    two = s.edge(two, w2, Tag("col", False, "tw2"))
    s.eps(two, O)
    s.edge(n, arr, Tag("col", False, "tw1"), O)
    q = s.edge(n, sname, Tag("col", False, "tq1"))
    q = s.edge(q, P["."], Tag("col", False))
    s.edge(q, typ, Tag("col", False, "tq2"), O)
    # a suffix after the size: numeric(10,2)[]  /  decimal(10,2) unsigned - the type is the base with the suffix, the size stays the size
    sfx_arr = lm.custom("[]", ["[]", "[][]"], "ARRSFX")
    sfx_word = lm.plain("sfxw", ["unsigned", "varying", "Zerofill", "w_1"])
    after_size = s.new()
    s.edge(after_size, sfx_arr, Tag("col", False, "sfx_arr"), O)
    s.edge(after_size, sfx_word, Tag("col", False, "sfx_word"), O)
    for st in (t1, two):
        z = s.edge(st, P["("], Tag("col", False))
        z1 = s.edge(z, N["NUM"], Tag("col", False, "size1"))
        s.edge(z1, P[")"], Tag("col", False), O)
        z2 = s.edge(z1, P[","], Tag("col", False))
        z2 = s.edge(z2, N["NUM"], Tag("col", False, "size2"))
        s.edge(z2, P[")"], Tag("col", False), O)
        if st is t1:
            s.edge(z1, P[")"], Tag("col", False), after_size)
            s.edge(z2, P[")"], Tag("col", False), after_size)
        zc = s.edge(z1, chr_, Tag("col", False, "sizeunit"))
        s.edge(zc, P[")"], Tag("col", False), O)
        zm = s.edge(z, mx, Tag("col", False, "sizeword"))
        s.edge(zm, P[")"], Tag("col", False), O)
        zs = s.edge(z, star, Tag("col", False, "sizestar"))
        zs = s.edge(zs, P[","], Tag("col", False))
        zs = s.edge(zs, N["NUM"], Tag("col", False, "size2"))
        s.edge(zs, P[")"], Tag("col", False), O)
        if st is t1:
            s.edge(zs, P[")"], Tag("col", False), after_size)
    # T-SQL IDENTITY(seed, increment) after the type, in any letter case
    ident = lm.custom("IDENTITY", ["IDENTITY", "identity", "Identity"], "WORD")
    zi = s.edge(t1, ident, Tag("col", False, "ident"))
    zi = s.edge(zi, P["("], Tag("col", False))
    zi = s.edge(zi, N["NUM"], Tag("col", False, "size1"))
    zi = s.edge(zi, P[","], Tag("col", False))
    zi = s.edge(zi, N["NUM"], Tag("col", False, "size2"))
    s.edge(zi, P[")"], Tag("col", False), O)
    # angle types: states (depth, after_comma)
    st = {}
    for d in range(1, D + 1):
        st[(d, False)] = s.new()
        st[(d, True)] = s.new()

    def tgt(d):
        return O if d == 0 else st[(d, False)]
    # roles: the words of the type are numbered by position class; the oracle only needs them in order, so they are
    # collected under successive role names tw1.. by the oracle from the segment's word list
    # the grammar offers both `column comment` and `defcolumn comment`: a COMMENT written directly after the type is folded into
    # the column first; that is the same column, so this one merge is legitimate
    s.span_ok = {"column": {"col", "opt:COMMENT"}}
    both11 = lm.custom("X<e>", ["ARRAY<STRING>", "MAP<K>", "array<int>", "Struct<x:INT>"], "TAG")
    both21 = lm.custom("X<a:Y<e>", ["STRUCT<a:ARRAY<INT>", "MAP<K:LIST<V>", "struct<a:array<int>"], "TAG")
    s.edge(n, both11, Tag("col", False, "tag"), O)
    s.edge(n, both21, Tag("col", False, "tag"), st[(1, False)])
    s.edge(n, open1, Tag("col", False, "tag"), st[(1, False)])
    if D >= 2:
        s.edge(n, open2, Tag("col", False, "tag"), st[(2, False)])
    for d in range(1, D + 1):
        here, com = st[(d, False)], st[(d, True)]
        s.edge(here, P[","], Tag("col", False, "tagc"), com)
        for src in (here, com):
            s.edge(src, elem, Tag("col", False, "tag"), here)
            s.edge(src, m11, Tag("col", False, "tag"), here)
            s.edge(src, m12, Tag("col", False, "tag"), tgt(d - 1))
            s.edge(src, close1, Tag("col", False, "tag"), tgt(d - 1))
            if d >= 2:
                s.edge(src, close2, Tag("col", False, "tag"), tgt(d - 2))
            if d + 1 <= D:
                s.edge(src, open1, Tag("col", False, "tag"), st[(d + 1, False)])
            if d + 2 <= D:
                s.edge(src, open2, Tag("col", False, "tag"), st[(d + 2, False)])
        s.edge(here, gt1, Tag("col", False, "tag"), tgt(d - 1))
        if d >= 2:
            s.edge(here, gt2, Tag("col", False, "tag"), tgt(d - 2))
    # ---- options after the type
    for k, ws in {"opt:NOTNULL": [("KW", "NOT"), ("KW", "NULL")], "opt:DEF_NUM": [("KW", "DEFAULT"), (N["NUM"], "value")],
                  "opt:COMMENT": [("KW", "COMMENT"), (strs, "value")]}.items():
        e = s.words(O, k, ws)
        s.eps(e, O)
    # ---- , z int )
    e = s.words(O, "sep", [P[","]])
    e = s.words(e, "col", [(cz, "name"), (typ, "tw1")])
    end = s.words(e, "end", [P[")"]])
    s.acc.add(end)
    base = T.make_oracle(s)
    kinds = dict(base.kinds)

    def col(roles, old, words=None):
        raise NotImplementedError
    kinds["opt:COMMENT"] = lambda roles, old: {**old, "comment": roles["value"]}
    kinds["opt:CHECK"] = lambda roles, old: {**old, "check": T.InOrder([roles["c1"], roles["op"], roles["c2"]])}
    oracle = TypesOracle(s, kinds, base.level, ignore_keys=base.ignore_by_lhs, normalize=T.normalize)
    return s, oracle


class TypesOracle(DeltaOracle):
    """the `col` expectation needs the ordered word list of the segment (not just roles)"""

    def __call__(self, ex, red):
        self._red = red
        return super().__call__(ex, red)

    def __init__(self, spec, kinds, level, **kw):
        super().__init__(spec, kinds, level, **kw)
        self.kinds["col"] = self.col

    def col(self, roles, old):
        # words of this column segment, in order
        words = []
        for e in self._red.rhs:
            if hasattr(e.summ, "words"):
                for (w, t, val) in e.summ.words:
                    if t.kind == "col":
                        words.append((t.role, val))
        # the segment instance being folded is the last run of col words beginning with a name
        idx = max(i for i, (r, v) in enumerate(words) if r == "name")
        words = words[idx:]
        roles = dict(words)
        size = None
        if "sizestar" in roles:
            size = ("*", to_int(roles["size2"]))
        elif "size2" in roles:
            size = (to_int(roles["size1"]), to_int(roles["size2"]))
        elif "sizeunit" in roles:
            size = lift(lambda a, b: f"{a} {b}", roles["size1"], roles["sizeunit"])
        elif "size1" in roles:
            size = to_int(roles["size1"])
        elif "sizeword" in roles:
            size = roles["sizeword"]
        tags = [v for r, v in words if r == "tag"]
        if tags:
            typ = TypeText(tags)
        elif "tq1" in roles:
            typ = lift(lambda a, b: f"{a}.{b}", roles["tq1"], roles["tq2"])
        elif "tw2" in roles:
            typ = lift(lambda a, b: f"{a} {b}", roles["tw1"], roles["tw2"])
        else:
            typ = roles["tw1"]
        if "sfx_arr" in roles:
            typ = lift(lambda a, b: f"{a}{b}", typ, roles["sfx_arr"])
        if "sfx_word" in roles:
            typ = lift(lambda a, b: f"{a} {b}", typ, roles["sfx_word"])
        out = {"name": roles["name"], "type": typ, "size": size, "references": None, "unique": False,
               "primary_key": False, "nullable": True, "default": None, "check": None}
        if "ident" in roles:
            out["size"] = None
            out["identity"] = size
        return out
