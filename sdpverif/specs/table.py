"""Fragments *core-column* (C01) and *constraints* (C02): CREATE TABLE with columns in the core syntax and
table-level key / unique / check / foreign-key declarations, any number and order.

Expectations are written from the property statements in terms of the keys of the parse result:
a column is {name, type, size, nullable, default, unique, primary_key, references, check}; a table-level
declaration adds exactly its own entry and touches nothing else.
"""
import copy

from ..deriv import Spec, Tag
from ..pyabs import W, deep_eq, lift
from .common import punct, numbers, to_int, DeltaOracle, Matcher


def name_classes(lm):
    return {
        "a": lm.plain("a", ["c", "id", "Col", "a_1", "user_name", "ZipCode2"]),
        "b": lm.plain("b", ["d", "uid", "Cal", "b_2", "order_total", "ZapCode3"]),
        "dq": lm.custom('"q"', ['"c"', '"Id"', '"my col"', '"a-1"'], "DQ"),
        "bt": lm.custom("`q`", ["`c`", "`Id`", "`my_col`", "`a-1`"], "BT"),
        "br": lm.custom("[q]", ["[c]", "[Id]", "[my_col]", "[a-1]"], "BR"),
    }


def build(ctx, tier="quick", constraints=True, set_null=True, normalize_names=False, all_name_styles=False, style=None, final=None, final_modes=None):
    """style: None | 'plain' | 'dq' | 'bt' | 'br' - every identifier position of the statement written in that one style
    (all_name_styles explores the full product of styles over the positions instead)"""
    lm = ctx.lexer
    s = Spec("table" if constraints else "core-column", lm, accumulators={"expr", "defcolumn", "table_name"})
    P, N, NM = punct(lm), numbers(lm), name_classes(lm)
    _plain_edge = s.edge

    def styled(cls):
        """the class plus, when all_name_styles, its double-quoted / back-ticked / bracketed variants"""
        if cls.kind != "PLAIN" or not (all_name_styles or style):
            return [cls]
        ex = list(cls.exemplars)
        if style and not all_name_styles:
            i = {"plain": 0, "dq": 1, "bt": 2, "br": 3}[style]
            return [[cls,
                     lm.custom(f'"{cls.name}"', [f'"{e}"' for e in ex[:3]] + [f'"{ex[0]} x"', f'"{ex[1]}.v2"'], "DQ"),
                     lm.custom(f"`{cls.name}`", [f"`{e}`" for e in ex[:4]], "BT"),
                     lm.custom(f"[{cls.name}]", [f"[{e}]" for e in ex[:4]], "BR")][i]]
        return [cls,
                lm.custom(f'"{cls.name}"', [f'"{e}"' for e in ex[:3]] + [f'"{ex[0]} x"', f'"{ex[1]}.v2"'], "DQ"),
                lm.custom(f"`{cls.name}`", [f"`{e}`" for e in ex[:4]], "BT"),
                lm.custom(f"[{cls.name}]", [f"[{e}]" for e in ex[:4]], "BR")]

    def name_edge(a, wc, tag, b=None):
        """edge for an identifier position: every quoting style leads to the same spec state"""
        b = b or s.new()
        for c in styled(wc):
            s.e[a].append((c, tag, b))
        return b
    def plain(label, ex):
        # with normalize_names the action asks len(name) > 2: short names form a class of their own
        if normalize_names:
            return lm.plain(label + ">2", [e for e in ex if len(e) > 2])
        return lm.plain(label, ex)
    if normalize_names:
        N = dict(N)
        N["NUM"] = lm.custom("<n>>2", ["100", "2500", "300"], "NUM")
        NM["a"] = plain("a", NM["a"].exemplars)
        NM["b"] = plain("b", NM["b"].exemplars)
        NM["short"] = lm.plain("short", ["c", "id", "d", "x1", "Ab", "q"])
    tname = plain("t", ["t", "tb", "Users", "t_1", "order_items", "Tbl2"])
    sname = plain("schema", ["s", "db", "My_Schema", "x_1", "analytics", "Zq9"])
    typ = plain("type", ["int", "varchar", "DECIMAL", "Text", "bigint", "num_9"])
    other_t = plain("o", ["o", "ot", "Other", "o_1", "ref_table", "Oth2"])
    other_c = plain("oc", ["x", "oid", "Kee", "k_1", "other_id", "Kc2"])
    word = plain("w", ["v", "ab", "Now", "w_1", "current_x", "Val2"])
    strs = lm.custom("'s'", ["'a'", "'Hello'", "'x y'", "'it_s'", "'1'"], "STR")
    act = plain("action", ["CASCADE", "cascade", "RESTRICT", "Restrict"])
    cname = plain("cn", ["pk", "uq_1", "Fk_Name", "ck", "constraint_x", "Cn2"])

    # ---- head
    a = s.words(s.start, "head", [("KW", "CREATE"), ("KW", "TABLE")])
    a2 = s.words(a, "head", [("KW", "IF", "ine"), ("KW", "NOT"), ("KW", "EXISTS")], begin=False)
    heads = []
    for st in (a, a2):
        heads.append(name_edge(st, tname, Tag("head", False, "name")))
        d0 = name_edge(st, sname, Tag("head", False, "schema"))
        d = s.edge(d0, P["."], Tag("head", False))
        heads.append(name_edge(d, tname, Tag("head", False, "name")))
        if constraints is False:
            # db..table: the two dots are one DOT token; the statement must not make an action raise
            s.e[d0].append((P[".."], Tag("head", False, "dots"), d))
    lp = s.new()
    for h in heads:
        s.edge(h, P["("], Tag("lp", True), lp)
    # ---- a column
    colstart = lp
    O = s.new()            # option loop
    names = [NM["a"], NM["b"]] + ([NM["dq"], NM["bt"], NM["br"]] if (tier == "thorough" or all_name_styles) else [NM["dq"]])
    if style and not all_name_styles:
        names = {"plain": [NM["a"], NM["b"]], "dq": [NM["dq"], NM["a"]], "bt": [NM["bt"], NM["a"]], "br": [NM["br"], NM["a"]]}[style]
    if normalize_names:
        names.append(NM["short"])
    if final and "keys" in final:
        # a second spelling of the same names (other case, quoted): a different column as far as the declarations go
        names.append(lm.custom('"A"', [f'"{e.upper()}"' for e in NM["a"].exemplars], "DQ"))
    for nm in names:
        n1 = s.edge(colstart, nm, Tag("col", True, "name"))
        t1 = s.edge(n1, typ, Tag("col", False, "type"))
        s.eps(t1, O)
        z = s.edge(t1, P["("], Tag("col", False))
        z1 = s.edge(z, N["NUM"], Tag("col", False, "size1"))
        s.edge(z1, P[")"], Tag("col", False), O)
        z2 = s.edge(z1, P[","], Tag("col", False))
        z2 = s.edge(z2, N["NUM"], Tag("col", False, "size2"))
        s.edge(z2, P[")"], Tag("col", False), O)
    opts = {
        "opt:NULL": [("KW", "NULL")],
        "opt:NOTNULL": [("KW", "NOT"), ("KW", "NULL")],
        "opt:DEF_NUM": [("KW", "DEFAULT"), (N["NUM"], "value")],
        "opt:DEF_STR": [("KW", "DEFAULT"), (strs, "value")],
        "opt:DEF_NULL": [("KW", "DEFAULT"), ("KW", "NULL")],
        "opt:DEF_WORD": [("KW", "DEFAULT"), (word, "value")],
        "opt:DEF_CALL": [("KW", "DEFAULT"), (word, "value"), P["("], P[")"]],
        "opt:PK": [("KW", "PRIMARY"), ("KW", "KEY")],
        "opt:UNIQUE": [("KW", "UNIQUE")],
        # a parenthesised default
        "opt:DEF_PNULL": [("KW", "DEFAULT"), P["("], ("KW", "NULL"), P[")"]],
        "opt:DEF_PNUM": [("KW", "DEFAULT"), P["("], (N["NUM"], "value"), P[")"]],
    }
    if constraints:
        # an inline constraint name: <col> type CONSTRAINT n UNIQUE | PRIMARY KEY | NOT NULL | REFERENCES ... - the name is an option of
        # its own (the grammar folds it before the option it names), the option that follows is the ordinary one
        opts["opt:CNAME"] = [("KW", "CONSTRAINT"), (cname, "cname")]
    for k, ws in opts.items():
        e = s.words(O, k, ws)
        s.eps(e, O)

    def ref_tail(start, kind):
        """REFERENCES [s.]o [(c)] then any sequence of ON DELETE a / ON UPDATE a"""
        r0 = s.words(start, kind, [("KW", "REFERENCES")], begin=False)
        R = s.new()
        e1 = name_edge(r0, other_t, Tag(kind, False, "ref_table"))
        d = name_edge(r0, sname, Tag(kind, False, "ref_schema"))
        d = s.edge(d, P["."], Tag(kind, False))
        e2 = name_edge(d, other_t, Tag(kind, False, "ref_table"))
        for e in (e1, e2):
            s.eps(e, R)
            c = s.edge(e, P["("], Tag(kind, False))
            c = name_edge(c, other_c, Tag(kind, False, "ref_col"))
            s.edge(c, P[")"], Tag(kind, False), R)
        for evt, role in (("DELETE", "on_delete"), ("UPDATE", "on_update")):
            x = s.words(R, kind, [("KW", "ON"), ("KW", evt)], begin=False)
            s.edge(x, act, Tag(kind, False, role), R)
            if set_null:
                y = s.words(x, kind, [("KW", "SET", role + "_set"), ("KW", "NULL")], begin=False)
                s.eps(y, R)
        return R

    # inline REFERENCES: the segment begins at REFERENCES
    rb = s.new()
    s.e[O].append((lm.kw("REFERENCES", "upper"), Tag("opt:REF", True), rb))
    s.e[O].append((lm.kw("REFERENCES", "other"), Tag("opt:REF", True), rb))
    R = s.new()
    e1 = name_edge(rb, other_t, Tag("opt:REF", False, "ref_table"))
    d = name_edge(rb, sname, Tag("opt:REF", False, "ref_schema"))
    d = s.edge(d, P["."], Tag("opt:REF", False))
    e2 = name_edge(d, other_t, Tag("opt:REF", False, "ref_table"))
    for e in (e1, e2):
        s.eps(e, R)
        c = s.edge(e, P["("], Tag("opt:REF", False))
        c = name_edge(c, other_c, Tag("opt:REF", False, "ref_col"))
        s.edge(c, P[")"], Tag("opt:REF", False), R)
    for evt, role in (("DELETE", "on_delete"), ("UPDATE", "on_update")):
        x = s.words(R, "opt:REF", [("KW", "ON"), ("KW", evt)], begin=False)
        s.edge(x, act, Tag("opt:REF", False, role), R)
        if set_null:
            y = s.words(x, "opt:REF", [("KW", "SET", role + "_set"), ("KW", "NULL")], begin=False)
            s.eps(y, R)
    s.eps(R, O)
    # ---- separators / end
    sep = s.new()
    s.edge(O, P[","], Tag("sep", True), sep)
    s.eps(sep, colstart)
    end = s.new()
    s.edge(O, P[")"], Tag("end", True), end)
    s.acc.add(end)
    # ---- table-level declarations
    if constraints:
        D = s.new()

        # column names that are ordinary (non-reserved) SQL words: they are names here, never ordering / option words
        sqlish = lm.custom("sqlword", ["first", "last", "nulls", "Value", "LEVEL", "role"], "PLAIN")

        def cols(start, kind, role_prefix, k):
            """( n1 [, n2] )"""
            x = s.edge(start, P["("], Tag(kind, False))
            x0 = x
            x = s.edge(x, NM["a"], Tag(kind, False, role_prefix + "1"))
            if kind in ("decl:PK", "decl:CPK", "decl:UQ") and not normalize_names:
                s.e[x0].append((sqlish, Tag(kind, False, role_prefix + "1"), x))
            if kind in ("decl:UQ", "decl:CUQ") and not normalize_names:
                # in a UNIQUE list there is no ordering: a column may be called asc / desc
                s.e[x0].append((lm.custom("ordword", ["desc", "asc", "Desc", "ASC", "DESC", "Asc"], "PLAIN"), Tag(kind, False, role_prefix + "1"), x))
            if k == 2:
                if kind in ("decl:PK", "decl:CPK") and not normalize_names:
                    # a sort direction after the first key column: not a column of the key
                    direction = lm.custom("ASC|DESC", ["DESC", "ASC", "desc", "asc", "Desc", "Asc"], "WORD")
                    xd = s.edge(x, direction, Tag(kind, False, "dir1"))
                    s.eps(xd, x)
                x = s.edge(x, P[","], Tag(kind, False))
                x = s.edge(x, NM["b"], Tag(kind, False, role_prefix + "2"))
                # ... and the same two columns the other way round: a key is reported in the order it is DECLARED
                y = s.edge(x0, NM["b"], Tag(kind, False, role_prefix + "1"))
                y = s.edge(y, P[","], Tag(kind, False))
                s.edge(y, NM["a"], Tag(kind, False, role_prefix + "2"), x)
            return s.edge(x, P[")"], Tag(kind, False))
        for k in (1, 2):
            e = s.words(sep, "decl:PK", [("KW", "PRIMARY"), ("KW", "KEY")])
            s.eps(cols(e, "decl:PK", "col", k), D)
            e = s.words(sep, "decl:UQ", [("KW", "UNIQUE")])
            s.eps(cols(e, "decl:UQ", "col", k), D)
            e = s.words(sep, "decl:CPK", [("KW", "CONSTRAINT"), (cname, "cname"), ("KW", "PRIMARY"), ("KW", "KEY")])
            s.eps(cols(e, "decl:CPK", "col", k), D)
            e = s.words(sep, "decl:CUQ", [("KW", "CONSTRAINT"), (cname, "cname"), ("KW", "UNIQUE")])
            s.eps(cols(e, "decl:CUQ", "col", k), D)
            e = s.words(sep, "decl:FK", [("KW", "FOREIGN"), ("KW", "KEY")])
            e = cols(e, "decl:FK", "col", k)
            s.eps(fk_ref(s, lm, e, "decl:FK", k, P, sname, other_t, other_c, act, set_null, name_edge=name_edge), D)
            e = s.words(sep, "decl:CFK", [("KW", "CONSTRAINT"), (cname, "cname"), ("KW", "FOREIGN"), ("KW", "KEY")])
            e = cols(e, "decl:CFK", "col", k)
            s.eps(fk_ref(s, lm, e, "decl:CFK", k, P, sname, other_t, other_c, act, set_null, name_edge=name_edge), D)
        gt = lm.custom(">", [">", ">=", "<>"], "OP")
        e = s.words(sep, "decl:CHK", [("KW", "CHECK"), P["("], (NM["a"], "c1"), (gt, "op"), (N["NUM"], "c2"), P[")"]])
        s.eps(e, D)
        e = s.words(sep, "decl:CCHK", [("KW", "CONSTRAINT"), (cname, "cname"), ("KW", "CHECK"), P["("], (NM["a"], "c1"), (gt, "op"), (N["NUM"], "c2"), P[")"]])
        s.eps(e, D)
        fn = plain("fn", ["greatest", "coalesce", "LEAST", "Nvl", "my_func", "abs2"])
        cmp_ = lm.custom("cmp", [">=", "<", ">", "<=", "<>"], "OP")
        e = s.words(sep, "decl:CHKF", [("KW", "CHECK"), P["("], (fn, "f"), P["("], (NM["a"], "c1"), P[","], (NM["b"], "c3"), P[")"], (cmp_, "op"),
                                       (N["NUM"], "c2"), P[")"]])
        s.eps(e, D)
        s.edge(D, P[","], Tag("sep", True), sep)
        s.edge(D, P[")"], Tag("end", True), end)
    oracle = make_oracle(s, normalize_names)
    keep_names = bool(final and "keys" in final)
    if keep_names:
        from .final import _name_relations

    def acc_summary(sym, v):
        # what is kept of a collapsed accumulator (the rest of its value is not part of the configuration identity):
        # - of the table: whether two of its columns differ only in quoting / letter case (the declarations that follow are then
        #   explored for such tables as well);
        # - of a column: whether it carries an inline constraint name / a reference (what the table-level fold does with such a
        #   column - and with the ones after it - is then explored, too)
        if sym == "expr" and isinstance(v, dict) and keep_names:
            return bool(_name_relations(v))
        if sym == "defcolumn" and isinstance(v, dict) and constraints:
            return ("constraint" in v, v.get("references") is not None)
        return None
    if keep_names or constraints:
        s.acc_summary = acc_summary
    if final:
        from .final import FinalJudge
        oracle = FinalJudge(ctx, oracle, rules=final, modes=final_modes, label=s.name, max_shapes=(1200 if tier == "thorough" else 400) if tuple(final) == ("keys",) else (160 if tier == "thorough" else 40))
    return s, oracle


def fk_ref(s, lm, start, kind, k, P, sname, other_t, other_c, act, set_null, name_edge=None):
    name_edge = name_edge or (lambda a, wc, tag, b=None: s.edge(a, wc, tag, b))
    r0 = s.words(start, kind, [("KW", "REFERENCES")], begin=False)
    R = s.new()
    e1 = name_edge(r0, other_t, Tag(kind, False, "ref_table"))
    d = name_edge(r0, sname, Tag(kind, False, "ref_schema"))
    d = s.edge(d, P["."], Tag(kind, False))
    e2 = name_edge(d, other_t, Tag(kind, False, "ref_table"))
    oc2 = lm.plain("oc2>2", ["pid", "Kay", "k_2", "another_id", "Kd3"])
    for e in (e1, e2):
        c = s.edge(e, P["("], Tag(kind, False))
        c = name_edge(c, other_c, Tag(kind, False, "ref_col1"))
        if k == 2:
            c = s.edge(c, P[","], Tag(kind, False))
            c = s.edge(c, oc2, Tag(kind, False, "ref_col2"))
        s.edge(c, P[")"], Tag(kind, False), R)
    for evt, role in (("DELETE", "on_delete"), ("UPDATE", "on_update")):
        x = s.words(R, kind, [("KW", "ON"), ("KW", evt)], begin=False)
        s.edge(x, act, Tag(kind, False, role), R)
        if set_null:
            y = s.words(x, kind, [("KW", "SET", role + "_set"), ("KW", "NULL")], begin=False)
            s.eps(y, R)
    return R


# ---------------------------------------------------------------------------
# expectations
# ---------------------------------------------------------------------------

def ref_dict(roles, col_role="ref_col"):
    def act(role):
        if role + "_set" in roles:
            return "SET NULL"
        return roles.get(role)
    return {"table": roles["ref_table"], "schema": roles.get("ref_schema"),
            "on_delete": act("on_delete"), "on_update": act("on_update"), "deferrable_initially": None}


class InOrder(Matcher):
    """one string containing the given words in order"""

    def __init__(self, words):
        self.words = words

    def match(self, actual):
        def one(text, *ws):
            if not isinstance(text, str):
                return False
            pos = 0
            for w in ws:
                i = text.find(str(w), pos)
                if i < 0:
                    return False
                pos = i + len(str(w))
            return True
        return lift(one, actual, *self.words) is True

    def __repr__(self):
        from .common import show
        return f"<text containing {[show(w) for w in self.words]} in order>"


def strip_delims(v):
    """what normalize_names=True is documented to do to an identifier: drop its one pair of outer delimiters"""
    def one(x):
        if isinstance(x, str) and len(x) > 2 and (x[0] + x[-1]) in ('""', "``", "[]"):
            return x[1:-1]
        return x
    return lift(one, v)


class _Stripped(dict):
    pass


def make_oracle(s, normalize_names=False):
    oracle = _make_oracle(s)
    if normalize_names:
        for k, fn in list(oracle.kinds.items()):
            oracle.kinds[k] = (lambda f: (lambda roles, old: f({r: strip_delims(v) for r, v in roles.items()}, old)))(fn)
    return oracle


def _make_oracle(s):
    def head(roles, old):
        d = {"schema": roles.get("schema"), "table_name": roles["name"], "columns": [], "checks": []}
        if "ine" in roles:
            d["if_not_exists"] = True
        return d

    def col(roles, old):
        size = None
        if "size2" in roles:
            size = (to_int(roles["size1"]), to_int(roles["size2"]))
        elif "size1" in roles:
            size = to_int(roles["size1"])
        return {"name": roles["name"], "type": roles["type"], "size": size, "references": None, "unique": False,
                "primary_key": False, "nullable": True, "default": None, "check": None}

    def upd(**kw):
        return lambda roles, old: {**old, **kw}

    def default(fn):
        return lambda roles, old: {**old, "default": fn(roles["value"])}

    def inline_ref(roles, old):
        r = ref_dict(roles)
        r["column"] = roles.get("ref_col")
        return {**old, "references": r}

    def cols_of(roles, prefix="col"):
        return [roles[k] for k in sorted(roles) if k.startswith(prefix) and k[len(prefix):].isdigit()]

    def pk(roles, old):
        return {**old, "primary_key": cols_of(roles)}

    def add_constraint(old, typ, entry):
        new = dict(old)
        cons = copy.deepcopy(old.get("constraints") or {})
        cons.setdefault(typ, []).append(entry)
        new["constraints"] = cons
        return new

    def uq(roles, old):
        cs = cols_of(roles)
        new = dict(old)
        if len(cs) > 1:
            name = lift(lambda *xs: "UC_" + "_".join(xs), *cs)
            return add_constraint(new, "uniques", {"columns": cs, "constraint_name": name})
        columns = copy.deepcopy(old["columns"])
        for c in columns:
            if deep_eq(c["name"], cs[0]):
                c["unique"] = True
        new["columns"] = columns
        return new

    def cpk(roles, old):
        new = add_constraint(old, "primary_keys", {"columns": cols_of(roles), "constraint_name": roles["cname"]})
        new["primary_key"] = cols_of(roles)
        return new

    def cuq(roles, old):
        new = add_constraint(old, "uniques", {"columns": cols_of(roles), "constraint_name": roles["cname"]})
        return new

    def fk(roles, old):
        cs = cols_of(roles)
        rcs = cols_of(roles, "ref_col")
        new = dict(old)
        refs = list(old.get("ref_columns") or [])
        for c, rc in zip(cs, rcs):
            r = ref_dict(roles)
            r["column"] = rc
            r["name"] = c
            refs.append(r)
        new["ref_columns"] = refs
        return new

    def cfk(roles, old):
        cs = cols_of(roles)
        rcs = cols_of(roles, "ref_col")
        r = ref_dict(roles)
        r["columns"] = rcs
        r["name"] = cs[0] if len(cs) == 1 else cs
        r["constraint_name"] = roles["cname"]
        return add_constraint(old, "references", r)

    def chk(roles, old):
        st = lift(lambda a, o, n: f"{a} {o} {n}", roles["c1"], roles["op"], roles["c2"])
        new = dict(old)
        new["checks"] = list(old.get("checks") or []) + [{"constraint_name": None, "statement": st}]
        return new

    def chkf(roles, old):
        from .clauses import Holds
        new = dict(old)
        new["checks"] = list(old.get("checks") or []) + [{"constraint_name": None,
                                                          "statement": InOrder([roles["f"], roles["c1"], roles["c3"], roles["op"], roles["c2"]])}]
        return new

    def cchk(roles, old):
        st = lift(lambda a, o, n: f"{a} {o} {n}", roles["c1"], roles["op"], roles["c2"])
        entry = {"constraint_name": roles["cname"], "statement": st}
        new = add_constraint(old, "checks", copy.deepcopy(entry))
        new["checks"] = list(old.get("checks") or []) + [entry]
        return new

    kinds = {
        "head": head, "lp": lambda r, o: o, "sep": lambda r, o: o, "end": lambda r, o: o,
        "col": col,
        "opt:NULL": upd(nullable=True), "opt:NOTNULL": upd(nullable=False),
        "opt:DEF_NUM": default(to_int), "opt:DEF_STR": default(lambda v: v),
        "opt:DEF_NULL": lambda roles, old: {**old, "default": "NULL"},
        "opt:DEF_WORD": default(lambda v: v),
        "opt:DEF_CALL": default(lambda v: lift(lambda x: x + "()", v)),
        "opt:PK": upd(primary_key=True, nullable=False), "opt:UNIQUE": upd(unique=True),
        "opt:REF": inline_ref,
        "opt:DEF_PNULL": lambda roles, old: {**old, "default": "NULL"},
        "opt:DEF_PNUM": default(to_int),
        "opt:CNAME": lambda roles, old: {**old, "constraint": {"name": roles["cname"]}},
        "decl:PK": pk, "decl:UQ": uq, "decl:CPK": cpk, "decl:CUQ": cuq, "decl:FK": fk, "decl:CFK": cfk,
        "decl:CHK": chk, "decl:CCHK": cchk, "decl:CHKF": chkf,
    }

    def table_plus_column(old, colv):
        new = dict(old)
        new["columns"] = list(old.get("columns") or []) + [colv]
        return new
    level = {
        ("expr", "table_name"): lambda old, tv: tv,
        ("expr", "defcolumn"): table_plus_column,
        ("table_name", "table_name"): lambda old, tv: tv,
    }
    # table-level scratch keys of the parse result that never reach the output (BaseData drops them or
    # declares them exclude_always); everything else on the table dict is compared
    scratch = {"expr": {"unique_statement", "references", "constraint", "check"}}
    return DeltaOracle(s, kinds, level, ignore_keys=scratch, normalize=normalize)


def normalize(lhs, v):
    """The property asks that the referenced column is reported; the parser reports it as `column: c` or, when
    the reference is followed by NULL / NOT NULL, as `columns: [c]` (pinned by the existing tests).  Both spellings
    are accepted."""
    def fix(col):
        r = col.get("references") if isinstance(col, dict) else None
        if isinstance(r, dict) and "columns" in r and "column" not in r and isinstance(r["columns"], list) and len(r["columns"]) == 1:
            r["column"] = r.pop("columns")[0]
    if lhs == "defcolumn":
        fix(v)
    elif lhs == "expr" and isinstance(v, dict):
        for c in v.get("columns") or []:
            fix(c)
    return v
