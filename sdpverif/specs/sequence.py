"""Fragment *sequence* (C17): CREATE SEQUENCE [schema.]name followed by any sequence of the option forms."""
from ..deriv import Spec, Tag
from .common import punct, numbers, to_int, DeltaOracle


def build(ctx, tier="quick"):
    lm = ctx.lexer
    s = Spec("sequence", lm, accumulators={"expr"})
    P = punct(lm)
    N = numbers(lm)
    name = lm.plain("name")
    a = s.words(s.start, "head", [("KW", "CREATE"), ("KW", "SEQUENCE")])
    n1 = s.edge(a, name, Tag("head", False, "name"))
    sch = lm.plain("schema", ["s", "db", "My_Schema", "x_1", "analytics", "Zq9"])
    d = s.edge(a, sch, Tag("head", False, "schema"))
    d = s.edge(d, P["."], Tag("head", False))
    n2 = s.edge(d, name, Tag("head", False, "name"))
    home = s.new()
    s.eps(n1, home)
    s.eps(n2, home)
    # delimited names: the options after a quoted / bracketed / back-ticked name are options all the same
    ex = list(name.exemplars)[:4]
    for styled in (lm.custom('"name"', [f'"{e}"' for e in ex], "DQ"), lm.custom("[name]", [f"[{e}]" for e in ex], "BR"),
                   lm.custom("`name`", [f"`{e}`" for e in ex], "BT")):
        s.edge(a, styled, Tag("head", False, "name"), home)
        s.edge(d, styled, Tag("head", False, "name"), home)
    sx = list(sch.exemplars)[:4]
    d2 = s.edge(a, lm.custom('"schema"', [f'"{e}"' for e in sx], "DQ"), Tag("head", False, "schema"))
    d2 = s.edge(d2, P["."], Tag("head", False))
    s.edge(d2, lm.custom('"name"', [f'"{e}"' for e in ex], "DQ"), Tag("head", False, "name"), home)
    s.acc.add(home)
    nums = [N["NUM"], N["NEG"], N["BIG"], N["NEGBIG"]] if tier == "thorough" else [N["NUM"], N["NEG"], N["BIG"]]
    forms = {
        "increment": [("KW", "INCREMENT")], "increment_by": [("KW", "INCREMENT"), ("KW", "BY")],
        "start": [("KW", "START")], "start_with": [("KW", "START"), ("KW", "WITH")],
        "minvalue": [("KW", "MINVALUE")], "maxvalue": [("KW", "MAXVALUE")], "cache": [("KW", "CACHE")],
    }
    for key, ws in forms.items():
        for num in nums:
            e = s.words(home, "opt:" + key, ws)
            e = s.edge(e, num, Tag("opt:" + key, False, "value"))
            s.eps(e, home)
    for key, ws in {"no_minvalue": [("KW", "NO"), ("KW", "MINVALUE")], "no_maxvalue": [("KW", "NO"), ("KW", "MAXVALUE")],
                    "cache_flag": [("KW", "CACHE")], "order": [("KW", "ORDER")], "noorder": [("KW", "NOORDER")]}.items():
        e = s.words(home, "opt:" + key, ws)
        s.eps(e, home)

    def head(roles, old):
        return {"schema": roles.get("schema"), "sequence_name": roles["name"]}

    def valued(key):
        return lambda roles, old: {**old, key: to_int(roles["value"])}

    def const(key, v):
        return lambda roles, old: {**old, key: v}
    kinds = {"head": head}
    for key in forms:
        kinds["opt:" + key] = valued(key)
    kinds["opt:no_minvalue"] = const("minvalue", False)
    kinds["opt:no_maxvalue"] = const("maxvalue", False)
    kinds["opt:cache_flag"] = const("cache", True)
    kinds["opt:order"] = const("order", True)
    kinds["opt:noorder"] = const("noorder", True)
    return s, SequenceOracle(ctx, s, kinds)


class SequenceOracle(DeltaOracle):
    """O-value at every fold, and at acceptance the final output (objabs): the formatter must hand the sequence entry on
    exactly as parsed - same keys, same values, same TYPES (True is not 1)"""

    def __init__(self, ctx, spec, kinds):
        super().__init__(spec, kinds)
        self.ctx = ctx
        self.finals = []

    def on_accept(self, ex, final, steps):
        if len(self.finals) < 60:
            self.finals.append((final, ex.render([w for (w, t, v) in steps])))

    def finish(self, ex):
        import copy
        from ..objabs import format_output, ShapeMismatch
        from ..pyabs import PyRaise, LexUnknown, NonUniform
        from ..core import AnalysisError
        for final, wit in self.finals:
            try:
                out = format_output(self.ctx, [copy.deepcopy(final)], "sql", False)
            except (PyRaise, ShapeMismatch) as e:
                ex.add("O-final", "sequence: the output layer fails on a parsed sequence", str(e), wit)
                continue
            except (LexUnknown, NonUniform) as e:
                raise AnalysisError(f"sequence fragment: output layer outside the interpreted subset: {e}")
            self.checked += 1
            if not (isinstance(out, list) and len(out) == 1 and _strict_eq(out[0], final)):
                ex.add("O-final", "sequence: the final entry differs from the parsed options (values or their types)",
                       f"parsed {final!r}, reported {out!r}"[:400], wit)


def _strict_eq(a, b):
    from ..pyabs import W
    if isinstance(a, W) or isinstance(b, W):
        return isinstance(a, W) and isinstance(b, W) and len(a.ex) == len(b.ex) and all(_strict_eq(x, y) for x, y in zip(a.ex, b.ex))
    if isinstance(a, dict) and isinstance(b, dict):
        return list(a) == list(b) and all(_strict_eq(a[k], b[k]) for k in a)
    if isinstance(a, (list, tuple)) and isinstance(b, (list, tuple)):
        return len(a) == len(b) and all(_strict_eq(x, y) for x, y in zip(a, b))
    return type(a) is type(b) and a == b
