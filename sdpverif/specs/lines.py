"""Line classes of the line machine (E7) and the per-line layout laws used by C05 / C03.

A line class is a lock-step tuple of exemplar lines written as they look after pre_process_data (commas and parentheses
spaced).  The classes are shared with C08 (props/C08.py imports CODE / ALLOWED from here)."""
import collections
import copy

from ..core import AnalysisError
from ..pyabs import W, NonUniform, PyRaise, Raised, LexUnknown
from ..linemodel import LineMachine, same, REGISTERS


def w(*xs):
    xs = list(xs)
    return W([xs[i % len(xs)] for i in range(6)])


CODE = collections.OrderedDict([
    ("open", w("CREATE TABLE t  ( ", "create table Users  ( ", "CREATE TABLE s.x_1  ( ", "Create Table IF NOT EXISTS o  ( ")),
    ("column,", w("a int , ", "id varchar ( 10 )  , ", "Col DECIMAL ( 10 , 2 )  NOT NULL , ", "    created_at timestamp DEFAULT now ( )  , ")),
    ("column", w("b int", "uid text", "z_9 bigint DEFAULT 1", "    note varchar ( 5 )  NULL")),
    ("close;", w(" ) ;", " )  ;", ") ;", "  ) ;")),
    ("close", w(" ) ", " )", ")", "  ) ")),
    ("clause;", w("TABLESPACE ts ;", "STORED AS parquet ;", "ENGINE = InnoDB ;", "  LOCATION 'x' ;")),
    ("one-line", w("CREATE TABLE u  ( x int )  ;", "create sequence sq start with 1 ;", "CREATE SCHEMA sc ;", "ALTER TABLE t ADD UNIQUE  ( a )  ;")),
    ("one-line-no-semicolon", w("CREATE TABLE v  ( y int ) ", "create table W2  ( k text ) ", "CREATE TABLE s.q  ( z int ) ", "Create Table r  ( c int ) ")),
    ("skipped;", w("USE db ;", "INSERT INTO t VALUES  ( 1 )  ;", "GRANT ALL ON t TO u ;", "delete from t ;")),
    ("skipped-bare", w("GO", "go", "Go", "GO")),
    ("blank", w("", "", "   ", "")),
    ("set;", w("SET hive.x = 1;", "set a = b;", "SET k2=9;", "Set k = 'v';")),
    ("set-to;", w("SET search_path TO public;", "set role to admin;", "SET NAMES utf8;", "Set x y;")),
    ("literal--", w("a varchar DEFAULT 'x--y' , ", "id text COMMENT 'a -- b' , ", "Col char ( 2 )  DEFAULT \"--\" , ", "    c varchar DEFAULT '--' NOT NULL , ")),
    ("literal", w("a varchar DEFAULT 'x y' , ", "id text COMMENT 'the id' , ", "Col char ( 1 )  DEFAULT \"n\" , ", "    c varchar DEFAULT 'p' NOT NULL , ")),
])
# which code lines a well-formed script can continue with, by the shape of the pending statement of the plain script
OUTSIDE = ("open", "one-line", "one-line-no-semicolon", "skipped;", "skipped-bare", "blank", "set;", "set-to;")
ALLOWED = {"none": OUTSIDE, "empty": OUTSIDE,
           "open": ("column,", "column", "literal", "literal--", "close;", "close", "blank"),
           "balanced": ("clause;", ) + OUTSIDE}

# ---- additional classes for the layout laws (C05) ------------------------------------------------------------------
# continuation lines whose first word merely begins like / differs in case from a statement-level word
CONT = collections.OrderedDict([
    ("prefix-words-1", w("created_at timestamp , ", "settings json , ", "dropped boolean , ", "altered_by text , ", "use_flag int , ", "go_live date , ")),
    ("prefix-words-2", w("grants text , ", "inserted_at date , ", "deleted boolean , ", "Creates int , ", "setting_1 int , ", "GOAL int , ")),
    ("paren-first", w(" ( ", "(", "  (  a int , ", " ( x", " ( ", "(")),
    ("comma-first", w(", b int", " , c text", ",d int ,", " , e int", ", f int", " , g int")),
    ("keyword-first", w("PRIMARY KEY  ( a )  , ", "constraint c unique  ( a )  , ", "NOT NULL , ", "DEFAULT 1 , ", "references u  ( b )  , ", "CHECK  ( a > 0 ) ")),
    ("equals", w("ENGINE=InnoDB", "a int DEFAULT=1 , ", "WITH  ( k=v ) ", "x=y", "ROW_FORMAT=DYNAMIC", "p = q")),
])
FINAL = collections.OrderedDict([
    ("close;", CODE["close;"]),
    ("clause;", CODE["clause;"]),
    ("column;", w("b int ) ;", "uid text )  ;", "z int )  ENGINE = x ;", "k text ) ;")),
])
PADS = [("   ", ""), ("", "   "), ("      ", "  "), (" ", " ")]


def stmt_class(v):
    if v is None:
        return "none"
    ex = v.ex if isinstance(v, W) else (v,)
    kinds = {("balanced" if x.count("(") == x.count(")") else "open") if x else "empty" for x in ex}
    if len(kinds) != 1:
        raise AnalysisError(f"statement register not uniform over the exemplars: {kinds}")
    return kinds.pop()


def _words(v):
    if v is None:
        return None
    return tuple(min(len(x.split()), 4) for x in (v.ex if isinstance(v, W) else (v,)))


def ident1(s):
    return (stmt_class(s["statement"]), _words(s["set_line"]), s["set_was_in_line"], s["multi_line_comment"], min(len(s["block_comments"]), 2))


def ws(v):
    """whitespace-normalised text(s)"""
    if isinstance(v, W):
        return W([" ".join(x.split()) if isinstance(x, str) else x for x in v.ex])
    if isinstance(v, str):
        return " ".join(v.split())
    if isinstance(v, list):
        return [ws(x) for x in v]
    return v


def nb(v):
    """text(s) with every blank removed"""
    if isinstance(v, W):
        return W(["".join(x.split()) if isinstance(x, str) else x for x in v.ex])
    return "".join(v.split()) if isinstance(v, str) else v


def cat(a, b):
    """a + ' ' + b on lock-step texts (a may be None)"""
    if a is None:
        return b
    if isinstance(a, W) or isinstance(b, W):
        ax = a.ex if isinstance(a, W) else (a,) * 6
        bx = b.ex if isinstance(b, W) else (b,) * 6
        return W([x + " " + y for x, y in zip(ax, bx)])
    return a + " " + b


def chop(v):
    return W([x[:-1] for x in v.ex]) if isinstance(v, W) else v[:-1]


def strip(v):
    return W([x.strip() for x in v.ex]) if isinstance(v, W) else v.strip()


def pad(v, pre, post):
    return W([pre + x + post for x in v.ex]) if isinstance(v, W) else pre + v + post


def reachable_states(lm, max_states=400):
    """states of the line machine reachable by well-formed scripts without comments (one representative per identity)"""
    s0 = lm.initial()
    seen = {ident1(s0): (s0, [])}
    queue = collections.deque([(s0, [])])
    while queue:
        s, path = queue.popleft()
        for cname in ALLOWED[stmt_class(s["statement"])]:
            try:
                parsed, nxt = lm.step(s, CODE[cname], True)
            except (PyRaise, Raised):
                continue
            idn = ident1(nxt)
            if idn not in seen:
                if len(seen) >= max_states:
                    raise AnalysisError("line machine: more than %d states" % max_states)
                seen[idn] = (nxt, path + [cname])
                queue.append((nxt, path + [cname]))
    return list(seen.values())


def check_layout_laws(ck, ctx, rule="O-line"):
    """The per-line laws from which layout invariance of the line machine follows by induction over the lines of a statement:
    a continuation line is appended verbatim (one blank between), a line ending with ';' hands over the assembled text without
    the ';' and clears the register, a blank line does nothing, leading / trailing blanks of a line do not matter."""
    lm = LineMachine(ctx)
    states = reachable_states(lm)
    n = 0
    BLANK = W([""] * 6)

    def flush(st):
        if st["set_line"] is None:
            return st
        parsed, nxt = lm.step(st, BLANK, True)
        return nxt if not parsed else st

    def regs_same(a, b, regs):
        return all(same(ws(a[r]) if r in ("statement", "set_line") else a[r], ws(b[r]) if r in ("statement", "set_line") else b[r]) for r in regs)

    others = ("set_line", "set_was_in_line", "tables", "multi_line_comment")
    for s, path in states:
        shape = stmt_class(s["statement"])
        where = "after " + (" / ".join(path[-4:]) if path else "the start of the script")
        pending = s["statement"] if shape not in ("none", "empty") else None
        # -- continuation lines
        if shape in ("open", "balanced"):
            conts = [(k, CODE[k]) for k in ("column,", "column", "literal")] + list(CONT.items())
            for cname, line in conts:
                n += 1
                key = f"continuation line `{cname}` in a pending statement ({shape})"
                try:
                    parsed, nxt = lm.step(s, line, True)
                    f0, f1 = flush(s), flush(nxt)
                    norm = nb if cname == "equals" else ws      # `=` glued to a word is spaced by the line pre-processor
                    ok = (not parsed) and same(norm(nxt["statement"]), norm(cat(pending, strip(line)))) and regs_same(f0, f1, others)
                    detail = f"statement becomes {_s(nxt['statement'])!r}, handed {_s(parsed)!r}"
                except (PyRaise, Raised) as e:
                    ok, detail = False, f"raises {e}"
                except NonUniform as e:
                    ok, detail = False, f"the exemplars of the class are treated differently: {e}"
                ck.ob(rule, key, ok, "must be appended verbatim to the pending statement (one blank between), nothing handed to the grammar; " + detail
                      if not ok else "appended verbatim", "Parser.process_line (evaluated abstractly)", witness=None if ok else f"{where}: {_s(line)!r}")
            # -- last line of the script without ';'
            for cname, line in [("column", CODE["column"]), ("close", CODE["close"])]:
                n += 1
                key = f"last line of the script without ';' (`{cname}`, pending {shape})"
                try:
                    parsed, nxt = lm.step(s, line, False)
                    ok = same(ws(parsed), [ws(cat(pending, strip(line)))])
                    detail = f"handed {_s(parsed)!r}"
                except (PyRaise, Raised) as e:
                    ok, detail = False, f"raises {e}"
                except NonUniform as e:
                    ok, detail = False, f"the exemplars of the class are treated differently: {e}"
                ck.ob(rule, key, ok, "the assembled statement must be handed over whole; " + detail if not ok else "handed over whole",
                      "Parser.process_line (evaluated abstractly)", witness=None if ok else f"{where}: {_s(line)!r}")
        # -- a statement without ';' closed by the first line of the next statement
        if shape == "balanced":
            for cname in ("open", "one-line", "one-line-no-semicolon", "set;"):
                for more in (True, False):
                    n += 1
                    key = f"a statement without ';' followed by the first line of the next one (`{cname}`{'' if more else ', last line'})"
                    try:
                        parsed, nxt = lm.step(s, CODE[cname], more)
                        ok = len(parsed) >= 1 and same(ws(parsed[0]), ws(pending))
                        detail = f"handed {_s(parsed)!r}, pending was {_s(pending)!r}"
                    except (PyRaise, Raised) as e:
                        ok, detail = False, f"raises {e}"
                    except NonUniform as e:
                        ok, detail = False, f"the exemplars of the class are treated differently: {e}"
                    ck.ob(rule, key, ok, "the pending statement must be handed over whole (it has no ';' to remove)" + ("" if ok else "; " + detail),
                          "Parser.process_line (evaluated abstractly)", witness=None if ok else f"{where}: {_s(CODE[cname])!r}")
        # -- final lines
        if shape in ("open", "balanced"):
            for cname, line in FINAL.items():
                for more in (True, False):
                    n += 1
                    key = f"line ending with ';' (`{cname}`, pending {shape}{'' if more else ', last line'})"
                    try:
                        parsed, nxt = lm.step(s, line, more)
                        ok = same(ws(parsed), [ws(chop(cat(pending, strip(line))))]) and nxt["statement"] is None and \
                            regs_same(flush(s), flush(nxt), others)
                        detail = f"handed {_s(parsed)!r}, statement register {_s(nxt['statement'])!r}"
                    except (PyRaise, Raised) as e:
                        ok, detail = False, f"raises {e}"
                    except NonUniform as e:
                        ok, detail = False, f"the exemplars of the class are treated differently: {e}"
                    ck.ob(rule, key, ok, "the assembled statement without the ';' must be handed over and the register cleared; " + detail
                          if not ok else "handed over without ';'", "Parser.process_line (evaluated abstractly)",
                          witness=None if ok else f"{where}: {_s(line)!r}")
        # -- blank line
        n += 1
        try:
            parsed, nxt = lm.step(s, BLANK, True)
            ok = (not parsed) and regs_same(flush(s), flush(nxt), ("statement",) + others)
            detail = f"handed {_s(parsed)!r}, statement {_s(nxt['statement'])!r}"
        except (PyRaise, Raised) as e:
            ok, detail = False, f"raises {e}"
        ck.ob(rule, f"blank line ({_sid(s)})", ok, "a blank line changes nothing; " + detail if not ok else "changes nothing",
              "Parser.process_line (evaluated abstractly)", witness=None if ok else where)
        # -- leading / trailing blanks
        for cname in ALLOWED[shape]:
            line = CODE[cname]
            for pre, post in PADS:
                n += 1
                try:
                    a = lm.step(s, line, True)
                    b = lm.step(s, pad(line, pre, post), True)
                    ok = same(ws(a[0]), ws(b[0])) and regs_same(a[1], b[1], ("statement",) + others)
                    detail = f"unpadded: handed {_s(a[0])!r} / statement {_s(a[1]['statement'])!r}; padded: {_s(b[0])!r} / {_s(b[1]['statement'])!r}"
                except (PyRaise, Raised) as e:
                    ok, detail = False, f"raises {e}"
                except NonUniform as e:
                    ok, detail = False, f"the exemplars of the class are treated differently: {e}"
                if not ok:
                    ck.ob(rule, f"leading / trailing blanks of a `{cname}` line ({_sid(s)})", False,
                          "indentation and trailing blanks of a line must not matter; " + detail, "Parser.process_line (evaluated abstractly)",
                          witness=f"{where}: {pre!r} + {_s(line)!r} + {post!r}")
    ck.ob(rule, f"indentation / trailing blanks: all classes in all {len(states)} reachable states", True, "no difference",
          "Parser.process_line (evaluated abstractly)")
    ck.count("line_machine_states", len(states))
    ck.count("line_law_instances", n)
    return lm


def _s(v):
    from ..deriv import _short
    return _short(v)


def _sid(s):
    i = ident1(s)
    return f"pending statement {i[0]}" + (", SET pending" if i[1] else "") + (", in block comment" if i[3] else "")


# ---- line formation (everything parse_data does before the line loop) ----------------------------------------------
SCRIPTS = collections.OrderedDict([
    ("table", ["CREATE TABLE t (\n  a int,\n  b varchar(10) NOT NULL,\n  c decimal(10,2) DEFAULT 1\n);\n",
               "create table s.Users (\n  id bigint,\n  name text(5) NULL,\n  d numeric(4,1) DEFAULT 0\n);\n",
               "CREATE TABLE IF NOT EXISTS x_1 (\n  k int,\n  v char(1) NOT NULL,\n  w float(3,2) DEFAULT 2\n);\n"]),
    ("two statements", ["CREATE TABLE t (a int);\nALTER TABLE t ADD UNIQUE (a);\nCREATE SEQUENCE sq START WITH 1;\n",
                        "create table u (b text);\nalter table u add primary key (b);\ncreate sequence s2 increment by 2;\n",
                        "CREATE TABLE s.v (c int);\nALTER TABLE s.v ADD CHECK (c > 0);\nCREATE SEQUENCE s.q MINVALUE 1;\n"]),
    ("words ending in r or a backslash at line ends", ["CREATE TABLE customer\n(\n  owner varchar,\n  nr integer\n);\nCREATE SEQUENCE order_number\nSTART WITH 1;\n",
                                                       "create table user\n(\n  editor char,\n  r number\n);\ncreate sequence ctr\nstart with 2;\n",
                                                       "CREATE TABLE s.Supplier\n(\n  Year varchar,\n  other float\n);\nCREATE SEQUENCE s.Nr\nSTART WITH 3;\n"]),
    ("literals first on their lines", ["CREATE TYPE m AS ENUM (\n  'sad',\n  'ok'\n);\nCREATE TABLE t (\n  a int COMMENT\n  'x',\n  b varchar DEFAULT\n  'y'\n);\n",
                                       "create type s.Mood as enum (\n  'a b',\n  'c'\n);\ncreate table u (\n  k int comment\n  'the key',\n  v text default\n  'none'\n);\n",
                                       "CREATE TYPE T1 AS ENUM (\n  'X',\n  'Y'\n);\nCREATE TABLE w (\n  z int COMMENT\n  'Z',\n  q char DEFAULT\n  'q'\n);\n"]),
    ("literals", ["CREATE TABLE t (\n  a varchar DEFAULT 'x, y',\n  b text COMMENT 'the (b)'\n);\n",
                  "create table u (\n  c varchar DEFAULT 'p , q',\n  d text COMMENT 'id (of) user'\n);\n",
                  "CREATE TABLE s.v (\n  e char DEFAULT ',',\n  f text COMMENT '()'\n);\n"]),
])


SCRIPTS_THOROUGH = collections.OrderedDict([
    ("table with clauses", ["CREATE TABLE t (\n  a int,\n  b text\n)\nPARTITIONED BY (c int)\nSTORED AS parquet\nLOCATION 's3://x/y';\n",
                            "create table s.u (\n  id bigint,\n  n varchar(3)\n)\npartitioned by (d date)\nstored as orc\nlocation '/a/b';\n",
                            "CREATE EXTERNAL TABLE e (\n  k int,\n  v char(1)\n)\nPARTITIONED BY (p string)\nSTORED AS textfile\nLOCATION 'hdfs://h/p';\n"]),
    ("alter and index", ["CREATE TABLE t (a int, b int);\nALTER TABLE t\n  ADD CONSTRAINT fk FOREIGN KEY (a)\n  REFERENCES o (x);\nCREATE UNIQUE INDEX ix\n  ON t (a, b);\n",
                         "create table u (c int, d int);\nalter table u\n  add constraint f2 foreign key (c)\n  references p (y);\ncreate index i2\n  on u (c, d);\n",
                         "CREATE TABLE s.v (e int, f int);\nALTER TABLE s.v\n  ADD CONSTRAINT f3 FOREIGN KEY (e)\n  REFERENCES q (z);\nCREATE INDEX i3\n  ON s.v (e, f);\n"]),
    ("sequence over lines", ["CREATE SEQUENCE sq\n  START WITH 1\n  INCREMENT BY 2\n  MINVALUE 1\n  NO CYCLE;\n",
                             "create sequence s.q2\n  start with 10\n  increment by 5\n  minvalue 0\n  no cycle;\n",
                             "CREATE SEQUENCE Sq_3\n  START WITH 100\n  INCREMENT BY 1\n  MINVALUE 7\n  NO CYCLE;\n"]),
])


def check_line_formation(ck, ctx, lm, rule="O-form"):
    """the lines handed to the line machine do not depend on CRLF versus LF, on tabs versus blanks, on the amount of blanks, or on
    whether commas / parentheses are glued to their neighbours (compared line by line as the scanner cuts them into lexemes)"""
    n = 0

    from .seam import lexemes

    def lx(v):
        """the lexemes of a text (per exemplar): what the scanner makes of it - blanks and glued punctuation do not matter"""
        if isinstance(v, W):
            out = [" ".join(lexemes(ctx.lexer, x)) if isinstance(x, str) else x for x in v.ex]
            return out[0] if all(o == out[0] for o in out[1:]) else W(out)
        if isinstance(v, str):
            return " ".join(lexemes(ctx.lexer, v))
        if isinstance(v, list):
            return [lx(x) for x in v]
        return v

    def lines_of(texts):
        lines, regs = lm.form_lines(W([texts[i % len(texts)] for i in range(6)]))
        return [lx(x) for x in lines]

    def drop_blank(ls):
        out = []
        for x in ls:
            ex = x.ex if isinstance(x, W) else (x,)
            if all(e == "" for e in ex):
                continue
            out.append(x)
        return out

    variants = [
        ("CRLF line ends", lambda t: t.replace("\n", "\r\n")),
        ("tabs for indentation", lambda t: t.replace("\n  ", "\n\t")),
        ("tabs between words", lambda t: _outside_quotes(t, lambda c: c.replace(" int", "\tint").replace(" text", "\ttext"))),
        ("more blanks between words", lambda t: _outside_quotes(t, lambda c: c.replace(" ", "   "))),
        ("blanks around commas and parentheses", lambda t: _outside_quotes(t, lambda c: c.replace(",", " , ").replace("(", " ( ").replace(")", " ) "))),
        ("trailing blanks on every line", lambda t: t.replace("\n", "   \n")),
        ("blank lines between the lines", lambda t: t.replace("\n", "\n\n")),
        ("CRLF and blank lines", lambda t: t.replace("\n", "\r\n\r\n")),
        ("no newline at the end", lambda t: t.rstrip("\n")),
        ("no indentation", lambda t: t.replace("\n  ", "\n")),
    ]
    ref_handed = {}
    scripts = collections.OrderedDict(SCRIPTS)
    if ck.tier == "thorough":
        scripts.update(SCRIPTS_THOROUGH)
        variants += [
            ("CRLF and tabs", lambda t: t.replace("\n  ", "\n\t").replace("\n", "\r\n")),
            ("leading blank lines", lambda t: "\n\n" + t),
            ("leading blanks on every line", lambda t: "   " + t.replace("\n", "\n   ")),
            ("blanks before commas and after opening parentheses", lambda t: _outside_quotes(t, lambda c: c.replace(",", " ,").replace("(", "( "))),
            ("a tab after every comma", lambda t: _outside_quotes(t, lambda c: c.replace(",", ",\t"))),
            ("three blank lines between lines", lambda t: t.replace("\n", "\n\n\n\n")),
        ]
    for sname, texts in scripts.items():
        try:
            ref = drop_blank(lines_of(texts))
        except (PyRaise, Raised, NonUniform, LexUnknown) as e:
            raise AnalysisError(f"line formation of the reference script `{sname}` cannot be evaluated: {e}")
        h0 = lm.run_script(W([texts[i % len(texts)] for i in range(6)]))
        ref_handed[sname] = (lx(list(h0[0])), h0[1])
        for vname, fn in variants:
            n += 1
            try:
                got = drop_blank(lines_of([fn(t) for t in texts]))
                ok = same(got, ref)
                detail = "" if ok else f"lines {_s(got)!r} instead of {_s(ref)!r}"
                if ok:
                    # and the whole of parse_data (its own line loop included): the same statements reach the grammar
                    h = lm.run_script(W([fn(texts[i % len(texts)]) for i in range(6)]))
                    ok = same(lx(list(h[0])), ref_handed[sname][0]) and same(h[1], ref_handed[sname][1])
                    detail = "" if ok else f"statements {_s(h[0])!r} / result {_s(h[1])!r} instead of {_s(ref_handed[sname][0])!r} / {_s(ref_handed[sname][1])!r}"
            except (PyRaise, Raised) as e:
                ok, detail = False, f"raises {e}"
            except NonUniform as e:
                ok, detail = False, f"the exemplar scripts are treated differently: {e}"
            ck.ob(rule, f"{vname} ({sname})", ok, "the same lines (blank-normalised) must reach the line machine" + ("; " + detail if detail else ""),
                  "Parser.pre_process_data / parse_data (evaluated abstractly)", witness=None if ok else repr(fn(texts[0]))[:200])
    # a word alone on its line, then a line that starts with a literal (no indentation on either)
    n += 1
    try:
        a = lx(list(lm.run_script("CREATE SCHEMA mood COMMENT 'sad';\n")[0]))
        b = lx(list(lm.run_script("CREATE SCHEMA mood\nCOMMENT\n'sad';\n")[0]))
        ok, detail = same(a, b), f"{b!r} instead of {a!r}"
    except (PyRaise, Raised) as e:
        ok, detail = False, f"raises {e}"
    ck.ob(rule, "a word alone on its line, then a literal", ok, "the same statement must reach the grammar" + ("" if ok else "; " + detail),
          "Parser.parse_data (evaluated abstractly)", witness=None if ok else "CREATE SCHEMA mood\nCOMMENT\n'sad';")
    ck.count("line_formation_instances", n)


def _outside_quotes(text, fn):
    parts = text.split("'")
    for i in range(0, len(parts), 2):
        parts[i] = fn(parts[i])
    return "'".join(parts)


# ---- statement boundaries (C03) -------------------------------------------------------------------------------------
STATEMENTS = collections.OrderedDict([
    # name -> (line classes, does it hand a statement to the grammar)
    ("one-line statement", (["one-line"], True)),
    ("multi-line table", (["open", "column,", "literal", "column", "close;"], True)),
    ("multi-line table with clause", (["open", "column", "close", "clause;"], True)),
    ("skipped statement", (["skipped;"], False)),
    ("GO", (["skipped-bare"], False)),
    ("SET with =", (["set;"], False)),
    ("SET without =", (["set-to;"], False)),
    ("blank line", (["blank"], False)),
    # unsupported statements over several lines: whatever reaches the grammar is text of that statement only, no entity appears
    ("query over three lines", (["unsup-open", "unsup-cont", "unsup-close;"], None)),
    ("skipped statement over two lines", (["skipped-open", "unsup-close;"], None)),
    ("UPDATE with its SET clause on a line of its own", (["update-open", "set;"], None)),
])
UNSUPPORTED = collections.OrderedDict([
    ("unsup-open", w("SELECT a , ", "create view v as", "MERGE INTO t USING s ON  ( a = b ) ", "with q as  ( ")),
    ("unsup-cont", w(" b", "select x , y", "WHEN MATCHED THEN", " select 1 ) ")),
    ("unsup-close;", w("FROM t ;", "from u where z = 1 ;", "UPDATE_ALL ;", "select * from q ;")),
    ("skipped-open", w("INSERT INTO t VALUES  ( 1 , ", "GRANT SELECT", "delete from t", "USE")),
    ("update-open", w("UPDATE t", "update s.u", "Update x_1")),
])


def check_statement_boundaries(ck, ctx, rule="O-split"):
    """a `;`-terminated statement leaves the line machine in the state it found (results aside): every statement of a script
    therefore starts from the same line-machine state, whatever precedes it; it hands over exactly its own lines, once;
    skipped statements, SET lines and blank lines hand nothing over"""
    lm = LineMachine(ctx)
    BLANK = W([""] * 6)

    def flush(st):
        if st["set_line"] is None:
            return st
        parsed, nxt = lm.step(st, BLANK, True)
        return nxt if not parsed else st

    s0 = lm.initial()
    regs = ("statement", "set_line", "set_was_in_line", "multi_line_comment")
    # boundary states: the initial state and the state after each kind of statement (incl. pending SET)
    starts = [("the start of the script", s0)]
    for name, (classes, _h) in STATEMENTS.items():
        st = s0
        for c in classes:
            _p, st = lm.step(st, CODE[c] if c in CODE else UNSUPPORTED[c], True)
        starts.append((f"after a {name}", st))
    n = 0
    tally = collections.OrderedDict()
    for sname, st in starts:
        for name, (classes, hands) in STATEMENTS.items():
            for last in (False, True):
                n += 1
                key = f"{name} {sname}" + (" (ending the script)" if last else "")
                cur, handed, text = st, [], None
                LINES = dict(CODE)
                LINES.update(UNSUPPORTED)
                try:
                    for i, c in enumerate(classes):
                        more = not (last and i == len(classes) - 1)
                        p, cur = lm.step(cur, LINES[c], more)
                        handed += list(p)
                        text = cat(text, strip(LINES[c]))
                    if hands is None:
                        # unsupported: every text handed over is a run of this statement's own words
                        ok, detail = True, ""
                        for h in handed:
                            for i6 in range(6):
                                hw = (h.ex[i6] if isinstance(h, W) else h).split()
                                tw = (text.ex[i6] if isinstance(text, W) else text).replace(";", " ; ").split()
                                hw = " ".join(hw).replace(";", " ; ").split()
                                if not any(tw[k:k + len(hw)] == hw for k in range(len(tw) - len(hw) + 1)):
                                    ok, detail = False, f"handed {_s(h)!r}, which is not a run of words of the statement {_s(text)!r}"
                    else:
                        want = [ws(chop(text))] if hands else []
                        ok = same(ws(handed), want)
                        detail = f"handed {_s(handed)!r}, expected {_s(want)!r}"
                    if ok and not last:
                        a, b = flush(s0), flush(cur)
                        ok = all(same(a[r], b[r]) for r in regs)
                        detail = "registers after the statement: " + ", ".join(f"{r}={_s(b[r])!r}" for r in regs if not same(a[r], b[r]))
                    if ok and last:
                        # what parse_data returns: SET entries only (the grammar call is intercepted), one per SET line so far
                        res = lm.finish(cur)
                        base = lm.finish(flush(st))
                        extra = 1 if name.startswith("SET") else 0
                        ok = isinstance(res, list) and isinstance(base, list) and len(res) == len(base) + extra
                        detail = f"result of the script {_s(res)!r}, before the statement {_s(base)!r}"
                    if ok and not last and hands is None:
                        res, base = lm.finish(flush(cur)), lm.finish(flush(st))
                        ok = isinstance(res, list) and isinstance(base, list) and len(res) == len(base)
                        detail = f"an entity appears although the statement is not supported: {_s(res)!r} (before: {_s(base)!r})"
                except (PyRaise, Raised) as e:
                    ok, detail = False, f"raises {e}"
                except NonUniform as e:
                    ok, detail = False, f"the exemplars are treated differently: {e}"
                tally.setdefault(name, [0, []])
                tally[name][0] += 1
                if not ok:
                    tally[name][1].append((key, detail))
    for name, (cnt, fails) in tally.items():
        ck.ob(rule, name, not fails, "a statement hands over exactly its own text (or nothing, for skipped / SET / blank lines; for an unsupported "
              "statement only runs of its own words), adds no entity it does not declare, and leaves the line machine as at the start of the "
              f"script - from the start of the script and after every kind of statement, also as last statement ({cnt} instances)" +
              ("" if not fails else f"; fails in {len(fails)}: {fails[0][0]}: {fails[0][1]}"), "Parser.process_line (evaluated abstractly)")
    ck.count("statement_boundary_instances", n)


# ---- string literals through the line pre-processing (C07) ---------------------------------------------------------
LITERALS = collections.OrderedDict([
    ("plain word", ["'abc'", "'X1'", "'k_2'"]),
    ("mixed case word", ["'MiXed'", "'aBc'", "'Null'"]),
    ("blank inside", ["'a b'", "'x  y'", "'the id'"]),
    ("leading / trailing blank", ["' a'", "'b '", "' c '"]),
    ("comma", ["'a,b'", "'1,2,3'", "','"]),
    ("comma and blank", ["'a, b'", "'x , y'", "'p,  q'"]),
    ("opening parenthesis", ["'a(b'", "'('", "'f (x'"]),
    ("closing parenthesis", ["'a)b'", "')'", "'x) y'"]),
    ("parentheses", ["'f(x)'", "'()'", "'a (b) c'"]),
    ("equals sign", ["'a=b'", "'k=v'", "'x=1'"]),
    ("spaced equals sign", ["'a = b'", "'k =v'", "'x= 1'"]),
    ("semicolon", ["'a;b'", "'x; y'", "';'"]),
    ("semicolon at the end", ["'a;'", "'x y;'", "'1;'"]),
    ("double dash", ["'a--b'", "'--'", "'x -- y'"]),
    ("block comment markers", ["'a/*b*/'", "'/* x */'", "'p /* q'"]),
    ("hash", ["'a # b'", "'#x'", "'no. #1'"]),
    ("keyword-shaped words", ["'CREATE'", "'not null'", "'Default'"]),
    ("statement word first", ["'SET x'", "'GO'", "'create table'"]),
    ("non-ASCII letters", ["'été'", "'über'", "'日本'"]),
    ("doubled quote", ["'it''s'", "'a''b'", "''''"]),
    ("double-quoted with blank", ['"a b"', '"x y"', '"the id"']),
    ("dot", ["'a.b'", "'1.5'", "'x . y'"]),
    ("colon and slash", ["'s3://b/k'", "'a:b'", "'/x/y'"]),
    ("tab inside", ["'a\tb'", "'x\ty'", "'\t'"]),
    ("digits only", ["'123'", "'007'", "'0'"]),
    ("double quote inside single quotes", ["'5\" wide'", "'say \"hi\"'", "'a\"b'"]),
    ("double quote, then double dash", ["'size 5\" -- approx'", "'a\" --b'", "'\"--'"]),
    ("quoted word, then double dash", ["'say \"hi\" -- x'", "'\"a\"--'", "'\"\" -- y'"]),
    ("apostrophe inside double quotes", ['"it\'s"', '"a\'b"', '"\'"']),
    ("double dash inside double quotes", ['"a -- b"', '"--"', '"x--y"']),
    ("line break inside", ["'line one\nline two'", "'a\nb'", "'x,\ny'"]),
    ("semicolon followed by words", ["'see docs; not used'", "'deprecated;do not use'", "'a; b c'"]),
    ("semicolon followed by a statement word", ["'run it; drop table tmp after'", "'n/a; create later'", "'x; ALTER it'"]),
    ("square brackets", ["'[]'", "'[none]'", "'see note [1]'"]),
    ("curly braces", ["'{}'", "'{\"tags\": []}'", "'a {b} c'"]),
    ("angle brackets and plus", ["'a<b'", "'x > y'", "'1+1'"]),
    ("back-tick", ["'`a`'", "'x ` y'", "'`'"]),
    ("other punctuation", ["'a&b|c'", "'50% off!'", "'$1 ~ ^2 ? @x'"]),
    ("star and slash", ["'a*b'", "'a / b'", "'*'"]),
    ("backslash", ["'a\\b'", "'C:\\dir'", "'\\d+'"]),
])
LITERAL_SCRIPTS = collections.OrderedDict([
    ("DEFAULT, own line", "CREATE TABLE t (\n  a varchar(10) DEFAULT {L},\n  b int\n);\n"),
    ("COMMENT, own line", "CREATE TABLE t (\n  a int COMMENT {L},\n  b int\n);\n"),
    ("DEFAULT, one-line statement", "CREATE TABLE t (a varchar DEFAULT {L}, b int);\n"),
    ("table option, last line", "CREATE TABLE t (\n  a int\n) COMMENT={L};\n"),
    ("table option followed by glued options", "CREATE TABLE t (\n  a int\n) COMMENT={L} ENGINE=InnoDB AUTO_INCREMENT=5;\n"),
])


LITERAL_SCRIPTS_THOROUGH = collections.OrderedDict([
    ("literal in a CHECK", "CREATE TABLE t (\n  a varchar(5) CHECK (a <> {L}),\n  b int\n);\n"),
    ("second ENUM value", "CREATE TYPE m AS ENUM ('x', {L});\n"),
    ("TBLPROPERTIES value", "CREATE TABLE t (a int) TBLPROPERTIES ('k'={L});\n"),
    ("in the second statement", "CREATE TABLE u (z int);\nCREATE TABLE t (a varchar DEFAULT {L});\n"),
    ("last column, closing parenthesis glued", "CREATE TABLE t (\n  b int,\n  a varchar DEFAULT {L});\n"),
])


def _as_quoted_lexemes(lx, lit):
    """the literal is one lexeme, or a run of adjacent quoted lexemes that spell it (a doubled quote ends one string token and
    starts the next; the grammar joins them again)"""
    q = lit[0]
    for i in range(len(lx)):
        acc = ""
        for j in range(i, len(lx)):
            if not (lx[j].startswith(q) and lx[j].endswith(q) and len(lx[j]) >= 2):
                break
            acc += lx[j]
            if acc == lit:
                return True
            if not lit.startswith(acc):
                break
    return False


def check_literals(ck, ctx, rule="O-literal"):
    """the characters of a quoted literal reach the grammar exactly as written: the script is formed into lines and run through the
    line machine (both evaluated abstractly); the one statement handed over must contain the literal verbatim"""
    lm = LineMachine(ctx)
    from .seam import lexemes
    n = 0

    ref = {}
    positions = collections.OrderedDict(LITERAL_SCRIPTS)
    if ck.tier == "thorough":
        positions.update(LITERAL_SCRIPTS_THOROUGH)
    for sname, tmpl in positions.items():
        for q in ("'", '"'):
            h = list(lm.run_script(tmpl.replace("{L}", q + "w" + q))[0])
            if len(h) != tmpl.count(";"):
                raise AnalysisError(f"O-literal: the reference script ({sname}) does not reach the grammar as {tmpl.count(';')} statement(s)")
            k = h[-1].rfind(q + "w" + q)
            if k < 0:
                raise AnalysisError(f"O-literal: the one-word reference literal does not reach the grammar verbatim ({sname})")
            # the lexemes before and after the literal
            ref[(sname, q)] = (lexemes(ctx.lexer, h[-1][:k]), lexemes(ctx.lexer, h[-1][k + 3:]))

    def rest_ok(text, key):
        pre, post = ref[key]
        lx = lexemes(ctx.lexer, text)
        return len(lx) >= len(pre) + len(post) + 1 and lx[:len(pre)] == pre and (not post or lx[len(lx) - len(post):] == post)
    for lname, lits in LITERALS.items():
        fails, rest_fails, lex_fails = [], [], []
        for sname, tmpl in positions.items():
            n += 1
            texts = [tmpl.replace("{L}", l) for l in lits]
            for i, (text, lit) in enumerate(zip(texts, lits)):
                # exemplar by exemplar: literals of one class need not be treated in lock step (blank counts differ)
                try:
                    handed = list(lm.run_script(text)[0])
                except (PyRaise, Raised) as e:
                    fails.append((sname, text, f"{lit}: raises {e}"))
                    break
                except (NonUniform, LexUnknown) as e:
                    raise AnalysisError(f"O-literal {lname} ({sname}): {e}")
                want_n = tmpl.count(";")
                last = handed[-1] if handed else None
                if len(handed) != want_n or not isinstance(last, str) or lit not in last:
                    fails.append((sname, text, f"{lit} reaches the grammar as {handed!r}"))
                elif not _as_quoted_lexemes(lexemes(ctx.lexer, last), lit):
                    lx = lexemes(ctx.lexer, last)
                    k = next((j for j, x in enumerate(lx) if x and x[0] == lit[0]), 0)
                    if not lex_fails or lex_fails[-1][0] != sname:
                        lex_fails.append((sname, text, f"{lit} is scanned as {' | '.join(lx[k:k + 4])!r}"))
                if len(handed) == want_n and isinstance(last, str):
                    if not rest_ok(last, (sname, lit[0])):
                        rest_fails.append((sname, text, f"around {lit} the statement reaches the grammar as {last!r}"))
                elif not fails or fails[-1][0] != sname:
                    rest_fails.append((sname, text, f"{lit}: {len(handed)} statements handed over"))
                if (fails and fails[-1][0] == sname) or (rest_fails and rest_fails[-1][0] == sname):
                    break
        title = f"literal with {lname}" if not lname.endswith("word") and not lname.endswith("words") else f"literal: {lname}"
        ok = not fails
        ck.ob(rule, title, ok,
              "the literal must reach the grammar verbatim, inside one statement" +
              ("" if ok else f"; in {len(fails)} of {len(positions)} positions ({', '.join(f[0] for f in fails)}): {fails[0][2]}"),
              "Parser.pre_process_data / parse_data / process_line (evaluated abstractly)", witness=None if ok else repr(fails[0][1])[:160])
        ok = not lex_fails
        ck.ob(rule + ".lexeme", title, ok,
              "a literal that reaches the grammar verbatim must be taken whole by one lexer rule (one token)" +
              ("" if ok else f"; in {len(lex_fails)} of {len(positions)} positions: {lex_fails[0][2]}"),
              "lexer rules (regexes in PLY's order) applied to the statement text", witness=None if ok else repr(lex_fails[0][1])[:160])
        ok = not rest_fails
        ck.ob(rule + ".rest", title, ok,
              "the statement around the literal must be scanned into the same lexemes as around a one-word literal" +
              ("" if ok else f"; in {len(rest_fails)} of {len(positions)} positions ({', '.join(f[0] for f in rest_fails)}): {rest_fails[0][2]}"),
              "Parser.pre_process_data / parse_data / process_line (evaluated abstractly)", witness=None if ok else repr(rest_fails[0][1])[:160])
    ck.count("literal_instances", n)


def check_reset_before_parse(ck, ctx, key, why, rule="T-DOM"):
    """semantic form of `the flag reset dominates the parse`: process_line is evaluated abstractly, with every lexer flag left dirty,
    on every line class in every reachable state of the line machine (also as last line of the script); whenever a statement is
    handed to the grammar the lexer flags must be the reset vector - however the reset and the parse call are arranged in the code"""
    lm = LineMachine(ctx)
    start = dict(ctx.lexer.start_flags)
    n, bad = 0, None

    def clean(lx):
        return all(same(lx.get(k), v) for k, v in start.items())
    s0, l0 = lm.initial(), lm.lexer_after_prologue()
    seen = {(ident1(s0), clean(l0))}
    queue = collections.deque([(s0, l0, [])])
    while queue:
        s, lex, path = queue.popleft()
        shape = stmt_class(s["statement"])
        for cname in ALLOWED[shape]:
            for more in (True, False):
                try:
                    snaps, _start = lm.lexer_flags_at_parse(s, CODE[cname], more, lexer_in=lex)
                except (PyRaise, Raised) as e:
                    raise AnalysisError(f"{rule}: the line machine raises on `{cname}`: {e}")
                for sn in snaps:
                    n += 1
                    wrong = {k: sn.get(k) for k in start if not same(sn.get(k), start[k])}
                    if wrong and bad is None:
                        bad = (f"when the statement assembled after {' / '.join(path[-3:] + [cname])} is handed to the grammar, the lexer flags "
                               f"{sorted(wrong)} still hold what the previous statement left")
                if more:
                    lex2 = dict(lm.last_lexer_after or {})
                    try:
                        _p, nxt = lm.step(s, CODE[cname], True)
                    except (PyRaise, Raised):
                        continue
                    idk = (ident1(nxt), clean(lex2))
                    if idk not in seen and len(seen) < 200:
                        seen.add(idk)
                        queue.append((nxt, lex2, path + [cname]))
    if n < 10:
        raise AnalysisError(f"{rule}: only {n} statements were handed to the grammar by the explored lines (anchor vanished?)")
    ck.ob(rule, key, bad is None, why + ("" if bad is None else "; " + bad), "Parser.process_line (evaluated abstractly, reset not intercepted)")
    ck.count("parse_calls_checked_for_reset", n)


# ---- the line pre-processing never raises (C16) ---------------------------------------------------------------------
ODD = collections.OrderedDict([
    ("SET with one word", w("SET x", "set a;", "SET ;", "Set =")),
    ("SET with two words", w("SET x y", "set a =", "SET = 1;", "Set x ;")),
    ("SET with many words", w("SET a = b = c ;", "set x to y z ;", "SET a b c d e", "Set  =  =  = ;")),
    ("punctuation only", w(";", " ) ", " ( ", " , ")),
    ("punctuation runs", w(" )  ;", " (  ;", ";;", " ,  , ")),
    ("lone quote", w("'", "\"", "a 'b", "x \" y")),
    ("quote and comment marker", w("'--", "-- '", "'/*", "*/ '")),
    ("closing marker first", w("*/", "*/ x", "*/ /*", "*/ --")),
    ("markers only", w("/*", "--", "#", "/**/")),
    ("nested markers", w("/* */ */", "/* /* */", "-- /* -- */", "/* -- */ --")),
    ("statement word only", w("CREATE", "ALTER", "DROP", "GO;")),
    ("statement word and semicolon", w("CREATE ;", "ALTER ;", "DROP ;", "USE ;")),
    ("equals signs", w("=", "a=", "=b", "a==b")),
    ("only blanks", w(" ", "   ", "\t", "  ")),
])
ODD_SCRIPTS = collections.OrderedDict([
    ("empty script", ""), ("blank script", "   "), ("newline only", "\n"), ("several newlines", "\n\n\n"), ("semicolon only", ";"),
    ("lone quote", "'"), ("odd number of quotes", "CREATE TABLE t (a varchar DEFAULT 'x);\nCREATE TABLE u (b int);"),
    ("escaped quote and odd quotes", "CREATE TABLE t (a varchar DEFAULT 'it\\'s);\n"),
    ("input.regex without =", 'CREATE TABLE t (a int) WITH SERDEPROPERTIES ("input.regex");'),
    ("input.regex without closing parenthesis", 'CREATE TABLE t (a int) WITH SERDEPROPERTIES ("input.regex" = "(a|b");'),
    ("input.regex mentioned in a comment", "-- uses input.regex below\nCREATE TABLE t (a int);"),
    ("input.regex as a single-quoted key", "CREATE TABLE t (a int) WITH SERDEPROPERTIES ('input.regex' = '(a)');"),
    ("input.regex twice", 'CREATE TABLE t (a int) WITH SERDEPROPERTIES ("input.regex" = "(a)", "input.regex" = "(b)");'),
    ("carriage returns only", "\r\r"), ("tab only", "\t"), ("comment only", "-- x"), ("open block comment only", "/* x"),
    ("SET only", "SET"), ("SET and blank", "SET "), ("statement without end", "CREATE TABLE t ("),
])


def check_no_raise(ck, ctx, rule="O-noraise"):
    """no line, however odd, makes the line pre-processing itself raise (an IndexError / TypeError / ... from splitting and
    indexing the text is neither `no exception` under silent=True nor a DDLParserError under silent=False)"""
    lm = LineMachine(ctx)
    states = reachable_states(lm)
    n = 0
    lines = list(ODD.items()) + [(k, v) for k, v in CODE.items()] + list(UNSUPPORTED.items())
    for cname, line in lines:
        bad = None
        for s, path in states:
            for more in (True, False):
                n += 1
                from ..deriv import _project
                for i in range(6):
                    # exemplar by exemplar: odd lines need not be handled in lock step
                    try:
                        parsed, nxt = lm._step1(_project(copy.deepcopy(s), i), _project(line, i), more)
                        if not more:
                            lm._finish1(nxt)
                        else:
                            # ... and the line after it (a pending register may only blow up when it is flushed)
                            p2, n2 = lm._step1(nxt, "", False)
                            lm._finish1(n2)
                    except (PyRaise, Raised) as e:
                        if bad is None:
                            bad = (f"{e}", f"after {' / '.join(path[-3:]) or 'the start of the script'}: {_project(line, i)!r}" + ("" if more else " (last line)"))
        ck.ob(rule, f"line class `{cname}`", bad is None, "Parser.process_line / the end of parse_data must not raise" +
              ("" if bad is None else f"; raises {bad[0]}"), "Parser.process_line (evaluated abstractly)", witness=None if bad is None else bad[1])
    for sname, text in ODD_SCRIPTS.items():
        n += 1
        try:
            lm.run_script(text)
            ok, detail = True, ""
        except (PyRaise, Raised) as e:
            ok, detail = False, f"raises {e}"
        ck.ob(rule, f"script: {sname}", ok, "Parser.parse_data must not raise in the pre-processing" + ("" if ok else "; " + detail),
              "Parser.parse_data (evaluated abstractly)", witness=None if ok else repr(text)[:160])
    ck.count("no_raise_instances", n)


# ---- identifiers with unusual characters through the line pre-processing and the scanner (C06) ---------------------------
NAMES = collections.OrderedDict([
    ("bracketed name with #", ["[Order#]", "[Line#]", "[po#1]"]),
    ("back-ticked name with #", ["`po#`", "`a#b`", "`#x`"]),
    ("double-quoted name with #", ['"Item #"', '"a#"', '"#"']),
    ("name with $", ["a$b", "sys$x", "x$"]),
    ("double-quoted name with -", ['"my-col"', '"a-b-c"', '"-"']),
    ("back-ticked name with -", ["`my-proj`", "`a-b`", "`x-1`"]),
    ("bracketed name with a blank", ["[my col]", "[a b c]", "[x 1]"]),
    ("back-ticked name with a blank", ["`my col`", "`a b c`", "`x 1`"]),
    ("double-quoted name with a blank", ['"my col"', '"a b c"', '"x 1"']),
    ("double-quoted name with a dot", ['"a.b"', '"v1.status"', '"x.y.z"']),
    ("double-quoted name with --", ['"a--b"', '"--"', '"x -- y"']),
    ("double-quoted keyword", ['"select"', '"TABLE"', '"Primary"']),
    ("bracketed keyword", ["[select]", "[TABLE]", "[Primary]"]),
    ("name with digits first", ["1st", "2nd_col", "9x"]),
    ("long name", ["a" * 64, "very_long_column_name_with_many_parts_and_numbers_0123456789", "X" * 40]),
])
NAME_SCRIPTS = collections.OrderedDict([
    ("table name", "CREATE TABLE {N} (\n  id int,\n  x int\n);\n"),
    ("first column", "CREATE TABLE t (\n  {N} int,\n  x int\n);\n"),
    ("later column and key list", "CREATE TABLE t (\n  x int,\n  {N} int,\n  PRIMARY KEY ({N})\n);\n"),
    ("one-line statement", "CREATE TABLE t (x int, {N} varchar(5) NOT NULL);\n"),
])


def check_names(ck, ctx, rule="O-name"):
    """an identifier with unusual characters reaches the grammar verbatim and is ONE lexeme of the scanner, in every naming
    position tried (parse_data evaluated abstractly, then the lexer rules in PLY's order)"""
    lm = LineMachine(ctx)
    from .seam import lexemes
    n = 0
    for cname, names in NAMES.items():
        fails = []
        for sname, tmpl in NAME_SCRIPTS.items():
            for nm in names:
                n += 1
                text = tmpl.replace("{N}", nm)
                try:
                    handed = list(lm.run_script(text)[0])
                except (PyRaise, Raised) as e:
                    fails.append((sname, text, f"{nm}: raises {e}"))
                    break
                except (NonUniform, LexUnknown) as e:
                    raise AnalysisError(f"{rule} {cname} ({sname}): {e}")
                if len(handed) != 1 or nm not in handed[0]:
                    fails.append((sname, text, f"{nm} reaches the grammar as {handed!r}"))
                    break
                if nm not in lexemes(ctx.lexer, handed[0]):
                    lx = lexemes(ctx.lexer, handed[0])
                    k = next((j for j, x in enumerate(lx) if x and x[0] == nm[0] and x != "(" ), 0)
                    fails.append((sname, text, f"{nm} is scanned as {' | '.join(lx[k:k + 4])!r}"))
                    break
        ok = not fails
        ck.ob(rule, cname, ok, "the name must reach the grammar verbatim and be taken whole by one lexer rule" +
              ("" if ok else f"; in {len(fails)} of {len(NAME_SCRIPTS)} positions ({', '.join(f[0] for f in fails)}): {fails[0][2]}"),
              "Parser.parse_data (evaluated abstractly) + lexer rules in PLY's order", witness=None if ok else repr(fails[0][1])[:160])
    ck.count("name_instances", n)


# ---- silent mode at the statement level (C16) -----------------------------------------------------------------------------
def check_silent(ck, ctx, rule="O-silent"):
    """Parser.process_line -> process_statement -> parse_statement evaluated abstractly with the LALR call stubbed: when the error
    hooks raise DDLParserError, silent=True swallows it, reports nothing and leaves the line machine ready for the next statement
    (which is then handed over intact); silent=False lets exactly that exception escape; a recognised statement is reported once in
    both settings; an unrecognised one (no result) is reported in neither"""
    lm = LineMachine(ctx)
    s0 = lm.initial()
    first = ["CREATE TABLE t  ( ", "a int , ", "b int", " ) ;"]
    nxt = "CREATE TABLE u  ( x int )  ;"
    exc_mod = ctx.model.modules.get("simple_ddl_parser.exception")
    for silent in (True, False):
        for outcome in ("ok", "none", "raise"):
            st, handed, escaped = s0, [], None
            lex = lm.lexer_after_prologue()
            try:
                for i, ln in enumerate(first):
                    p, st, escaped = lm.step_parse(st, ln, True, outcome, silent, lexer_in=lex)
                    lex = dict(lm.last_lexer_obj.__dict__)
                    handed += list(p)
                    if escaped is not None:
                        break
                problem = None
                text = "CREATE TABLE t ( a int , b int )"
                if outcome == "raise" and not silent:
                    if escaped is None:
                        problem = "the error is swallowed although silent=False"
                    else:
                        it = lm.ctx.model
                        key = None
                        r = it.resolve_symbol(escaped.module, escaped.cls_name) if escaped.module is not None else None
                        mro = [k[1] for k in it.mro(r[1])] if r and r[0] == "class" else [escaped.cls_name]
                        if "SimpleDDLParserException" not in mro and "DDLParserError" not in mro:
                            problem = f"{escaped.cls_name} escapes instead of DDLParserError"
                else:
                    if escaped is not None:
                        problem = f"{escaped.cls_name} escapes" + (" although silent=True" if outcome == "raise" else " although the statement parses")
                    elif [" ".join(h.split()) for h in handed] != [text]:
                        problem = f"the statement is handed to the grammar as {handed!r}"
                    else:
                        want = 1 if outcome == "ok" else 0
                        if len(st["tables"]) != want:
                            problem = f"{len(st['tables'])} entities reported, expected {want}"
                        elif st["statement"] is not None:
                            problem = f"the statement register still holds {st['statement']!r}"
                        else:
                            # the next statement starts from a clean machine
                            p2, st2, esc2 = lm.step_parse(st, nxt, True, "ok", silent, lexer_in=lex)
                            start = dict(ctx.lexer.start_flags)
                            dirty = [k for sn in lm.last_lexer_at_parse for k in start if not same(sn.get(k), start[k])]
                            if dirty:
                                problem = f"the following statement is parsed with lexer flags left by this one ({sorted(set(dirty))[:4]})"
                            elif esc2 is not None or [" ".join(h.split()) for h in p2] != ["CREATE TABLE u ( x int )"] or len(st2["tables"]) != want + 1:
                                problem = f"the following statement is handed over as {p2!r} ({len(st2['tables'])} entities)"
            except (PyRaise,) as e:
                problem = f"raises {e}"
            what = {"ok": "a statement the grammar recognises", "none": "a statement that yields no result", "raise": "a statement on which the error hooks raise"}[outcome]
            ck.ob(rule, f"{what}, silent={silent}", problem is None,
                  "silent=True: no exception, no entity, the next statement unaffected; silent=False: DDLParserError escapes; a recognised "
                  "statement is reported once either way" + ("" if problem is None else "; " + problem), "Parser.process_line / parse_statement (evaluated abstractly)")


def check_error_hooks(ck, ctx, rule="O-silent"):
    """the PLY error hooks evaluated abstractly: p_error (called with a token, or with None at the end of the input) raises a
    DDLParserError exactly when silent is off; t_error raises a DDLParserError (the statement driver decides what silent does
    with it - see above); neither raises anything else"""
    from ..pyabs import Interp, Obj
    m = ctx.model

    def family(r):
        rs = m.resolve_symbol(r.module, r.cls_name) if r.module is not None else None
        names = [k[1] for k in m.mro(rs[1])] if rs and rs[0] == "class" else [r.cls_name]
        return "SimpleDDLParserException" in names or "DDLParserError" in names

    effects = {}

    def call(fname, arg, silent):
        attrs = {"silent": silent, "statement": "CREATE TABLE t ( a int ~ )", "tables": [], "comments": []}
        lexer = Obj(is_table=True, lp_open=1, columns_def=True, last_token="ID")
        it = Interp(m, ctx.grammar.tokens_ns, lexer, self_attrs=attrs)
        before = (repr(sorted(attrs.items())), repr(sorted(lexer.__dict__.items())))
        try:
            try:
                it.call_func(m.parser_method(fname), [arg])
                return "returns", None
            except Raised as r:
                return ("raises DDLParserError" if family(r) else f"raises {r.cls_name}"), r
            except PyRaise as pr:
                return f"raises {type(pr.exc).__name__}: {pr.exc}", pr
        finally:
            after = (repr(sorted(it.self_attrs.items())), repr(sorted(lexer.__dict__.items())))
            effects[(fname, arg is None, silent)] = None if after == before else f"parser attributes / lexer flags before {before} after {after}"
    tok = Obj(type="ID", value="foo", lineno=1, lexpos=14)
    sym = Obj(type="error", value="~ )", lineno=1, lexpos=23, lexer=Obj(lexpos=23, lexdata="CREATE TABLE t ( a int ~ )"))
    cases = [("p_error(<token>)", "p_error", tok, {True: "returns", False: "raises DDLParserError"}),
             ("p_error(None) - the input ends too early", "p_error", None, {True: "returns", False: "raises DDLParserError"}),
             ("t_error(<unknown symbol>)", "t_error", sym, {True: "raises DDLParserError", False: "raises DDLParserError"})]
    for label, fname, arg, want in cases:
        for silent in (True, False):
            got, _e = call(fname, arg, silent)
            ck.ob(rule, f"{label}, silent={silent}", got == want[silent], f"expected: {want[silent]}; the hook {got}",
                  f"DDLParser.{fname} (evaluated abstractly)")
            eff = effects.get((fname, arg is None, silent))
            ck.ob(rule, f"{label}, silent={silent}: no other effect", eff is None,
                  "the error hook must not alter parser state (results with silent=True / False must agree)" + ("" if eff is None else "; " + eff[:300]),
                  f"DDLParser.{fname} (evaluated abstractly)")


# ---- multi-line property lists of CREATE TYPE / TABLESPACE ... (C18) ------------------------------------------------------------
PROPERTY_LINES = ["INPUT = fn_in , ", "OUTPUT = fn_out , ", "RECEIVE = fn_r , ", "SEND = fn_s , ", "ANALYZE = fn_an , ", "INTERNALLENGTH = 16 , ",
                  "STORAGE = plain , ", "ALIGNMENT = double , ", "CATEGORY = 'U' , ", "DELIMITER = ',' , ", "COLLATABLE = true , ", "DEFAULT = 'x' , ",
                  "ELEMENT = float4 , ", "LIKE = base_t , ", "PREFERRED = false , ", "TYPMOD_IN = f1 , ", "PASSEDBYVALUE , ", "VARIABLE , ",
                  "DATAFILE 'f.dbf' ", "SIZE 20M ", "AUTOEXTEND ON ", "EXTENT MANAGEMENT LOCAL ", "LOGGING ", "ONLINE ", "BLOCKSIZE 8k ", "NEXT 10M "]


def check_property_lines(ck, ctx, rule="O-line"):
    """an entity written over several lines, one property per line: every property line - whatever word it starts with, as long as it
    is not one of the documented statement-level words - is appended to the pending statement, none is skipped or starts a new
    statement (the entity is handed to the grammar whole)"""
    lm = LineMachine(ctx)
    s0 = lm.initial()
    n = 0
    for opener, closer in (("CREATE TYPE geo.box  ( ", " ) ;"), ("CREATE TABLESPACE ts1", ";")):
        bad = None
        for ln in PROPERTY_LINES:
            first = ln.split()[0].upper()
            if first in ("CREATE", "ALTER", "DROP", "SET", "GO", "USE", "INSERT", "GRANT", "DELETE"):
                continue
            n += 1
            try:
                p0, st = lm._step1(s0, opener, True)
                p1, st = lm._step1(st, ln, True)
                p2, st = lm._step1(st, closer, True)
                handed = list(p0) + list(p1) + list(p2)
                want = " ".join((opener + " " + ln + " " + closer.rstrip(";")).split())
                got = [" ".join(h.replace(" = ", "=").split()) for h in handed]
                if got != [" ".join(want.replace(" = ", "=").split())]:
                    bad = bad or (f"with the line {ln.strip()!r} the grammar is handed {handed!r}", f"{opener} / {ln} / {closer}")
            except (PyRaise, Raised) as e:
                bad = bad or (f"raises {e} on the line {ln.strip()!r}", f"{opener} / {ln} / {closer}")
        ck.ob(rule, f"one property per line between `{opener.strip()}` and `{closer.strip()}`", bad is None,
              "every property line is appended to the statement; the entity reaches the grammar whole" + ("" if bad is None else "; " + bad[0]),
              "Parser.process_line (evaluated abstractly)", witness=None if bad is None else bad[1])
    ck.count("property_line_instances", n)
