"""Fragment *alter* (C04): ALTER TABLE / CREATE INDEX against a script of three tables that share one name
(s1.t, s2.t and an unqualified t), evaluated down to the final output.

The three CREATE TABLE statements are parsed once by single-path fixed points; every ALTER / INDEX statement of the
fragment is explored with every way of writing the target (same spelling, other letter case, "quoted", [bracketed],
`back-ticked`, unqualified, a name no table has) and, on acceptance, Output.format is evaluated abstractly on
[table1, table2, table3, statement] (objabs).  Oracle, from the property statement:
  * exactly the named table changes; the other two entries equal their stand-alone output;
  * the change is the declared one (see EXPECT below); everything else of the target entry is unchanged;
  * a target that no table matches raises instead of attaching to another table."""
import copy

from ..core import AnalysisError
from ..deriv import Spec, Tag, Explorer, _short
from ..pyabs import W, lift, deep_eq, PyRaise, Raised, LexUnknown, NonUniform
from ..objabs import ShapeMismatch
from .common import punct, numbers, to_int, Matcher, matches, show
from .clauses import Holds
from .table import InOrder


def _variants(lm, label, ex):
    return {
        "same": lm.plain(label, ex),
        "upper": lm.plain(label + "^", [e.upper() for e in ex]),
        "dq": lm.custom(f'"{label}"', [f'"{e}"' for e in ex], "DQ"),
        "br": lm.custom(f"[{label}]", [f"[{e}]" for e in ex], "BR"),
        "bt": lm.custom(f"`{label}`", [f"`{e}`" for e in ex], "BT"),
    }


def classes(ctx):
    lm = ctx.lexer
    c = {}
    c["t"] = _variants(lm, "t", ["tbl", "orders", "Users", "t_1", "order_items", "Tbl2"])
    c["s1"] = _variants(lm, "s1", ["sch", "dbo", "My_Schema", "x_1", "analytics", "Zq9"])
    c["s2"] = _variants(lm, "s2", ["sc2", "db2", "Other_S", "y_1", "reporting", "Zr8"])
    c["u"] = lm.plain("u", ["uniq_t", "customers", "Only_One", "u_1", "single_table", "Uu2"])
    c["nosuch"] = lm.plain("nosuch", ["nosuch", "missing_t", "Ghost", "zz_9", "not_there", "Nope2"])
    c["a"] = lm.plain("a", ["aa", "id", "Col", "a_1", "user_name", "ZipCode2"])
    c["b"] = lm.custom('"B"', ['"BB"', '"Uid"', '"CAL"', '"B_2"', '"Order_Total"', '"ZAP3"'], "DQ")
    c["c"] = lm.plain("c", ["cc", "k3", "Cnt", "c_3", "created_on", "Zc4"])
    c["d"] = lm.plain("d", ["dd", "n4", "Dnew", "d_4", "added_col", "Zd5"])
    c["typ"] = lm.plain("type", ["int", "varchar", "DECIMAL", "Text", "bigint", "num_9"])
    c["typ2"] = lm.plain("type2", ["smallint", "text", "NUMERIC", "Clob", "real", "num_8"])
    c["cn"] = lm.plain("cn", ["pk1", "uq_1", "Fk_Name", "ck9", "constraint_x", "Cn2"])
    c["o"] = lm.plain("o", ["oth", "ot", "Other", "o_1", "ref_table", "Oth2"])
    c["x"] = lm.plain("x", ["xx", "oid", "Kee", "k_1", "other_id", "Kc2"])
    c["y"] = lm.plain("y", ["yy", "pid", "Kay", "k_2", "another_id", "Kd3"])
    c["ix"] = lm.plain("ix", ["ix1", "i_a", "Idx_Name", "ix_9", "index_on_a", "Ix2"])
    c["act"] = lm.plain("action", ["CASCADE", "cascade", "RESTRICT", "Restrict"])
    c["str"] = lm.custom("'s'", ["'a'", "'Hello'", "'x y'", "'it_s'", "'1'"], "STR")
    return c


def parse_linear(ctx, name, build, one_segment=False):
    """parse result of one fixed statement (a linear spec) by the same machinery"""
    lm = ctx.lexer
    s = Spec(name, lm, accumulators={"expr", "defcolumn", "table_name"})
    s.one_segment_statements = one_segment
    if one_segment:
        s.wrappers = {"alter_column_add", "alter_column_modify", "alter_column_sql_server", "alter_column_modify_oracle", "expr"}
    end = build(s, s.start)
    s.acc.add(end)
    got = []
    ex = Explorer(ctx, s, None, on_accept=lambda e, final, steps: got.append(final)).explore()
    if ex.findings or len(got) != 1 or ex.n_unevaluated:
        raise AnalysisError(f"base statement `{name}` of the alter fragment is not parsed cleanly: "
                            f"{[k for k in ex.findings][:2]} unevaluated={list(ex.unevaluated)[:2]}")
    return got[0]


def base_tables(ctx, C):
    lm = ctx.lexer
    P, N = punct(lm), numbers(lm)

    def table(schema_cls, name_cls=None):
        def build(s, a):
            a = s.words(a, "head", [("KW", "CREATE"), ("KW", "TABLE")])
            if schema_cls is not None:
                a = s.words(a, "head", [(schema_cls, "schema"), P["."]], begin=False)
            a = s.words(a, "head", [(name_cls or C["t"]["same"], "name")], begin=False)
            a = s.words(a, "lp", [P["("]])
            a = s.words(a, "col", [(C["a"], "name"), (C["typ"], "type")])
            a = s.words(a, "sep", [P[","]])
            a = s.words(a, "col", [(C["b"], "name"), (C["typ"], "type"), P["("], (N["NUM"], "size1"), P[")"]])
            a = s.words(a, "sep", [P[","]])
            a = s.words(a, "col", [(C["c"], "name"), (C["typ"], "type")])
            return s.words(a, "end", [P[")"]])
        return build
    return [parse_linear(ctx, "base-s1.t", table(C["s1"]["same"])), parse_linear(ctx, "base-s2.t", table(C["s2"]["same"])),
            parse_linear(ctx, "base-t", table(None)), parse_linear(ctx, "base-s1.u", table(C["s1"]["same"], C["u"]))]


# which table (index in the script) a way of writing the target denotes; None = no table matches -> must raise
REFS = {
    "s1.same": 0, "s1.upper": 0, "s1.dq": 0, "s1.br": 0, "s1.bt": 0, "s2.same": 1, "s2.upper": 1, "s2.dq": 1,
    "bare.same": 2, "bare.upper": 2, "bare.dq": 2, "nosuch": None, "s1.nosuch": None,
    # a table that exists under one schema only: unqualified or under another schema it is a different, undefined table
    "u.s1": 3, "u.bare": None, "u.s2": None,
}


def build(ctx, tier="quick", judge=True):
    lm = ctx.lexer
    C = classes(ctx)
    P, N = punct(lm), numbers(lm)
    s = Spec("alter", lm, accumulators={"expr"})
    s.wrappers = {"alter_column_add", "alter_column_modify", "alter_column_sql_server", "alter_column_modify_oracle", "expr"}
    s.one_segment_statements = True
    full = tier == "thorough"
    # ---- ALTER TABLE <ref>
    a = s.words(s.start, "head", [("KW", "ALTER"), ("KW", "TABLE")])
    home = s.new()          # every action; reached from the plainly written targets (thorough: from every way of writing it)
    home_few = s.new()      # a representative action of each family; reached from every way of writing the target
    MAIN = ("s1.same", "s2.same", "bare.same", "nosuch")
    U = {"u.s1": C["s1"]["same"], "u.bare": None, "u.s2": C["s2"]["same"]}

    def ref(start, kind, to, to_few=None):
        for rk in REFS:
            to_ = to if (full or rk in MAIN or to_few is None) else to_few
            _ref_one(start, kind, to_, rk)

    def _ref_one(start, kind, to, rk):
        if True:
            st = start
            if rk in U:
                if U[rk] is not None:
                    st = s.edge(st, U[rk], Tag(kind, False))
                    st = s.edge(st, P["."], Tag(kind, False))
                s.edge(st, C["u"], Tag(kind, False, "ref:" + rk), to)
                return
            sk, style = rk.split(".") if "." in rk else ("bare", rk)
            if rk == "nosuch":
                s.edge(st, C["nosuch"], Tag(kind, False, "ref:nosuch"), to)
                return
            if rk == "s1.nosuch":
                st = s.edge(st, C["s1"]["same"], Tag(kind, False))
                st = s.edge(st, P["."], Tag(kind, False))
                s.edge(st, C["nosuch"], Tag(kind, False, "ref:s1.nosuch"), to)
                return
            if sk != "bare":
                st = s.edge(st, C[sk][style], Tag(kind, False))
                st = s.edge(st, P["."], Tag(kind, False))
            s.edge(st, C["t"][style], Tag(kind, False, "ref:" + rk), to)
    ref(a, "head", home, home_few)
    fin = s.new()
    s.acc.add(fin)

    def cols2(start, kind, k, roles=("col1", "col2"), first=None):
        x = s.edge(start, P["("], Tag(kind, False))
        x = s.edge(x, first or C["a"], Tag(kind, False, roles[0]))
        if k == 2:
            x = s.edge(x, P[","], Tag(kind, False))
            x = s.edge(x, C["b"], Tag(kind, False, roles[1]))
        return s.edge(x, P[")"], Tag(kind, False))
    for named in (False, True):
        pre = [("KW", "ADD")] + ([("KW", "CONSTRAINT"), (C["cn"], "cname")] if named else [])
        for k in (1, 2):
            e = s.words(home, f"act:PK{k}", pre + [("KW", "PRIMARY"), ("KW", "KEY")])
            s.eps(cols2(e, f"act:PK{k}", k), fin)
            e = s.words(home, f"act:UQ{k}", pre + [("KW", "UNIQUE")])
            s.eps(cols2(e, f"act:UQ{k}", k), fin)
            e = s.words(home, f"act:FK{k}", pre + [("KW", "FOREIGN"), ("KW", "KEY")])
            e = cols2(e, f"act:FK{k}", k)
            e = s.words(e, f"act:FK{k}", [("KW", "REFERENCES"), (C["o"], "ref_table")], begin=False)
            e = cols2(e, f"act:FK{k}", k, roles=("ref_col1", "ref_col2"), first=C["x"]) if k == 1 else _refcols(s, e, f"act:FK{k}", P, C)
            s.eps(e, fin)
            e2 = s.words(e, f"act:FK{k}", [("KW", "ON"), ("KW", "DELETE"), (C["act"], "on_delete")], begin=False)
            s.eps(e2, fin)
        # single-column unique on the quoted upper-case column
        if named:
            e = s.words(home, "act:UQB", pre + [("KW", "UNIQUE"), P["("], (C["b"], "col1"), P[")"]])
            s.eps(e, fin)
        gt = lm.custom(">", [">", ">=", "<>"], "OP")
        e = s.words(home, "act:CHK", pre + [("KW", "CHECK"), P["("], (C["a"], "c1"), (gt, "op"), (N["NUM"], "c2"), P[")"]])
        s.eps(e, fin)
        if named:           # the grammar has no unnamed ADD DEFAULT <number>: outside `supported`
            e = s.words(home, "act:DEFN", pre + [("KW", "DEFAULT"), (N["NUM"], "value"), ("KW", "FOR"), (C["b"], "col1")])
            s.eps(e, fin)
        e = s.words(home, "act:DEFS", pre + [("KW", "DEFAULT"), (C["str"], "value"), ("KW", "FOR"), (C["a"], "col1")])
        s.eps(e, fin)
    for h in (home, home_few):
        e = s.words(h, "act:ADDCOL", [("KW", "ADD"), (C["d"], "name"), (C["typ2"], "type")])
        s.eps(e, fin)
        eu = s.words(h, "act:UQB", [("KW", "ADD"), ("KW", "UNIQUE"), P["("], (C["b"], "col1"), P[")"]])
        s.eps(eu, fin)
        ed = s.words(h, "act:DROP", [("KW", "DROP"), ("KW", "COLUMN"), (C["b"], "col1")])
        s.eps(ed, fin)
    e2 = s.words(e, "act:ADDCOL", [P["("], (N["NUM"], "size1"), P[")"]], begin=False)
    s.eps(e2, fin)
    e = s.words(home, "act:ADDCOLNN", [("KW", "ADD"), (C["d"], "name"), (C["typ2"], "type"), ("KW", "NOT"), ("KW", "NULL")])
    s.eps(e, fin)
    e = s.words(home, "act:RENAME", [("KW", "RENAME"), ("KW", "COLUMN"), (C["b"], "col1"), (lm.custom("TO", ["TO", "to", "To"], "WORD"), None), (C["d"], "to")])
    s.eps(e, fin)
    for kind, ws in (("act:MODIFY", [("KW", "MODIFY"), ("KW", "COLUMN")]), ("act:MODIFYO", [("KW", "MODIFY")]),
                     ("act:ALTERCOL", [("KW", "ALTER"), ("KW", "COLUMN")])):
        # the second, the first and the last column of the table (position 0 is not `no position`)
        for col in (C["b"], C["a"], C["c"]):
            e = s.words(home, kind, ws + [(col, "col1"), (C["typ2"], "type")])
            s.eps(e, fin)
    for col in (C["a"], C["c"]):
        ed = s.words(home, "act:DROP", [("KW", "DROP"), ("KW", "COLUMN"), (col, "col1")])
        s.eps(ed, fin)
        e = s.words(home, "act:RENAME", [("KW", "RENAME"), ("KW", "COLUMN"), (col, "col1"), (lm.custom("TO", ["TO", "to", "To"], "WORD"), None), (C["d"], "to")])
        s.eps(e, fin)
    # ---- CREATE [UNIQUE] INDEX ix ON <ref> ( a [ASC|DESC] [, "B" [ASC|DESC]] )
    for uq in (False, True):
        i0 = s.words(s.start, "ihead", [("KW", "CREATE")] + ([("KW", "UNIQUE", "unique")] if uq else []) + [("KW", "INDEX"), (C["ix"], "ixname"), ("KW", "ON")])
        ih = s.new()
        if uq and not full:
            for rk in MAIN:
                _ref_one(i0, "ihead", ih, rk)
        else:
            ref(i0, "ihead", ih)
        x = s.edge(ih, P["("], Tag("act:INDEX", True))
        x = s.edge(x, C["a"], Tag("act:INDEX", False, "col1"))
        order = lm.custom("ASC|DESC", ["ASC", "DESC", "asc", "desc", "Asc", "Desc"], "WORD")
        x1 = s.edge(x, order, Tag("act:INDEX", False, "ord1"))
        for st in (x, x1):
            s.edge(st, P[")"], Tag("act:INDEX", False), fin)
            y = s.edge(st, P[","], Tag("act:INDEX", False))
            y = s.edge(y, C["b"], Tag("act:INDEX", False, "col2"))
            s.edge(y, P[")"], Tag("act:INDEX", False), fin)
            y1 = s.edge(y, order, Tag("act:INDEX", False, "ord2"))
            s.edge(y1, P[")"], Tag("act:INDEX", False), fin)
    return s, (AlterOracle(ctx, s, C) if judge else None)


def _refcols(s, e, kind, P, C):
    x = s.edge(e, P["("], Tag(kind, False))
    x = s.edge(x, C["x"], Tag(kind, False, "ref_col1"))
    x = s.edge(x, P[","], Tag(kind, False))
    x = s.edge(x, C["y"], Tag(kind, False, "ref_col2"))
    return s.edge(x, P[")"], Tag(kind, False))


class AlterOracle:
    """judges the FINAL output of [t1, t2, t3, statement] at every accepted statement"""

    def __init__(self, ctx, spec, C, modes=("sql",)):
        self.ctx, self.spec, self.C, self.modes = ctx, spec, C, modes
        self.base = base_tables(ctx, C)
        self.checked = 0
        self.pending = []
        self.alone = {}
        from ..objabs import format_output
        self.fmt = format_output
        # an earlier ALTER on each table (a two-column ADD UNIQUE, which flags no column): every statement is also judged when
        # it FOLLOWS that one - what a statement does must not depend on the ALTERs before it
        self.prior = {}
        lm = ctx.lexer
        P = punct(lm)
        for ti, sch in ((0, C["s1"]["same"]), (1, C["s2"]["same"]), (2, None), (3, C["s1"]["same"])):
            def build(s, a, sch=sch, ti=ti):
                a = s.words(a, "head", [("KW", "ALTER"), ("KW", "TABLE")])
                if sch is not None:
                    a = s.words(a, "head", [(sch, "schema"), P["."]], begin=False)
                a = s.words(a, "head", [(C["u"] if ti == 3 else C["t"]["same"], "name")], begin=False)
                return s.words(a, "act", [("KW", "ADD"), ("KW", "UNIQUE"), P["("], (C["a"], "c1"), P[","], (C["c"], "c2"), P[")"]], begin=False)
            self.prior[ti] = parse_linear(ctx, f"prior-alter-{ti}", build, one_segment=True)
        for mode in modes:
            self.alone[mode] = self.fmt(ctx, copy.deepcopy(self.base), mode)
            if len(self.alone[mode]) != 4:
                raise AnalysisError("the base tables of the alter fragment do not yield one entry each")

    def __call__(self, ex, red):
        return 0

    def on_accept(self, ex, final, steps):
        self.pending.append((final, steps))

    # ------------------------------------------------------------------ sequences of ALTERs on one table
    def sequences(self, ex, extra_modes=("bigquery", "hql", "oracle", "mssql")):
        """what a table looks like after SEVERAL ALTER statements: every column entry keeps the documented shape, the column list
        is the one the statements declare one after the other (nothing memoised from an earlier statement survives a later one)"""
        ctx, C = self.ctx, self.C
        lm = ctx.lexer
        P = punct(lm)
        nc = lm.plain("nc", ["nc", "newcol", "Extra", "n_1", "added_on", "Nc2"])
        nd = lm.plain("nd", ["nd", "second", "More", "n_2", "added_by", "Nd3"])
        rb = lm.plain("rb", ["rb", "renamed", "NewName", "r_2", "order_sum", "Rb3"])
        TO = lm.custom("TO", ["TO", "to", "To"], "WORD")
        tails = {
            "ADD nc": [("KW", "ADD"), (nc, "name"), (C["typ2"], "type")],
            "ADD nd": [("KW", "ADD"), (nd, "name"), (C["typ2"], "type")],
            "RENAME b TO rb": [("KW", "RENAME"), ("KW", "COLUMN"), (C["b"], "col1"), (TO, None), (rb, "to")],
            "DROP b": [("KW", "DROP"), ("KW", "COLUMN"), (C["b"], "col1")],
            "DROP nc": [("KW", "DROP"), ("KW", "COLUMN"), (nc, "col1")],
            "MODIFY c": [("KW", "MODIFY"), ("KW", "COLUMN"), (C["c"], "col1"), (C["typ2"], "type")],
            "UNIQUE (c)": [("KW", "ADD"), ("KW", "CONSTRAINT"), (C["cn"], "cname"), ("KW", "UNIQUE"), P["("], (C["c"], "col1"), P[")"]],
            "UNIQUE (rb)": [("KW", "ADD"), ("KW", "CONSTRAINT"), (C["cn"], "cname"), ("KW", "UNIQUE"), P["("], (rb, "col1"), P[")"]],
            "DEFAULT FOR c": [("KW", "ADD"), ("KW", "CONSTRAINT"), (C["cn"], "cname"), ("KW", "DEFAULT"), (C["str"], "value"), ("KW", "FOR"), (C["c"], "col1")],
            "DEFAULT FOR rb": [("KW", "ADD"), ("KW", "CONSTRAINT"), (C["cn"], "cname"), ("KW", "DEFAULT"), (C["str"], "value"), ("KW", "FOR"), (rb, "col1")],
            "DEFAULT FOR nc": [("KW", "ADD"), ("KW", "CONSTRAINT"), (C["cn"], "cname"), ("KW", "DEFAULT"), (C["str"], "value"), ("KW", "FOR"), (nc, "col1")],
            "FK (rb)": [("KW", "ADD"), ("KW", "FOREIGN"), ("KW", "KEY"), P["("], (rb, "col1"), P[")"], ("KW", "REFERENCES"), (C["o"], "ref_table"),
                        P["("], (C["x"], "ref_col1"), P[")"]],
            "FK (nc)": [("KW", "ADD"), ("KW", "FOREIGN"), ("KW", "KEY"), P["("], (nc, "col1"), P[")"], ("KW", "REFERENCES"), (C["o"], "ref_table"),
                        P["("], (C["x"], "ref_col1"), P[")"]],
            "UNIQUE (nc)": [("KW", "ADD"), ("KW", "UNIQUE"), P["("], (nc, "col1"), P[")"]],
            "FK (a)": [("KW", "ADD"), ("KW", "FOREIGN"), ("KW", "KEY"), P["("], (C["a"], "col1"), P[")"], ("KW", "REFERENCES"), (C["o"], "ref_table"),
                       P["("], (C["x"], "ref_col1"), P[")"]],
            "INDEX (a)": "index",
        }
        A, B, Cc = C["a"].word, C["b"].word, C["c"].word
        scenarios = [
            (["INDEX (a)"], [A, B, Cc]),
            (["ADD nc", "INDEX (a)", "ADD nd"], [A, B, Cc, nc.word, nd.word]),
            (["ADD nc", "ADD nd"], [A, B, Cc, nc.word, nd.word]),
            (["ADD nc", "FK (nc)"], [A, B, Cc, nc.word]),
            (["FK (a)", "ADD nc", "FK (nc)"], [A, B, Cc, nc.word]),
            (["ADD nc", "RENAME b TO rb", "FK (rb)"], [A, rb.word, Cc, nc.word]),
            (["RENAME b TO rb", "ADD nc", "FK (rb)"], [A, rb.word, Cc, nc.word]),
            (["FK (a)", "RENAME b TO rb", "FK (rb)"], [A, rb.word, Cc]),
            (["ADD nc", "DROP b", "UNIQUE (nc)"], [A, Cc, nc.word]),
            (["FK (a)", "DROP b", "ADD nc", "ADD nd"], [A, Cc, nc.word, nd.word]),
            # a column added and dropped again stays dropped, whatever ALTER follows (nothing re-creates it from the alter section)
            (["ADD nc", "DROP nc", "ADD nd"], [A, B, Cc, nd.word]),
            (["ADD nc", "DROP nc", "FK (a)"], [A, B, Cc]),
            (["ADD nc", "ADD nd", "DROP nc", "RENAME b TO rb", "FK (rb)"], [A, rb.word, Cc, nd.word]),
            (["DROP b", "ADD nc", "DROP nc", "ADD nd"], [A, Cc, nd.word]),
            # a column-level effect (unique flag, default) reaches the column as it is AFTER the earlier statements: modified,
            # renamed or added by them (no look-up structure built before them may be consulted)
            (["MODIFY c", "UNIQUE (c)"], [A, B, Cc]),
            (["RENAME b TO rb", "UNIQUE (rb)"], [A, rb.word, Cc]),
            (["MODIFY c", "DEFAULT FOR c"], [A, B, Cc]),
            (["RENAME b TO rb", "DEFAULT FOR rb"], [A, rb.word, Cc]),
            (["ADD nc", "DEFAULT FOR nc"], [A, B, Cc, nc.word]),
        ]
        cache = {}

        def stmt(ti, name):
            if (ti, name) not in cache:
                sch = {0: C["s1"]["same"], 1: C["s2"]["same"], 2: None, 3: C["s1"]["same"]}[ti]

                def build(s, a):
                    if tails[name] == "index":
                        # CREATE INDEX ix ON [schema .] t ( a )
                        a = s.words(a, "ihead", [("KW", "CREATE"), ("KW", "INDEX"), (C["ix"], "ixname"), ("KW", "ON")])
                        if sch is not None:
                            a = s.words(a, "ihead", [(sch, "schema"), P["."]], begin=False)
                        a = s.words(a, "ihead", [(C["u"] if ti == 3 else C["t"]["same"], "name")], begin=False)
                        return s.words(a, "act:INDEX", [P["("], (C["a"], "col1"), P[")"]])
                    a = s.words(a, "head", [("KW", "ALTER"), ("KW", "TABLE")])
                    if sch is not None:
                        a = s.words(a, "head", [(sch, "schema"), P["."]], begin=False)
                    a = s.words(a, "head", [(C["u"] if ti == 3 else C["t"]["same"], "name")], begin=False)
                    return s.words(a, "act", tails[name], begin=False)
                cache[(ti, name)] = parse_linear(ctx, f"seq-{ti}-{name}", build, one_segment=tails[name] != "index")
            return cache[(ti, name)]
        want_keys = {"name", "type", "size", "references", "unique", "nullable", "default", "check"}
        jobs = [(ti, names, exp) for ti in (2, 0) for names, exp in scenarios]
        for ti, names, _e in jobs:          # the statements are parsed here, once; the workers only evaluate the output layer
            for n in names:
                stmt(ti, n)

        def one(job, col, checked):
            ti, names, exp = job
            checked[0] += 1
            label = " ; ".join(names)
            wit = f"CREATE TABLE (a, \"B\", c) x4 ; then on table #{ti + 1}: " + label
            try:
                out = self.fmt(ctx, copy.deepcopy(self.base) + [copy.deepcopy(stmt(ti, n)) for n in names], "sql")
            except (PyRaise, ShapeMismatch) as e:
                col.add("O-final", f"alter sequence `{label}`: the output layer fails", f"{e}", wit)
                return
            except (LexUnknown, NonUniform) as e:
                raise AnalysisError(f"alter sequences: output layer outside the interpreted subset on `{label}`: {e}")
            if not isinstance(out, list) or len(out) != 4:
                col.add("O-final", f"alter sequence `{label}`: number of entries", f"{show(out)!r}"[:300], wit)
                return
            bad = None
            for i in range(4):
                if i != ti and not deep_eq_safe(out[i], self.alone["sql"][i]):
                    bad = f"table #{i + 1} changed although every statement names table #{ti + 1}"
            cols = out[ti].get("columns")
            if bad is None and (not isinstance(cols, list) or not all(isinstance(c, dict) and want_keys <= set(c) for c in cols)):
                bad = ("a column entry does not have the documented keys: " +
                       repr(show([sorted(map(str, c)) if isinstance(c, dict) else c for c in (cols or [])
                                  if not (isinstance(c, dict) and want_keys <= set(c))]))[:300])
            if bad is None and not deep_eq_safe([c["name"] for c in cols], exp):
                bad = f"columns {show([c['name'] for c in cols])!r}, declared {show(exp)!r}"
            if bad is None and names[-1] == "UNIQUE (nc)" and not any(deep_eq_safe(c["name"], nc.word) and c["unique"] is True for c in cols):
                bad = "the added column is not flagged unique"
            for last, wd in (("UNIQUE (c)", Cc), ("UNIQUE (rb)", rb.word)):
                if bad is None and names[-1] == last and [c["unique"] is True for c in cols] != [deep_eq_safe(c["name"], wd) for c in cols]:
                    bad = f"exactly the column {show(wd)!r} must be flagged unique, flags: {show([(c['name'], c['unique']) for c in cols])!r}"[:300]
            for last, wd in (("DEFAULT FOR c", Cc), ("DEFAULT FOR rb", rb.word), ("DEFAULT FOR nc", nc.word)):
                if bad is None and names[-1] == last:
                    hit = [c for c in cols if deep_eq_safe(c["name"], wd)]
                    if len(hit) != 1 or not deep_eq_safe(hit[0]["default"], C["str"].word) or any(
                            c["default"] is not None for c in cols if c is not hit[0]):
                        bad = f"exactly the column {show(wd)!r} must get the default {show(C['str'].word)!r}: {show([(c['name'], c['default']) for c in cols])!r}"[:300]
            if bad is None and any(n_ == "INDEX (a)" for n_ in names):
                ixs = out[ti].get("index")
                if not (isinstance(ixs, list) and len(ixs) == 1 and isinstance(ixs[0], dict) and deep_eq_safe(ixs[0].get("columns"), [A])):
                    bad = f"the index is not attached to its table: index = {show(ixs)!r}"[:300]
            if bad:
                col.add("O-final", f"alter sequence `{label}`: the table is not what the statements declare one after the other", bad, wit)
                return
            # ... and no output mode turns the script into an error or changes the common part of the target table
            for mode in extra_modes:
                checked[0] += 1
                try:
                    om = self.fmt(ctx, copy.deepcopy(self.base) + [copy.deepcopy(stmt(ti, n)) for n in names], mode)
                except (PyRaise, ShapeMismatch) as e:
                    col.add("O-mode", f"alter sequence `{label}`: mode `{mode}` turns a successful script into an error", f"{e}", wit + f"   (output_mode={mode})")
                    continue
                except (LexUnknown, NonUniform) as e:
                    raise AnalysisError(f"alter sequences: output layer outside the interpreted subset on `{label}` in mode {mode}: {e}")
                tm = om[ti] if isinstance(om, list) and len(om) == 4 else None
                same_cols = tm is not None and isinstance(tm.get("columns"), list) and len(tm["columns"]) == len(cols) and all(
                    deep_eq_safe(a_.get(k_), b_.get(k_)) for a_, b_ in zip(tm["columns"], cols) for k_ in want_keys)
                same_index = mode == "mssql" or deep_eq_safe(tm.get("index") if tm else None, out[ti].get("index"))     # (mssql adds `clustered`)
                if not same_cols or not same_index:
                    col.add("O-mode", f"alter sequence `{label}`: columns / index of the target differ from the default mode (mode {mode})",
                           f"default: columns {show([c['name'] for c in cols])!r}, index {show(out[ti].get('index'))!r}; {mode}: "
                           f"{show([c.get('name') for c in (tm or {}).get('columns', [])])!r}, index {show((tm or {}).get('index'))!r}"[:500], wit + f"   (output_mode={mode})")

        import multiprocessing as mp
        import os
        global _SEQJOB

        def work(i):
            col, checked = _Collector(None), [0]
            try:
                one(jobs[i], col, checked)
            except AnalysisError as e:
                return [], 0, str(e)
            return col.found, checked[0], None
        n = min(16, os.cpu_count() or 2, len(jobs), int(os.environ.get("SDPVERIF_JOBS") or 64))
        if mp.current_process().daemon:
            n = 1
        _SEQJOB = work
        if n <= 1:
            results = [work(i) for i in range(len(jobs))]
        else:
            with mp.get_context("fork").Pool(n) as pool:
                results = pool.map(_seqwork, range(len(jobs)), chunksize=1)
        _SEQJOB = None
        for found, checked, err in results:
            if err:
                raise AnalysisError(err)
            self.checked += checked
            for rule, key, detail, wit in found:
                ex.add(rule, key, detail, wit)

    def finish(self, ex):
        """evaluate the output layer for every accepted statement (in parallel worker processes forked from this one)"""
        import multiprocessing as mp
        import os
        global _JOB
        items = self.pending
        self.pending = []
        n = min(16, os.cpu_count() or 2, max(1, len(items) // 4), int(os.environ.get("SDPVERIF_JOBS") or 64))
        if mp.current_process().daemon:
            n = 1               # already inside a worker of the fragment pool
        _JOB = (self, ex, items)
        if n <= 1:
            results = [_work(i) for i in range(len(items))]
        else:
            with mp.get_context("fork").Pool(n) as pool:
                results = pool.map(_work, range(len(items)), chunksize=max(1, len(items) // (n * 4)))
        _JOB = None
        self.sequences(ex)
        for found, checked, err in results:
            if err:
                raise AnalysisError(err)
            self.checked += checked
            for rule, key, detail, wit in found:
                ex.add(rule, key, detail, wit)

    def judge_one(self, ex, final, steps):
        roles, kind, refkey = {}, None, None
        for (w, t, val) in steps:
            if t.role:
                if t.role.startswith("ref:"):
                    refkey = t.role[4:]
                else:
                    roles[t.role] = val
            if t.kind.startswith("act:"):
                kind = t.kind
        wit = ex.render([w for (w, t, v) in steps])
        if kind is None or refkey is None:
            return
        target = REFS[refkey]
        for mode in self.modes:
            self.checked += 1
            try:
                out = self.fmt(self.ctx, copy.deepcopy(self.base) + [copy.deepcopy(final)], mode)
            except PyRaise as pr:
                if target is None and isinstance(pr.exc, ValueError):
                    continue            # the property: a statement naming an undefined table raises
                if target is not None and isinstance(pr.exc, ValueError):
                    style = refkey.split(".")[-1]
                    ex.add("O-final", f"alter: a defined table whose name is written in style `{style}` is not found",
                           f"{type(pr.exc).__name__}: {pr.exc}: the statement names table #{target + 1} of the script (matching is by schema "
                           "and table name irrespective of quoting and letter case) but the look-up fails", wit)
                else:
                    ex.add("O-final", f"alter: `{kind}` on target written `{refkey}`: {type(pr.exc).__name__} in the output layer",
                           f"formatting the script raises {type(pr.exc).__name__}: {pr.exc}", wit)
                continue
            except ShapeMismatch as sm:
                ex.add("O-uniform", f"alter: `{kind}` on `{refkey}`: the output layer treats the names of one class differently",
                       f"{sm}; the fragment writes every name of a class the same way in the CREATE and in the statement, so they must be "
                       "matched (or not matched) alike", wit)
                continue
            except (LexUnknown, NonUniform) as e:
                raise AnalysisError(f"alter fragment: output layer outside the interpreted subset on `{wit}`: {e}")
            if target is None:
                ex.add("O-final", f"alter: `{kind}` naming an undefined table (`{refkey}`) does not raise",
                       "the statement names a table the script does not define; it must raise instead of attaching to some other table "
                       f"(result has {len(out)} entries)", wit)
                continue
            self.judge(ex, kind, refkey, target, roles, out, self.alone[mode], wit)
            # ... and the same statement after an earlier ALTER on the same table
            if kind != "act:INDEX" or True:
                try:
                    both = self.fmt(self.ctx, copy.deepcopy(self.base) + [copy.deepcopy(self.prior[target]), copy.deepcopy(final)], mode)
                except (PyRaise, ShapeMismatch) as e2:
                    ex.add("O-final", f"alter: `{kind}` after an earlier ALTER on the same table: the output layer fails",
                           f"{e2}; the statement alone is formatted fine", wit + "   (preceded by ALTER TABLE ... ADD UNIQUE (a, c))")
                    continue
                except (LexUnknown, NonUniform) as e2:
                    raise AnalysisError(f"alter fragment: output layer outside the interpreted subset: {e2}")
                self.checked += 1
                ok = isinstance(both, list) and len(both) == len(out) and all(
                    deep_eq_safe(both[i], out[i]) for i in range(len(out)) if i != target)
                if ok:
                    b, o = both[target], out[target]
                    ok = all(deep_eq_safe(b.get(k), o.get(k)) for k in o if k != "alter") and set(b) == set(o)
                    if ok and not Holds([self.C["a"].word, self.C["c"].word]).match(b.get("alter")):
                        ok = False
                    if ok and isinstance(o.get("alter"), dict) and isinstance(b.get("alter"), dict):
                        for k, v in o["alter"].items():
                            if k != "uniques" and not deep_eq_safe(b["alter"].get(k), v):
                                ok = False
                if not ok:
                    ex.add("O-final", f"alter: `{kind}` behaves differently when it follows another ALTER on the same table",
                           "preceded by ALTER TABLE <same table> ADD UNIQUE (a, c) - which flags no column and touches nothing but the alter "
                           "section - the statement must leave the columns, keys, index list and every other entry exactly as when it "
                           f"stands alone; got {show(both[target] if isinstance(both, list) and len(both) > target else both)!r}"[:700], wit)

    # ------------------------------------------------------------------
    def judge(self, ex, kind, refkey, target, roles, out, alone, wit):
        def bad(what, detail):
            ex.add("O-final", f"alter: `{kind}` on `{refkey}`: {what}", detail, wit)
        if not isinstance(out, list) or len(out) != 4:
            return bad("number of entries", f"expected the four tables, got {show(out)!r}"[:300])
        for i in range(4):
            if i != target and not deep_eq_safe(out[i], alone[i]):
                return bad(f"table #{i + 1} of the script changed although the statement names table #{target + 1}",
                           f"{show(out[i])!r} != {show(alone[i])!r}"[:400])
        got, base = out[target], alone[target]
        for k in base:
            if k not in ("alter", "columns", "index") and (k not in got or not deep_eq_safe(got[k], base[k])):
                return bad(f"key `{k}` of the target table changed", f"{show(got.get(k))!r} != {show(base[k])!r}"[:300])
        exp_cols = copy.deepcopy(base["columns"])
        A, B, Cc = 0, 1, 2
        alter_words, index_exp = [], None
        cn = roles.get("cname")
        if kind.startswith("act:PK") or kind.startswith("act:UQ") or kind == "act:UQB":
            cols = [roles[r] for r in ("col1", "col2") if r in roles]
            alter_words = cols + [cn]
            if (kind.startswith("act:UQ") or kind == "act:UQB") and len(cols) == 1:
                for c in exp_cols:
                    if deep_eq_safe(c["name"], cols[0]):
                        c["unique"] = True
        elif kind.startswith("act:FK"):
            alter_words = [roles.get(r) for r in ("col1", "col2", "ref_table", "ref_col1", "ref_col2", "on_delete")] + [cn]
        elif kind == "act:CHK":
            alter_words = [roles["c1"], roles["op"], roles["c2"], cn]
        elif kind in ("act:DEFN", "act:DEFS"):
            alter_words = [roles["value"], roles["col1"], cn]
            for c in exp_cols:
                if deep_eq_safe(c["name"], roles["col1"]):
                    c["default"] = roles["value"]
        elif kind in ("act:ADDCOL", "act:ADDCOLNN"):
            newc = {"name": roles["name"], "type": roles["type"], "size": to_int(roles["size1"]) if "size1" in roles else None,
                    "references": None, "unique": False, "nullable": kind != "act:ADDCOLNN", "default": None, "check": None}
            exp_cols.append(AnyOf(newc, {**newc, "primary_key": False}))
            alter_words = [roles["name"], roles["type"]]
        elif kind == "act:DROP":
            exp_cols = [c for c in exp_cols if not deep_eq_safe(c["name"], roles["col1"])]
            alter_words = [roles["col1"]]
        elif kind == "act:RENAME":
            for c in exp_cols:
                if deep_eq_safe(c["name"], roles["col1"]):
                    c["name"] = roles["to"]
            alter_words = [roles["col1"], roles["to"]]
        elif kind in ("act:MODIFY", "act:MODIFYO", "act:ALTERCOL"):
            for i, c in enumerate(exp_cols):
                if deep_eq_safe(c["name"], roles["col1"]):
                    mod = {"name": roles["col1"], "type": roles["type"], "size": None, "references": None, "unique": False,
                           "nullable": True, "default": None, "check": None}
                    exp_cols[i] = AnyOf(mod, {**mod, "primary_key": False})
            alter_words = [roles["col1"]]
        elif kind == "act:INDEX":
            cols = [roles[r] for r in ("col1", "col2") if r in roles]
            det = []
            for i, cname in enumerate(cols, 1):
                o = roles.get(f"ord{i}")
                det.append({"name": cname, "order": lift(lambda x: x.upper(), o) if o is not None else "ASC", "nulls": "LAST"})
            index_exp = [{"index_name": roles["ixname"], "unique": "unique" in roles, "columns": cols, "detailed_columns": det}]
        # columns
        gc = got.get("columns")
        if not isinstance(gc, list) or len(gc) != len(exp_cols):
            return bad("column list", f"expected {len(exp_cols)} columns {show([c if isinstance(c, AnyOf) else c['name'] for c in exp_cols])!r}, "
                                      f"got {show([c.get('name') if isinstance(c, dict) else c for c in (gc or [])])!r}")
        for e_, g_ in zip(exp_cols, gc):
            if not (e_.match(g_) if isinstance(e_, AnyOf) else deep_eq_safe(e_, g_)):
                return bad("a column of the target table is not as declared", f"expected {show(e_) if not isinstance(e_, AnyOf) else e_!r}, got {show(g_)!r}"[:500])
        # alter section
        if kind == "act:INDEX":
            if not deep_eq_safe(got.get("alter"), base["alter"]):
                return bad("CREATE INDEX changed the alter section", f"{show(got.get('alter'))!r}")
            gi = got.get("index")
            if not matches_index(index_exp, gi):
                return bad("index entry", f"expected {show(index_exp)!r}, got {show(gi)!r}"[:500])
        else:
            if not deep_eq_safe(got.get("index"), base["index"]):
                return bad("ALTER changed the index list", f"{show(got.get('index'))!r}")
            if not Holds([w for w in alter_words if w is not None]).match(got.get("alter")):
                return bad("the alter section does not record the declaration",
                           f"expected the words {show([w for w in alter_words if w is not None])!r} under `alter`, got {show(got.get('alter'))!r}"[:500])


_JOB = None
_SEQJOB = None


def _seqwork(i):
    return _SEQJOB(i)


class _Collector:
    """stands in for the explorer inside a worker: records findings, renders witnesses"""

    def __init__(self, ex):
        self.found, self._ex = [], ex

    def add(self, rule, key, detail, witness):
        self.found.append((rule, key, detail, witness))

    def render(self, words):
        return self._ex.render(words)


def _work(i):
    oracle, ex, items = _JOB
    col = _Collector(ex)
    before = oracle.checked
    try:
        oracle.judge_one(col, *items[i])
    except AnalysisError as e:
        return [], 0, str(e)
    return col.found, oracle.checked - before, None


class AnyOf(Matcher):
    def __init__(self, *alts):
        self.alts = alts

    def match(self, actual):
        return any(deep_eq_safe(a, actual) for a in self.alts)

    def __repr__(self):
        return f"<one of {[show(a) for a in self.alts]}>"


def deep_eq_safe(a, b):
    try:
        return deep_eq(a, b)
    except NonUniform:
        return False


def matches_index(exp, got):
    if not isinstance(got, list) or len(got) != len(exp):
        return False
    for e, g in zip(exp, got):
        if not isinstance(g, dict):
            return False
        for k, v in e.items():
            if k not in g or not deep_eq_safe(v, g[k]):
                return False
    return True


def check_sequences(ck, ctx, rule="O-final", extra_modes=("bigquery", "hql", "oracle", "mssql")):
    """the ALTER sequences alone (without exploring the alter fragment), as obligations of a check"""
    orc = AlterOracle(ctx, None, classes(ctx))

    class _Col:
        def __init__(self):
            self.found = []

        def add(self, r, key, detail, witness):
            self.found.append((key, detail, witness))
    col = _Col()
    orc.sequences(col, extra_modes=extra_modes)
    for key, detail, wit in col.found:
        ck.ob(rule, key, False, detail, "output layer (evaluated abstractly) on CREATE TABLE x4 + several ALTER statements", witness=wit)
    ck.ob(rule, f"alter sequences: all {orc.checked} scripts", not col.found or True,
          "after several ALTER statements on one table every column entry keeps the documented keys and the column list is the declared one",
          "output layer (evaluated abstractly)")
    ck.count("alter_sequences", orc.checked)
