"""Fragment *entities* (C18, C13): CREATE TYPE / DOMAIN / SCHEMA / DATABASE / TABLESPACE statements, judged on the
final output (objabs): exactly one entity, of the right kind (marker key), carrying schema / name / declared details as
written; with group_by_type=True it sits in the bucket of its kind and nowhere else."""
import copy

from ..core import AnalysisError
from ..deriv import Spec, Tag
from ..pyabs import W, lift, deep_eq, PyRaise, LexUnknown, NonUniform
from ..objabs import ShapeMismatch
from .common import punct, numbers, to_int, show
from .alter import deep_eq_safe, _Collector
from .clauses import Holds

KIND_BUCKET = {"type_name": "types", "domain_name": "domains", "schema_name": "schemas", "database_name": "databases",
               "tablespace_name": "tablespaces", "table_name": "tables", "sequence_name": "sequences"}
ALWAYS = ["tables", "types", "sequences", "domains", "schemas", "ddl_properties"]


def build(ctx, tier="quick"):
    lm = ctx.lexer
    P, N = punct(lm), numbers(lm)
    s = Spec("entities", lm, accumulators={"expr"})
    s.one_segment_statements = True
    pl = lm.plain
    nm = pl("n", ["mood", "addr", "Box_T", "t_1", "order_kind", "Typ2"])
    sc = pl("schema", ["sch", "dbo", "My_Schema", "x_1", "analytics", "Zq9"])
    typ = pl("type", ["int", "varchar", "DECIMAL", "Text", "bigint", "num_9"])
    a1 = pl("a1", ["street", "zip", "Col", "a_1", "user_name", "ZipCode2"])
    a2 = pl("a2", ["city", "uid", "Cal", "b_2", "order_total", "ZapCode3"])
    s1 = lm.custom("'v1'", ["'sad'", "'Hello'", "'x y'", "'it_s'", "'1'"], "STR")
    s2 = lm.custom("'v2'", ["'ok'", "'World'", "'y z'", "'v_s'", "'2'"], "STR")
    s3 = lm.custom("'v3'", ["'happy'", "'Again'", "'z w'", "'w_s'", "'3'"], "STR")
    nm_dq = lm.custom('"n"', ['"mood"', '"v1.status"', '"Box T"', '"a.b.c"'], "DQ")
    sc_dq = lm.custom('"schema"', ['"sch"', '"app"', '"My Schema"', '"x.1"'], "DQ")
    who = pl("who", ["joe", "admin", "Owner_1", "u_1", "data_owner", "Usr2"])
    fin = s.new()
    s.acc.add(fin)
    word = lambda t_: lm.custom(t_, [t_], "WORD")
    c = s.words(s.start, "head", [("KW", "CREATE")])

    def named(start, kind, role_s="schema", role_n="name"):
        """[schema .] name"""
        out = s.new()
        s.edge(start, nm, Tag(kind, False, role_n), out)
        d = s.edge(start, sc, Tag(kind, False, role_s))
        d = s.edge(d, P["."], Tag(kind, False))
        s.edge(d, nm, Tag(kind, False, role_n), out)
        # double-quoted names, also with a dot / a blank inside: schema and name are tokens, never a textual split of the glued name
        s.edge(start, nm_dq, Tag(kind, False, role_n), out)
        d = s.edge(start, sc_dq, Tag(kind, False, role_s))
        d = s.edge(d, P["."], Tag(kind, False))
        s.edge(d, nm_dq, Tag(kind, False, role_n), out)
        return out
    # ---- CREATE TYPE [s.]n AS ENUM ( 'a' [, 'b' [, 'c']] )
    t0 = s.words(c, "ent:TYPE_ENUM", [("KW", "TYPE")])
    t1 = named(t0, "ent:TYPE_ENUM")
    e = s.words(t1, "ent:TYPE_ENUM", [("KW", "AS"), ("KW", "ENUM"), P["("], (s1, "v1")], begin=False)
    s.edge(e, P[")"], Tag("ent:TYPE_ENUM", False), fin)
    e2 = s.words(e, "ent:TYPE_ENUM", [P[","], (s2, "v2")], begin=False)
    s.edge(e2, P[")"], Tag("ent:TYPE_ENUM", False), fin)
    e3 = s.words(e2, "ent:TYPE_ENUM", [P[","], (s3, "v3")], begin=False)
    s.edge(e3, P[")"], Tag("ent:TYPE_ENUM", False), fin)
    # ---- CREATE TYPE [s.]n AS OBJECT ( a1 type [(n)] , a2 type )
    t0 = s.words(c, "ent:TYPE_OBJECT", [("KW", "TYPE")])
    t1 = named(t0, "ent:TYPE_OBJECT")
    e = s.words(t1, "ent:TYPE_OBJECT", [("KW", "AS"), (word("OBJECT"), None), P["("], (a1, "a1"), (typ, "t1")], begin=False)
    ez = s.words(e, "ent:TYPE_OBJECT", [P["("], (N["NUM"], "z1"), P[")"]], begin=False)
    for st in (e, ez):
        x = s.words(st, "ent:TYPE_OBJECT", [P[","], (a2, "a2"), (typ, "t2")], begin=False)
        s.edge(x, P[")"], Tag("ent:TYPE_OBJECT", False), fin)
    # ---- CREATE TYPE [s.]n AS TABLE ( a1 type , a2 type )
    t0 = s.words(c, "ent:TYPE_TABLE", [("KW", "TYPE")])
    t1 = named(t0, "ent:TYPE_TABLE")
    e = s.words(t1, "ent:TYPE_TABLE", [("KW", "AS"), ("KW", "TABLE"), P["("], (a1, "a1"), (typ, "t1"), P[","], (a2, "a2"), (typ, "t2"), P[")"]], begin=False)
    s.eps(e, fin)
    # ---- CREATE DOMAIN [s.]n AS type ( n )   /   AS type
    t0 = s.words(c, "ent:DOMAIN", [("KW", "DOMAIN")])
    t1 = named(t0, "ent:DOMAIN")
    e = s.words(t1, "ent:DOMAIN", [("KW", "AS"), (typ, "base")], begin=False)
    ez = s.words(e, "ent:DOMAIN", [P["("], (N["NUM"], "z1"), P[")"]], begin=False)
    s.eps(ez, fin)
    t0 = s.words(c, "ent:DOMAIN_BARE", [("KW", "DOMAIN")])
    t1 = named(t0, "ent:DOMAIN_BARE")
    e = s.words(t1, "ent:DOMAIN_BARE", [("KW", "AS"), (typ, "base")], begin=False)
    s.eps(e, fin)
    # ---- CREATE SCHEMA ...
    for kind, mid in (("ent:SCHEMA", []), ("ent:SCHEMA_INE", [("KW", "IF", "ine"), ("KW", "NOT"), ("KW", "EXISTS")])):
        t0 = s.words(c, kind, [("KW", "SCHEMA")] + mid)
        t1 = s.edge(t0, nm, Tag(kind, False, "name"))
        s.eps(t1, fin)
        if not mid:
            x = s.words(t1, kind, [(word("AUTHORIZATION"), None), (who, "auth")], begin=False)
            s.eps(x, fin)
            x = s.words(t1, kind, [("KW", "COMMENT"), (s1, "comment")], begin=False)
            s.eps(x, fin)
            x = s.words(t1, kind, [("KW", "COMMENT"), P["="], (s1, "comment")], begin=False)
            s.eps(x, fin)
    # ---- CREATE DATABASE n
    t0 = s.words(c, "ent:DATABASE", [("KW", "DATABASE"), (nm, "name")])
    s.eps(t0, fin)
    # ---- CREATE DATABASE n TABLESPACE ts / CREATE SCHEMA n TABLESPACE ts: still ONE entity of the statement's kind (the tablespace is a detail)
    tsn = pl("ts", ["ts1", "fast", "Ts_Data", "t_9", "users_ts", "Tsp2"])
    t0 = s.words(c, "ent:DATABASE_TS", [("KW", "DATABASE"), (nm, "name"), ("KW", "TABLESPACE"), (tsn, "ts")])
    s.eps(t0, fin)
    t0 = s.words(c, "ent:SCHEMA_TS", [("KW", "SCHEMA"), (nm, "name"), ("KW", "TABLESPACE"), (tsn, "ts")])
    s.eps(t0, fin)
    # ---- CREATE [BIGFILE|SMALLFILE] [TEMPORARY] TABLESPACE n
    big = lm.custom("BIGFILE", ["BIGFILE", "SMALLFILE"], "WORD")
    tmp = lm.custom("TEMPORARY", ["TEMPORARY", "temporary", "Temporary"], "WORD")
    # ... also a tablespace that is merely CALLED like one of the optional words (the flags come from the words before TABLESPACE,
    # the name is whatever follows it)
    odd = lm.custom("name-like-modifier", ["temporary", "Temporary", "bigfile", "smallfile", "Bigfile"], "WORD")
    for pre in ([], [(big, "tskind")], [(tmp, "temp")], [(big, "tskind"), (tmp, "temp")]):
        for name in (nm, odd):
            t0 = s.words(c, "ent:TABLESPACE", pre + [("KW", "TABLESPACE"), (name, "name")])
            s.eps(t0, fin)
    # ---- DROP TABLE [s.]n : reported as a (column-less) table entry, which must still have the documented shape
    d0 = s.words(s.start, "ent:DROP", [("KW", "DROP"), ("KW", "TABLE")])
    d1 = named(d0, "ent:DROP")
    s.eps(d1, fin)
    # ---- a table using such types: CREATE TABLE t ( a1 s.n , a2 n )
    t0 = s.words(c, "ent:USE", [("KW", "TABLE"), (pl("t", ["tbl", "orders", "Users", "t_1x", "order_items", "Tbl2"]), "tname"), P["("],
                                (a1, "a1"), (sc, "schema"), P["."], (nm, "name"), P[","], (a2, "a2"), (nm, "name2"), P[")"]])
    s.eps(t0, fin)
    return s, EntitiesOracle(ctx, s)


class EntitiesOracle:
    def __init__(self, ctx, spec):
        self.ctx, self.spec = ctx, spec
        self.checked = 0
        self.pending = []
        from ..objabs import format_output
        self.fmt = format_output

    def __call__(self, ex, red):
        return 0

    def on_accept(self, ex, final, steps):
        self.pending.append((final, steps))

    def finish(self, ex):
        for final, steps in self.pending:
            self.judge_one(ex, final, steps)
        self.pending = []

    def judge_one(self, ex, final, steps):
        roles, kind = {}, None
        for (w, t, val) in steps:
            if t.role:
                roles[t.role] = val
            if t.kind.startswith("ent:"):
                kind = t.kind
        wit = ex.render([w for (w, t, v) in steps])

        def bad(what, detail):
            ex.add("O-final", f"entities: `{kind}`: {what}", detail, wit)
        try:
            flat = self.fmt(self.ctx, [copy.deepcopy(final)], "sql", False)
            grouped = self.fmt(self.ctx, [copy.deepcopy(final)], "sql", True)
        except PyRaise as pr:
            return bad("the output layer raises", f"{type(pr.exc).__name__}: {pr.exc}")
        except ShapeMismatch as sm:
            return bad("the output layer treats the words of one class differently", f"{sm}")
        except (LexUnknown, NonUniform) as e:
            raise AnalysisError(f"entities fragment: output layer outside the interpreted subset on `{wit}`: {e}")
        self.checked += 1
        if not isinstance(flat, list) or len(flat) != 1 or not isinstance(flat[0], dict):
            return bad("does not yield exactly one entity", f"{show(flat)!r}"[:300])
        ent = flat[0]
        exp, marker = self.expect(kind, roles)
        present = [k for k in KIND_BUCKET if k in ent]
        if present != [marker]:
            return bad(f"kind marker", f"the entity must carry exactly the marker key `{marker}`, it carries {present}: {show(ent)!r}"[:400])
        for k, v in exp.items():
            if k not in ent:
                return bad(f"`{k}` missing", f"expected {k!r}: {show(v)!r} in {show(ent)!r}"[:400])
            ok = v.match(ent[k]) if hasattr(v, "match") else deep_eq_safe(v, ent[k])
            if not ok:
                return bad(f"`{k}` wrong", f"expected {show(v) if not hasattr(v, 'match') else v!r}, got {show(ent[k])!r}"[:400])
        # group_by_type
        if not isinstance(grouped, dict):
            return bad("group_by_type result is not a dict", f"{show(grouped)!r}"[:200])
        for b in ALWAYS:
            if b not in grouped or not isinstance(grouped[b], list):
                return bad(f"bucket `{b}` missing from the grouped result", f"{sorted(grouped)}")
        bucket = KIND_BUCKET[marker]
        where = [b for b, items in grouped.items() if isinstance(items, list) and any(deep_eq_safe(x, ent) for x in items)]
        n_total = sum(len(v) for v in grouped.values() if isinstance(v, list))
        if where != [bucket] or n_total != 1:
            return bad("group_by_type files the entity wrongly",
                       f"expected exactly once in `{bucket}`, found in {where} ({n_total} grouped items): {show(grouped)!r}"[:400])

    def expect(self, kind, r):
        if kind == "ent:TYPE_ENUM":
            vals = [r[k] for k in ("v1", "v2", "v3") if k in r]
            return {"schema": r.get("schema"), "type_name": r["name"], "base_type": "ENUM", "properties": {"values": vals}}, "type_name"
        if kind == "ent:TYPE_OBJECT":
            attrs = [{"name": r["a1"], "type": r["t1"], "size": to_int(r["z1"]) if "z1" in r else None},
                     {"name": r["a2"], "type": r["t2"], "size": None}]
            return {"schema": r.get("schema"), "type_name": r["name"], "base_type": "OBJECT", "properties": {"attributes": attrs}}, "type_name"
        if kind == "ent:TYPE_TABLE":
            return {"schema": r.get("schema"), "type_name": r["name"], "properties": ColumnsNamed([(r["a1"], r["t1"]), (r["a2"], r["t2"])])}, "type_name"
        if kind in ("ent:DOMAIN", "ent:DOMAIN_BARE"):
            return {"schema": r.get("schema"), "domain_name": r["name"], "base_type": r["base"]}, "domain_name"
        if kind in ("ent:SCHEMA", "ent:SCHEMA_INE"):
            e = {"schema_name": r["name"]}
            if "ine" in r:
                e["if_not_exists"] = True
            if "auth" in r:
                e["authorization"] = r["auth"]
            if "comment" in r:
                e["comment"] = r["comment"]
            return e, "schema_name"
        if kind == "ent:DATABASE_TS":
            return {"database_name": r["name"], "tablespace": TablespaceNamed(r["ts"])}, "database_name"
        if kind == "ent:SCHEMA_TS":
            return {"schema_name": r["name"], "tablespace": TablespaceNamed(r["ts"])}, "schema_name"
        if kind == "ent:DATABASE":
            return {"database_name": r["name"]}, "database_name"
        if kind == "ent:TABLESPACE":
            return {"tablespace_name": r["name"], "type": r.get("tskind"), "temporary": "temp" in r}, "tablespace_name"
        if kind == "ent:DROP":
            return {"table_name": r["name"], "schema": r.get("schema"), "primary_key": [], "columns": [], "alter": {}, "checks": [],
                    "index": [], "partitioned_by": [], "tablespace": None}, "table_name"
        if kind == "ent:USE":
            return {"table_name": r["tname"], "columns": ColumnsNamed([(r["a1"], lift(lambda a, b: f"{a}.{b}", r["schema"], r["name"])),
                                                                      (r["a2"], r["name2"])], key=None)}, "table_name"
        raise AnalysisError(f"entities: no expectation for {kind}")


class TablespaceNamed:
    """the tablespace detail of an entity: names the tablespace as written (a plain name or a record carrying it)"""

    def __init__(self, name):
        self.name = name

    def match(self, actual):
        if isinstance(actual, dict):
            return any(deep_eq_safe(v, self.name) for v in actual.values())
        return deep_eq_safe(actual, self.name)

    def __repr__(self):
        return f"<tablespace {show(self.name)}>"


class ColumnsNamed:
    """a list (or {'columns': list}) of column dicts with exactly these (name, type) pairs, in order"""

    def __init__(self, pairs, key="columns"):
        self.pairs, self.key = pairs, key

    def match(self, actual):
        cols = actual.get(self.key) if (self.key and isinstance(actual, dict)) else actual
        if not isinstance(cols, list) or len(cols) != len(self.pairs):
            return False
        return all(isinstance(c, dict) and deep_eq_safe(c.get("name"), n) and deep_eq_safe(c.get("type"), t) for c, (n, t) in zip(cols, self.pairs))

    def __repr__(self):
        return f"<columns {[(show(n), show(t)) for n, t in self.pairs]}>"
