"""The seam between the line pre-processing (L1, E7) and the lexer / grammar fixed points (E3 x E4).

Every E4 fragment explores statements as sequences of word classes "separated as pre_process_data intends".  Here that
assumption is discharged for the sentences of the fragment specs themselves: an edge cover of each spec NFA is rendered as
one-statement scripts and pushed through the abstractly evaluated line formation + line machine.

  O-canon : the canonical rendering (one blank between words) reaches the grammar unchanged (blanks aside);
  O-glue  : the rendering with commas / parentheses / equals signs glued to their neighbours reaches the grammar as the same
            text (blanks aside) - "none around commas and parentheses" of C05;
  O-break : the rendering with a line break after every comma / opening parenthesis (and before a closing one) gives the same."""
import collections
import importlib

from ..core import AnalysisError
from ..linemodel import LineMachine
from ..pyabs import W, PyRaise, Raised, NonUniform, LexUnknown

GLUE = {"(", ")", ",", "="}
WIDTH = 6
# a line may not start with one of these inside a statement (C05 excludes it; C03 / the line machine treat them as statement starts)
LINE_WORDS = {"CREATE", "ALTER", "DROP", "SET", "GO", "USE", "INSERT", "GRANT", "DELETE"}


def lexemes(lexer_model, text):
    """the pieces PLY's scanner cuts `text` into: rules tried in PLY's order at every position, t_ignore characters skipped.
    No lexer rule of the package looks at the position or at the surrounding text (checked by the caller), so two texts with
    the same lexeme sequence are the same input for everything downstream."""
    out, pos, n = [], 0, len(text)
    ign = lexer_model.t_ignore
    while pos < n:
        if text[pos] in ign:
            pos += 1
            continue
        for name, rx in lexer_model.compiled:
            m = rx.match(text, pos)
            if m and m.end() > pos:
                out.append(text[pos:m.end()])
                pos = m.end()
                break
        else:
            out.append("<no rule> " + text[pos:])
            break
    return tuple(out)


def edge_cover(spec, limit=4000):
    """sentences (lists of word classes) such that every word edge of the spec NFA lies on one of them"""
    # shortest word-path from the start to every state
    first = {spec.start: []}
    dq = collections.deque([spec.start])
    while dq:
        a = dq.popleft()
        for wc, tag, b in spec.e[a]:
            if b not in first:
                first[b] = first[a] + ([wc] if wc is not None else [])
                dq.append(b)
    # shortest word-path from every state to an accepting state (backwards BFS)
    rev = collections.defaultdict(list)
    for a in list(spec.e):
        for wc, tag, b in spec.e[a]:
            rev[b].append((wc, a))
    last = {q: [] for q in spec.acc}
    dq = collections.deque(spec.acc)
    while dq:
        b = dq.popleft()
        for wc, a in rev[b]:
            if a not in last:
                last[a] = ([wc] if wc is not None else []) + last[b]
                dq.append(a)
    out, seen = [], set()
    for a in list(spec.e):
        if a not in first:
            continue
        for wc, tag, b in spec.e[a]:
            if wc is None or b not in last:
                continue
            sent = first[a] + [wc] + last[b]
            if any("pars_m_" in e for x in sent for e in x.exemplars):
                continue        # a word written as the pre-processor LEAVES it (placeholder for an escaped quote) is not script text
            key = tuple(id(x) for x in sent)
            if key not in seen:
                seen.add(key)
                out.append((wc, sent))
                if len(out) >= limit:
                    return out
    return out


def _ex(wc, i):
    e = wc.exemplars
    return e[i % len(e)]


def render(sent, mode):
    """six exemplar scripts of one sentence"""
    texts = []
    for i in range(WIDTH):
        words = [_ex(wc, i) for wc in sent]
        if mode == "canon":
            t = " ".join(words)
        elif mode == "glue":
            t = ""
            for k, wd in enumerate(words):
                if k and not (wd in GLUE or words[k - 1] in GLUE):
                    t += " "
                t += wd
        elif mode == "break":
            t = ""
            for k, wd in enumerate(words):
                if k:
                    t += "\n  " if (words[k - 1] in ("(", ",") or wd == ")") and wd.upper() not in LINE_WORDS else " "
                t += wd
        elif mode == "comma-first":
            t = ""
            for k, wd in enumerate(words):
                if k:
                    t += "\n  " if wd == "," else " "
                t += wd
        elif mode == "word-per-line":
            t = ""
            for k, wd in enumerate(words):
                if k:
                    # (a literal stays on the line of the word before it: a one-word line followed by a line that starts with a literal
                    # is the separate O-form case `a word alone on its line, then a literal`)
                    t += "\n" if wd.upper() not in LINE_WORDS and wd[:1] not in ("'", '"') else " "
                t += wd
        else:
            raise AnalysisError(mode)
        texts.append(t + ";\n")
    return W(texts) if len(set(texts)) > 1 else texts[0]


_LEX = [None]


def nws(v):
    """per exemplar: the lexeme sequence of the text"""
    lx = _LEX[0]
    if isinstance(v, W):
        return tuple(lexemes(lx, x) for x in v.ex)
    return (lexemes(lx, v),) * WIDTH


def l1(lm, text):
    """the statements the line pre-processing hands to the grammar for the script(s) `text`, per exemplar"""
    def run(t):
        return list(lm.run_script(t)[0])
    try:
        h = run(text)
        if len(h) != 1:
            return None, f"{len(h)} statements handed over"
        return nws(h[0]), None
    except NonUniform:
        pass
    outs = []
    for i in range(WIDTH):
        h = run(text.ex[i] if isinstance(text, W) else text)
        if len(h) != 1:
            return None, f"{len(h)} statements handed over for {text.ex[i] if isinstance(text, W) else text!r}"
        outs.append(lexemes(_LEX[0], h[0]))
    return tuple(outs), None


def check_seam(ck, ctx, fragments, rules=("O-canon", "O-glue", "O-break")):
    lm = LineMachine(ctx)
    _LEX[0] = ctx.lexer
    _no_position_reads(ctx)
    totals = collections.Counter()
    for module, kw in fragments:
        mod = importlib.import_module(f"sdpverif.specs.{module}")
        kw = dict(kw)
        label = kw.pop("label", None) or (module + (":" + str(kw.get("group")) if kw.get("group") else ""))
        spec, _oracle = mod.build(ctx, tier=ck.tier, **kw)
        cover = edge_cover(spec)
        if not cover:
            raise AnalysisError(f"seam: fragment {label} has no sentence (spec without accepting path)")
        bad = {r: {} for r in rules}
        for wc, sent in cover:
            totals["sentences"] += 1
            canon = render(sent, "canon")
            want = nws(W([x[:-2] for x in canon.ex]) if isinstance(canon, W) else canon[:-2])
            try:
                got, err = l1(lm, canon)
                ref = got
                if "O-canon" in rules and (err or got != want):
                    bad["O-canon"].setdefault(_where(sent, want, got), (err or f"{_first(got, want)}", _show(canon)))
                modes = [("O-glue", "glue"), ("O-break", "break")]
                if ck.tier == "thorough":
                    modes += [("O-break", "comma-first"), ("O-break", "word-per-line")]
                for rule, mode in modes:
                    if rule not in rules or ref is None:
                        continue
                    text = render(sent, mode)
                    g2, err2 = l1(lm, text)
                    totals[rule] += 1
                    if err2 or g2 != ref:
                        bad[rule].setdefault(_where(sent, ref, g2), (err2 or f"{_first(g2, ref)}", _show(text)))
            except (PyRaise, Raised) as e:
                bad[rules[0]].setdefault(f"`{wc.name}`", (f"the line pre-processing raises: {e}", _show(canon)))
            except LexUnknown as e:
                raise AnalysisError(f"seam {label}: {e}")
        texts = {"O-canon": "the canonical rendering of the fragment's sentences (one blank between words) must reach the grammar unchanged",
                 "O-glue": "commas and parentheses glued to their neighbours must give the same statement text as the spaced rendering",
                 "O-break": "line breaks after commas / opening parentheses and before closing ones must give the same statement text"}
        for rule in rules:
            for where, (detail, wit) in bad[rule].items():
                ck.ob(rule, f"{label}: {where}", False, texts[rule] + "; " + detail, "Parser.pre_process_data / process_line (evaluated abstractly)",
                      witness=wit)
            if not bad[rule]:
                ck.ob(rule, f"{label}: all {len(cover)} sentences of the edge cover", True, texts[rule],
                      "Parser.pre_process_data / process_line (evaluated abstractly)")
    ck.count("seam_sentences", totals["sentences"])
    return totals


def _no_position_reads(ctx):
    """lexeme-sequence equality is the right equivalence only while no lexer rule / action reads the scanner position or raw text"""
    import ast
    for f in ctx.model.parser_methods().values():
        for n in ast.walk(f.node):
            if isinstance(n, ast.Attribute) and n.attr in ("lexdata", "lexpos", "lexmatch", "lexlen") and not (
                    isinstance(n.value, ast.Name) and n.value.id == "p"):
                raise AnalysisError(f"{f.loc(n)} reads the scanner's {n.attr}: lexeme-sequence equivalence is not justified")
            if isinstance(n, ast.Call) and isinstance(n.func, ast.Attribute) and n.func.attr == "skip" and \
                    isinstance(n.func.value, ast.Attribute) and n.func.value.attr == "lexer" and f.name != "t_error":
                raise AnalysisError(f"{f.loc(n)} moves the scanner position: lexeme-sequence equivalence is not justified")


def _first(got, want):
    if got is None:
        return "nothing handed over"
    for g, w_ in zip(got, want):
        if g != w_:
            return f"is scanned as {' | '.join(g)!r} instead of {' | '.join(w_)!r}"
    return ""


def _where(sent, want, got):
    """name the word classes around the first difference"""
    if got is None or want is None:
        return "statement not handed over as one"
    for i, (g, w_) in enumerate(zip(got, want)):
        if g != w_:
            gt, wt = list(g), list(w_)
            k = 0
            while k < min(len(gt), len(wt)) and gt[k] == wt[k]:
                k += 1
            # token k of the expected text belongs to which word of the sentence
            pos, j = 0, 0
            for j, wc in enumerate(sent):
                n = len(lexemes(_LEX[0], _ex(wc, i)))
                if pos + n > k:
                    break
                pos += n
            lo, hi = max(0, j - 1), min(len(sent), j + 2)
            return "near " + " ".join(f"`{wc.name}`" for wc in sent[lo:hi])
    return "?"


def _show(text):
    t = text.ex[0] if isinstance(text, W) else text
    return repr(t)[:200]
