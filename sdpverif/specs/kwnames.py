"""Fragment *kwnames* (C06): keyword-shaped words in naming positions.

CREATE TABLE [s.]<t> ( <c> type {, <c> type} ) where <c> ranges over EVERY key of every keyword table of tokens.py (both
spellings) except the clause-opening words the property lists, and <t> / <s> range over every key except IF.
Oracle: the word is the name, exactly as written (type ID, raw value; column dict / table name carry it verbatim)."""
from ..deriv import Spec, Tag
from .common import punct
from . import table as T

# from the property statement: not accepted as a column name
EXCLUDED_COLUMN = {"LIKE", "CONSTRAINT", "FOREIGN", "PRIMARY", "INDEX", "UNIQUE", "CHECK", "WITH", "CLUSTER", "BY", "KEY", "COLLATE",
                   "AUTOINCREMENT", "AUTO_INCREMENT"}
# IF opens IF NOT EXISTS; COLLATE / AUTO_INCREMENT / AUTOINCREMENT are typed by dedicated lexer rules in every position (they are
# also on the property's exception list)
EXCLUDED_TABLE = {"IF", "COLLATE", "AUTOINCREMENT", "AUTO_INCREMENT"}


def keyword_words(lm):
    return sorted(k for k in lm.all_keys if k.replace("_", "").isalnum())


def build(ctx, tier="quick", positions=("column", "table")):
    lm = ctx.lexer
    s = Spec("kwnames", lm, accumulators={"expr", "defcolumn", "table_name"})
    P = punct(lm)
    tname = lm.plain("t", ["t", "tb", "Users", "t_1", "order_items", "Tbl2"])
    sname = lm.plain("schema", ["s", "db", "My_Schema", "x_1", "analytics", "Zq9"])
    typ = lm.plain("type", ["int", "varchar", "DECIMAL", "Text", "bigint", "num_9"])
    plain_col = lm.plain("a", ["c", "id", "Col", "a_1", "user_name", "ZipCode2"])
    kws = keyword_words(lm)
    a = s.words(s.start, "head", [("KW", "CREATE"), ("KW", "TABLE")])
    heads = [s.edge(a, tname, Tag("head", False, "name"))]
    d = s.edge(a, sname, Tag("head", False, "schema"))
    d = s.edge(d, P["."], Tag("head", False))
    heads.append(s.edge(d, tname, Tag("head", False, "name")))
    if "table" in positions:
        for k in kws:
            if k in EXCLUDED_TABLE:
                continue
            for case in ("upper", "other"):
                try:
                    w = lm.kw(k, case)
                except Exception:
                    continue
                heads.append(s.edge(a, w, Tag("head", False, "name")))          # CREATE TABLE <kw> (
                s.e[d].append((w, Tag("head", False, "name"), heads[1]))        # CREATE TABLE s.<kw> (
    lp = s.new()
    for h in set(heads):
        s.edge(h, P["("], Tag("lp", True), lp)
    O = s.new()
    n1 = s.edge(lp, plain_col, Tag("col", True, "name"))
    t1 = s.edge(n1, typ, Tag("col", False, "type"), O)
    if "column" in positions:
        for k in kws:
            if k in EXCLUDED_COLUMN:
                continue
            for case in ("upper", "other"):
                try:
                    w = lm.kw(k, case)
                except Exception:
                    continue
                s.e[lp].append((w, Tag("col", True, "name"), n1))
    if "column" in positions:
        # ... and as the REFERENCED column of an inline reference: <c> type REFERENCES o ( <kw> )
        other_t = lm.plain("o", ["o", "ot", "Other", "o_1", "ref_table", "Oth2"])
        r0 = s.edge(O, lm.kw("REFERENCES", "upper"), Tag("opt:REF", True))
        r1 = s.edge(r0, other_t, Tag("opt:REF", False, "ref_table"))
        r2 = s.edge(r1, P["("], Tag("opt:REF", False))
        r3 = s.new()
        for k in kws:
            if k in EXCLUDED_COLUMN:
                continue
            for case in ("upper", "other"):
                try:
                    w = lm.kw(k, case)
                except Exception:
                    continue
                s.e[r2].append((w, Tag("opt:REF", False, "ref_col"), r3))
        s.edge(r3, P[")"], Tag("opt:REF", False), O)
    sep = s.new()
    s.edge(O, P[","], Tag("sep", True), sep)
    s.eps(sep, lp)
    if "column" in positions:
        # ... and inside a table-level key list: , PRIMARY KEY ( <kw> ) / , UNIQUE ( <kw> , a )
        D = s.new()
        for kind, head, two in (("decl:PK", [("KW", "PRIMARY"), ("KW", "KEY")], False), ("decl:UQ", [("KW", "UNIQUE")], True)):
            e = s.words(sep, kind, head)
            x = s.edge(e, P["("], Tag(kind, False))
            y = s.new()
            for k in kws:
                if k in EXCLUDED_COLUMN:
                    continue
                for case in ("upper", "other"):
                    try:
                        w = lm.kw(k, case)
                    except Exception:
                        continue
                    s.e[x].append((w, Tag(kind, False, "col1"), y))
            if two:
                y = s.edge(y, P[","], Tag(kind, False))
                y = s.edge(y, plain_col, Tag(kind, False, "col2"))
            s.edge(y, P[")"], Tag(kind, False), D)
        # a CHECK clause (it switches the lexer into its CHECK mode for the rest of the statement) before further names
        from .common import numbers
        gt = lm.custom(">", [">", ">=", "<>"], "OP")
        e = s.words(sep, "decl:CHK", [("KW", "CHECK"), P["("], (plain_col, "c1"), (gt, "op"), (numbers(lm)["NUM"], "c2"), P[")"]])
        s.eps(e, D)
        s.edge(D, P[","], Tag("sep", True), sep)
    end = s.new()
    s.edge(O, P[")"], Tag("end", True), end)
    if "column" in positions:
        s.edge(D, P[")"], Tag("end", True), end)
    s.acc.add(end)
    s.n_keywords = len(kws)
    return s, T.make_oracle(s)
