"""Dataclass-field model of the output classes (simple_ddl_parser/output), computed from the source:
the `@dialect(name=...)` decorator's effect on field metadata, `add_dialects([...])`, `dialect_by_name`,
dataclass field inheritance (reverse MRO, later definition replaces earlier, first position kept) and the
synthetic per-mode classes built by TableData.get_dialect_class.  Nothing is imported from /repo."""
import ast

from .core import AnalysisError

DIALECTS_MOD = "simple_ddl_parser.output.dialects"
BASE_MOD = "simple_ddl_parser.output.base_data"


class FieldInfo:
    def __init__(self, name, owner, default_kind, default_node, metadata, node):
        self.name, self.owner = name, owner
        self.default_kind = default_kind          # 'default' | 'factory' | 'none'
        self.default_node = default_node
        self.metadata = metadata                  # dict with python values
        self.node = node

    def default_shape(self):
        """'list' | 'dict' | 'None' | 'False' | 'str' | 'other'"""
        d = self.default_node
        if self.default_kind == "factory":
            if isinstance(d, ast.Name) and d.id in ("list", "dict"):
                return d.id
            if isinstance(d, ast.Lambda):
                if isinstance(d.body, ast.Dict):
                    return "dict"
                if isinstance(d.body, ast.List):
                    return "list"
            return "other"
        if self.default_kind == "default" and isinstance(d, ast.Constant):
            return repr(d.value)
        return "other" if self.default_kind != "none" else "none"

    def __repr__(self):
        return f"<{self.owner}.{self.name} {self.default_shape()} {self.metadata}>"


class DCModel:
    def __init__(self, model):
        self.m = model
        if DIALECTS_MOD not in model.modules or BASE_MOD not in model.modules:
            raise AnalysisError("anchor vanished: output/dialects.py or output/base_data.py")
        self.dmod = model.modules[DIALECTS_MOD]
        self.d_name = {}            # class key -> __d_name__ (own or inherited)
        self.is_dataclass = {}
        self.own_fields = {}        # class key -> [FieldInfo] in definition order
        self._scan_classes()
        self.dialect_by_name = self._dialect_by_name()
        self._apply_add_dialects()
        self._fields_cache = {}

    # -- class scan -------------------------------------------------------
    def _decorators(self, c):
        out = []
        for d in c.node.decorator_list:
            if isinstance(d, ast.Name):
                out.append((d.id, None))
            elif isinstance(d, ast.Call) and isinstance(d.func, ast.Name):
                out.append((d.func.id, d))
        return out

    def _scan_classes(self):
        m = self.m
        for key, c in m.classes.items():
            if not c.module.name.startswith("simple_ddl_parser.output"):
                continue
            decs = self._decorators(c)
            self.is_dataclass[key] = any(n == "dataclass" for n, _ in decs)
            names = [n for n, _ in decs]
            if "dialect" in names and "dataclass" in names and names.index("dialect") < names.index("dataclass"):
                raise AnalysisError(f"{c.name}: @dialect is applied after @dataclass; the field-metadata model assumes the "
                                    "decorator tags the Field objects before dataclass() consumes them")
            for n in names:
                if n not in ("dataclass", "dialect"):
                    raise AnalysisError(f"{c.name}: decorator @{n} is not modelled")
            dn = None
            for n, call in decs:
                if n == "dialect" and call is not None:
                    for k in call.keywords:
                        if k.arg == "name" and isinstance(k.value, ast.Constant):
                            dn = k.value.value
                    if call.args and isinstance(call.args[0], ast.Constant):
                        dn = call.args[0].value
            if dn is None and "__d_name__" in c.attrs and isinstance(c.attrs["__d_name__"][1], ast.Constant):
                dn = c.attrs["__d_name__"][1].value
            self.d_name[key] = dn
            fields = []
            for st in c.node.body:
                if isinstance(st, ast.AnnAssign) and isinstance(st.target, ast.Name):
                    fields.append(self._field(c, st))
            self.own_fields[key] = fields
            # the @dialect decorator runs before @dataclass (it is the inner decorator) and tags every Field object
            # of the class body with output_modes [name] (extending an existing list)
            for n, call in decs:
                if n == "dialect":
                    for f in fields:
                        if f.from_field_call:
                            if "output_modes" in f.metadata:
                                f.metadata["output_modes"] = list(f.metadata["output_modes"]) + [dn]
                            else:
                                f.metadata["output_modes"] = [dn]
        # inherited __d_name__
        for key in list(self.d_name):
            if self.d_name[key] is None:
                for k in m.mro(key)[1:]:
                    if self.d_name.get(k) is not None:
                        self.d_name[key] = self.d_name[k]
                        break

    def _field(self, c, st):
        val = st.value
        fi = FieldInfo(st.target.id, c.name, "none", None, {}, st)
        fi.from_field_call = False
        if val is None:
            return fi
        if isinstance(val, ast.Call) and isinstance(val.func, ast.Name) and val.func.id == "field":
            fi.from_field_call = True
            for k in val.keywords:
                if k.arg == "default":
                    fi.default_kind, fi.default_node = "default", k.value
                elif k.arg == "default_factory":
                    fi.default_kind, fi.default_node = "factory", k.value
                elif k.arg == "metadata":
                    fi.metadata = self._metadata(c, k.value)
                else:
                    raise AnalysisError(f"{c.name}.{fi.name}: field() keyword {k.arg} not modelled")
            return fi
        fi.default_kind, fi.default_node = "default", val
        return fi

    def _metadata(self, c, node):
        if not isinstance(node, ast.Dict):
            raise AnalysisError(f"{c.name}: field metadata is not a dict literal")
        out = {}
        for k, v in zip(node.keys, node.values):
            if not isinstance(k, ast.Constant):
                raise AnalysisError(f"{c.name}: non-constant metadata key")
            if isinstance(v, ast.Constant):
                out[k.value] = v.value
            elif isinstance(v, ast.Call) and isinstance(v.func, ast.Name) and v.func.id == "add_dialects":
                out[k.value] = ("add_dialects", v)
            elif isinstance(v, ast.List) and all(isinstance(x, ast.Constant) for x in v.elts):
                out[k.value] = [x.value for x in v.elts]
            else:
                raise AnalysisError(f"{c.name}: metadata value `{ast.unparse(v)[:50]}` not modelled")
        return out

    def _apply_add_dialects(self):
        # add_dialects([A, B]) -> [A.__d_name__, B.__d_name__]
        f = self.dmod.funcs.get("add_dialects")
        if f is None:
            raise AnalysisError("anchor vanished: add_dialects")
        ret = [n for n in ast.walk(f.node) if isinstance(n, ast.Return)]
        # [d.__d_name__ for d in dialects] - or the same names in another container (tuple / set / frozenset / list / sorted of a
        # comprehension): the container TYPE is part of the model (the consumer tests it with isinstance)
        wrap = list
        v = ret[0].value if len(ret) == 1 else None
        if isinstance(v, ast.Call) and isinstance(v.func, ast.Name) and v.func.id in ("list", "tuple", "set", "frozenset", "sorted") \
                and len(v.args) == 1 and not v.keywords:
            wrap = {"list": list, "tuple": tuple, "set": set, "frozenset": frozenset, "sorted": sorted}[v.func.id]
            v = v.args[0]
        elif isinstance(v, ast.SetComp):
            wrap = set
        ok = isinstance(v, (ast.ListComp, ast.GeneratorExp, ast.SetComp)) and ast.unparse(v.elt).endswith(".__d_name__") \
            and len(v.generators) == 1 and not v.generators[0].ifs
        if not ok:
            raise AnalysisError("add_dialects no longer returns [d.__d_name__ for d in dialects]: metadata model incomplete")
        for key, fields in self.own_fields.items():
            c = self.m.classes[key]
            for fi in fields:
                for mk, mv in list(fi.metadata.items()):
                    if isinstance(mv, tuple) and mv[0] == "add_dialects":
                        call = mv[1]
                        if len(call.args) != 1 or not isinstance(call.args[0], ast.List):
                            raise AnalysisError("add_dialects argument is not a list literal")
                        names = []
                        for e in call.args[0].elts:
                            r = self.m.resolve_class_expr(c.module, e)
                            if r is None:
                                raise AnalysisError(f"add_dialects: cannot resolve {ast.unparse(e)}")
                            names.append(self.d_name[r])
                        fi.metadata[mk] = wrap(names)

    def _dialect_by_name(self):
        """{obj.__d_name__: obj for obj in globals().values() if subclass of Dialect and obj != Dialect}, evaluated at the
        position of the assignment (classes defined later are not in globals yet), then explicit item assignments."""
        dm = self.dmod
        dkey = (DIALECTS_MOD, "Dialect")
        if dkey not in self.m.classes:
            raise AnalysisError("anchor vanished: class Dialect")
        out = None
        seen_classes = []
        for st in dm.tree.body:
            if isinstance(st, ast.ClassDef):
                seen_classes.append((DIALECTS_MOD, st.name))
            elif isinstance(st, ast.Assign) and len(st.targets) == 1:
                t = st.targets[0]
                if isinstance(t, ast.Name) and t.id == "dialect_by_name":
                    v = st.value
                    txt = ast.unparse(v)
                    if not (isinstance(v, ast.DictComp) and "issubclass(obj, Dialect)" in txt and "obj != Dialect" in txt
                            and ast.unparse(v.key) == "obj.__d_name__" and "globals()" in txt):
                        raise AnalysisError("dialect_by_name is no longer the comprehension over globals(): model incomplete")
                    out = {}
                    for k in seen_classes:
                        if k != dkey and dkey in self.m.mro(k):
                            out[self.d_name[k]] = k
                elif isinstance(t, ast.Subscript) and isinstance(t.value, ast.Name) and t.value.id == "dialect_by_name" and out is not None:
                    if isinstance(t.slice, ast.Constant) and isinstance(st.value, ast.Constant) and st.value.value is None:
                        out[t.slice.value] = None
                    else:
                        raise AnalysisError("dialect_by_name[...] = <non-None>: model incomplete")
        if out is None:
            raise AnalysisError("anchor vanished: dialect_by_name")
        return out

    # -- dataclass fields of a class / of a synthetic combination -----------------
    def dc_fields(self, key):
        """__dataclass_fields__ as seen on class `key` (own if decorated, else inherited from the first decorated class of
        its MRO); None when no class of the MRO is a dataclass.  dataclasses' rule: for every base in reverse MRO order
        overlay that base's *complete* __dataclass_fields__, then the class's own annotations."""
        if key in self._fields_cache:
            return self._fields_cache[key]
        mro = self.m.mro(key)
        if not self.is_dataclass.get(key):
            res = None
            for k in mro[1:]:
                if self.is_dataclass.get(k):
                    res = self.dc_fields(k)
                    break
            self._fields_cache[key] = res
            return res
        fields = self.overlay(mro[1:])
        for fi in self.own_fields.get(key, []):
            fields[fi.name] = fi
        self._fields_cache[key] = fields
        return fields

    def overlay(self, bases_mro):
        fields = {}
        for b in reversed(bases_mro):
            bf = self.dc_fields(b) if b in self.own_fields else None
            if bf:
                for n, fi in bf.items():
                    fields[n] = fi
        return fields

    def mode_class(self, mode):
        """(description, MRO list, fields dict) of the table class used in `mode`"""
        m = self.m
        if mode == "sql" or self.dialect_by_name.get(mode) is None:
            k = (BASE_MOD, "BaseData")
            mro = m.mro(k)
            return "BaseData", mro, self.dc_fields(k)
        main = self.dialect_by_name[mode]
        mixin = (DIALECTS_MOD, "CommonDialectsFieldsMixin")
        if mixin not in m.classes:
            raise AnalysisError("anchor vanished: CommonDialectsFieldsMixin")
        # C3 linearisation of type(name, (main, mixin), {})
        seqs = [list(m.mro(main)), list(m.mro(mixin)), [main, mixin]]
        res = []
        while True:
            seqs = [s for s in seqs if s]
            if not seqs:
                break
            cand = None
            for s in seqs:
                h = s[0]
                if not any(h in o[1:] for o in seqs):
                    cand = h
                    break
            if cand is None:
                raise AnalysisError(f"inconsistent MRO for the synthetic class of mode {mode}")
            res.append(cand)
            for s in seqs:
                if s and s[0] == cand:
                    del s[0]
        return f"{main[1]}Dialect", res, self.overlay(res)

    def lookup_method(self, mro, name):
        for k in mro:
            c = self.m.classes[k]
            if name in c.methods:
                return c.methods[name]
        return None
