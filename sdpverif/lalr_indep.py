"""Independent LALR(1) construction (LR(0) kernels + look-ahead propagation, Aho/Sethi/Ullman 4.62-4.63), used by the
thorough tier of C20 to keep PLY's generator out of the trusted base: the automaton derived here from the extracted
productions is compared, up to state renaming, with the tables PLY generated (shift / goto targets, reductions per
look-ahead, PLY's conflict resolution: shift wins over reduce, the earlier production wins a reduce/reduce conflict)."""
import collections

from .core import AnalysisError

END = "$end"
DUMMY = "#"


def cross_check(ck, gm):
    prods = [("S'", (gm.productions_src[0][3],))] + [(lhs, tuple(rhs)) for (_f, _file, _line, lhs, rhs) in gm.productions_src]
    nonterms = {p[0] for p in prods}
    by_lhs = collections.defaultdict(list)
    for i, (lhs, rhs) in enumerate(prods):
        by_lhs[lhs].append(i)
    # nullable / FIRST
    nullable = set()
    changed = True
    while changed:
        changed = False
        for lhs, rhs in prods:
            if lhs not in nullable and all(s in nullable for s in rhs):
                nullable.add(lhs)
                changed = True
    first = collections.defaultdict(set)
    changed = True
    while changed:
        changed = False
        for lhs, rhs in prods:
            for s in rhs:
                add = first[s] if s in nonterms else {s}
                if not add <= first[lhs]:
                    first[lhs] |= add
                    changed = True
                if s not in nullable:
                    break

    def first_of(seq, la):
        out = set()
        for s in seq:
            out |= first[s] if s in nonterms else {s}
            if s not in nullable:
                return out
        out.add(la)
        return out

    # LR(0) automaton on kernels
    def closure0(kernel):
        items = list(kernel)
        seen = set(kernel)
        i = 0
        while i < len(items):
            p, d = items[i]
            i += 1
            rhs = prods[p][1]
            if d < len(rhs) and rhs[d] in nonterms:
                for q in by_lhs[rhs[d]]:
                    if (q, 0) not in seen:
                        seen.add((q, 0))
                        items.append((q, 0))
        return items

    # PLY identifies an LR(0) state by the ORDERED sequence of its kernel items (in closure order), so two states with the same
    # kernel set reached with different item orders stay distinct; the same identity is used here so that the automata are
    # comparable state by state (the look-ahead computation below is independent of PLY's)
    start = ((0, 0),)
    states = [start]
    index = {start: 0}
    goto = {}
    work = [start]
    while work:
        k = work.pop()
        trans = collections.OrderedDict()
        for p, d in closure0(k):
            rhs = prods[p][1]
            if d < len(rhs):
                lst = trans.setdefault(rhs[d], [])
                if (p, d + 1) not in lst:
                    lst.append((p, d + 1))
        for sym, items in trans.items():
            nk = tuple(items)
            if nk not in index:
                index[nk] = len(states)
                states.append(nk)
                work.append(nk)
            goto[(index[k], sym)] = index[nk]

    # look-ahead propagation
    def closure1(item, la):
        out = {(item, la)}
        work = [(item, la)]
        while work:
            (p, d), a = work.pop()
            rhs = prods[p][1]
            if d < len(rhs) and rhs[d] in nonterms:
                for b in first_of(rhs[d + 1:], a):
                    for q in by_lhs[rhs[d]]:
                        it = ((q, 0), b)
                        if it not in out:
                            out.add(it)
                            work.append(it)
        return out

    la = collections.defaultdict(set)
    la[(0, (0, 0))].add(END)
    prop = collections.defaultdict(set)
    for si, k in enumerate(states):
        for kit in k:
            for (p, d), a in closure1(kit, DUMMY):
                rhs = prods[p][1]
                if d < len(rhs):
                    tgt = (goto[(si, rhs[d])], (p, d + 1))
                    if a == DUMMY:
                        prop[(si, kit)].add(tgt)
                    else:
                        la[tgt].add(a)
    changed = True
    while changed:
        changed = False
        for src, tgts in prop.items():
            for t in tgts:
                if not la[src] <= la[t]:
                    la[t] |= la[src]
                    changed = True
    # tables with PLY's conflict resolution
    action = {}
    n_sr = n_rr = 0
    for si, k in enumerate(states):
        row = {}
        reduces = collections.defaultdict(set)
        for kit in k:
            for (p, d), a in closure1(kit, DUMMY):
                if d == len(prods[p][1]):
                    las = la[(si, kit)] if a == DUMMY else {a}
                    for x in las:
                        reduces[x].add(p)
        # items of the closure that came from kernel look-aheads: complete closure items inherit via the dummy
        for x, ps in reduces.items():
            if len(ps) > 1:
                n_rr += 1
            p = min(ps)
            row[x] = ("accept",) if p == 0 else ("reduce", p)
        for p, d in closure0(k):
            rhs = prods[p][1]
            if d < len(rhs) and rhs[d] not in nonterms:
                t = rhs[d]
                if t in row and row[t][0] == "reduce":
                    n_sr += 1
                row[t] = ("shift", goto[(si, t)])
        action[si] = row
    # compare with PLY's tables up to state renaming
    mp = {0: 0}
    work = [0]
    diffs = []
    cells = 0
    while work:
        s = work.pop()
        ps = mp[s]
        prow = gm.action.get(ps, {})
        mrow = action[s]
        for t in set(mrow) | set(prow):
            cells += 1
            a, b = mrow.get(t), prow.get(t)
            if a is None or b is None:
                diffs.append(f"state {ps} on {t}: independent {a}, PLY {b}")
            elif a[0] == "shift":
                if b <= 0:
                    diffs.append(f"state {ps} on {t}: independent shift, PLY {b}")
                elif a[1] in mp:
                    if mp[a[1]] != b:
                        diffs.append(f"state {ps} on {t}: shift targets differ")
                else:
                    mp[a[1]] = b
                    work.append(a[1])
            elif a[0] == "reduce":
                if b != -a[1]:
                    diffs.append(f"state {ps} on {t}: independent reduce {a[1]}, PLY {b}")
            elif a[0] == "accept" and b != 0:
                diffs.append(f"state {ps} on {t}: independent accept, PLY {b}")
        for (s2, sym), tgt in goto.items():
            if s2 == s and sym in nonterms:
                cells += 1
                b = gm.goto.get(ps, {}).get(sym)
                if b is None:
                    diffs.append(f"goto state {ps} on {sym}: missing in PLY's table")
                elif tgt in mp:
                    if mp[tgt] != b:
                        diffs.append(f"goto state {ps} on {sym}: targets differ")
                else:
                    mp[tgt] = b
                    work.append(tgt)
    ck.ob("T-LALR.independent", "independently derived LALR(1) automaton equals PLY's tables up to state renaming",
          not diffs and len(mp) == len(states) == len(gm.action),
          "; ".join(diffs[:6]) + f" ({len(states)} states independent, {len(gm.action)} PLY, {len(mp)} matched)",
          "ply.yacc.LRGeneratedTable vs sdpverif/lalr_indep.py")
    ck.count("independent_states", len(states))
    ck.count("independent_cells_compared", cells)
    ck.count("independent_sr_conflicts", n_sr)
    ck.count("independent_rr_conflicts", n_rr)
