"""Effect facts per function and the interprocedural read-before-write analysis."""
import ast

from .srcmodel import Func, dotted

MUTATORS = {"append", "extend", "pop", "update", "insert", "remove", "clear", "sort", "reverse",
            "setdefault", "add", "discard", "popitem", "__setitem__", "__delitem__"}


def access_path(e):
    """self.a.b -> 'self.a.b' (Name/Attribute chains rooted at a Name)."""
    return dotted(e)


class Access:
    __slots__ = ("path", "kind", "node", "stmt")

    def __init__(self, path, kind, node, stmt):
        self.path, self.kind, self.node, self.stmt = path, kind, node, stmt

    def __repr__(self):
        return f"{self.kind}:{self.path}@{getattr(self.node, 'lineno', '?')}"


MODULE_CONSTS = {}      # filled by Effects: {module name: {NAME: [str constants]}}


def const_list_of(func_node, name, module=None):
    """If local `name` is assigned exactly once, to a list/tuple of string constants, return them (a module-level tuple / list
    of string constants counts when the function does not re-bind the name)."""
    vals = None
    n_assign = 0
    for n in ast.walk(func_node):
        if isinstance(n, ast.Assign):
            for t in n.targets:
                if isinstance(t, ast.Name) and t.id == name:
                    n_assign += 1
                    if isinstance(n.value, (ast.List, ast.Tuple)) and all(
                            isinstance(x, ast.Constant) and isinstance(x.value, str) for x in n.value.elts):
                        vals = [x.value for x in n.value.elts]
    if n_assign == 0:
        for consts in MODULE_CONSTS.values():
            if name in consts:
                return consts[name]
    return vals if n_assign == 1 else None


def scan_accesses(func_node):
    """All attribute accesses of a function body, in source order, with kind
    load | store | mutate | del.  setattr(obj, <const>, v) is a store; a loop
    `for a in <const list>: setattr(obj, a, v)` is a store of each constant."""
    out = []
    loop_consts = {}   # loop variable -> constants

    def visit_stmt_list(stmts):
        for st in stmts:
            visit_stmt(st)

    def expr(e, stmt):
        for n in ast.walk(e):
            if isinstance(n, ast.Attribute):
                p = access_path(n)
                if p is None:
                    continue
                if isinstance(n.ctx, ast.Load):
                    out.append(Access(p, "load", n, stmt))
            if isinstance(n, ast.Call):
                f = n.func
                if isinstance(f, ast.Attribute) and f.attr in MUTATORS:
                    p = access_path(f.value)
                    if p:
                        out.append(Access(p, "mutate", n, stmt))
                if isinstance(f, ast.Name) and f.id == "setattr" and len(n.args) == 3:
                    base = access_path(n.args[0])
                    a = n.args[1]
                    names = None
                    if isinstance(a, ast.Constant) and isinstance(a.value, str):
                        names = [a.value]
                    elif isinstance(a, ast.Name) and a.id in loop_consts:
                        names = loop_consts[a.id]
                    if base and names:
                        for nm in names:
                            out.append(Access(f"{base}.{nm}", "store", n, stmt))
                    elif base:
                        out.append(Access(f"{base}.*", "store", n, stmt))
                if isinstance(f, ast.Name) and f.id in ("getattr", "hasattr") and len(n.args) >= 2:
                    base = access_path(n.args[0])
                    a = n.args[1]
                    if base and isinstance(a, ast.Constant) and isinstance(a.value, str):
                        out.append(Access(f"{base}.{a.value}", "load", n, stmt))
                if (isinstance(f, ast.Attribute) and f.attr in ("get", "pop", "setdefault") and isinstance(f.value, ast.Attribute)
                        and f.value.attr == "__dict__" and n.args and isinstance(n.args[0], ast.Constant)
                        and isinstance(n.args[0].value, str)):
                    # obj.__dict__.get("x") -> a read of obj.x
                    base = access_path(f.value.value)
                    if base:
                        out.append(Access(f"{base}.{n.args[0].value}", "load" if f.attr == "get" else "mutate", n, stmt))
            if isinstance(n, ast.Compare) and len(n.ops) == 1 and isinstance(n.ops[0], (ast.In, ast.NotIn)):
                # "state" in self.lexer.__dict__  -> a read of self.lexer.state
                c = n.comparators[0]
                if (isinstance(c, ast.Attribute) and c.attr == "__dict__" and isinstance(n.left, ast.Constant)
                        and isinstance(n.left.value, str)):
                    base = access_path(c.value)
                    if base:
                        out.append(Access(f"{base}.{n.left.value}", "load", n, stmt))

    def target(t, stmt):
        if isinstance(t, ast.Attribute):
            p = access_path(t)
            if p:
                out.append(Access(p, "store", t, stmt))
            expr(t.value, stmt)
        elif isinstance(t, ast.Subscript):
            p = access_path(t.value)
            if p:
                out.append(Access(p, "mutate", t, stmt))
            expr(t.value, stmt)
            expr(t.slice, stmt)
        elif isinstance(t, (ast.Tuple, ast.List)):
            for x in t.elts:
                target(x, stmt)
        elif isinstance(t, ast.Starred):
            target(t.value, stmt)

    def visit_stmt(st):
        if isinstance(st, ast.Assign):
            expr(st.value, st)
            for t in st.targets:
                target(t, st)
        elif isinstance(st, ast.AugAssign):
            expr(st.value, st)
            p = access_path(st.target) if isinstance(st.target, ast.Attribute) else None
            if p:
                out.append(Access(p, "load", st.target, st))
                out.append(Access(p, "store", st.target, st))
            else:
                target(st.target, st)
        elif isinstance(st, ast.AnnAssign):
            if st.value is not None:
                expr(st.value, st)
                target(st.target, st)
        elif isinstance(st, ast.Delete):
            for t in st.targets:
                if isinstance(t, ast.Subscript):
                    p = access_path(t.value)
                    if p:
                        out.append(Access(p, "mutate", t, st))
                elif isinstance(t, ast.Attribute):
                    p = access_path(t)
                    if p:
                        out.append(Access(p, "del", t, st))
        elif isinstance(st, ast.For):
            expr(st.iter, st)
            target(st.target, st)
            if isinstance(st.target, ast.Name):
                vals = None
                if isinstance(st.iter, (ast.List, ast.Tuple)) and all(
                        isinstance(x, ast.Constant) and isinstance(x.value, str) for x in st.iter.elts):
                    vals = [x.value for x in st.iter.elts]
                elif isinstance(st.iter, ast.Name):
                    vals = const_list_of(func_node, st.iter.id)
                if vals is not None:
                    loop_consts[st.target.id] = vals
            visit_stmt_list(st.body)
            visit_stmt_list(st.orelse)
        elif isinstance(st, ast.While):
            expr(st.test, st)
            visit_stmt_list(st.body)
            visit_stmt_list(st.orelse)
        elif isinstance(st, ast.If):
            expr(st.test, st)
            visit_stmt_list(st.body)
            visit_stmt_list(st.orelse)
        elif isinstance(st, ast.With):
            for it in st.items:
                expr(it.context_expr, st)
                if it.optional_vars is not None:
                    target(it.optional_vars, st)
            visit_stmt_list(st.body)
        elif isinstance(st, ast.Try):
            visit_stmt_list(st.body)
            for h in st.handlers:
                visit_stmt_list(h.body)
            visit_stmt_list(st.orelse)
            visit_stmt_list(st.finalbody)
        elif isinstance(st, (ast.FunctionDef, ast.ClassDef)):
            pass
        else:
            for c in ast.iter_child_nodes(st):
                if isinstance(c, ast.expr):
                    expr(c, st)
    visit_stmt_list(func_node.body)
    return out


class Effects:
    """Per-function access lists + transitive closure over same-object calls."""

    def __init__(self, model, callgraph):
        self.m, self.cg = model, callgraph
        for mod in model.modules.values():
            d = {}
            for nm, v in mod.assigns.items():
                if isinstance(v, (ast.List, ast.Tuple)) and v.elts and all(isinstance(x, ast.Constant) and isinstance(x.value, str) for x in v.elts):
                    d[nm] = [x.value for x in v.elts]
            MODULE_CONSTS[mod.name] = d
        self.acc = {f.id: scan_accesses(f.node) for f in model.all_funcs()}
        self.funcs = {f.id: f for f in model.all_funcs()}

    def accesses(self, f):
        return self.acc[f.id]

    def who(self, pred, funcs=None):
        """[(Func, Access)] for accesses satisfying pred, over funcs (default all)."""
        out = []
        for f in (funcs if funcs is not None else self.funcs.values()):
            for a in self.acc[f.id]:
                if pred(a):
                    out.append((f, a))
        return out


# ---------------------------------------------------------------------------
# read-before-write (T-RESET)
# ---------------------------------------------------------------------------

class RBW:
    """For a family of methods sharing one `self`, compute per function
    (must_write, exposed) over access paths with a given prefix:
      must_write - paths assigned on every normal path through the function,
      exposed    - {path: (Func, node)} read (or mutated in place) on some path
                   before being assigned in this function (callee-first).
    Structured walk; loops may run zero times; try bodies are treated as
    possibly skipped."""

    def __init__(self, model, callgraph, prefix, same_object=lambda f: True):
        self.m, self.cg, self.prefix = model, callgraph, prefix
        self.same_object = same_object
        self.summary = {}
        self._stack = set()
        self._returns = {}

    def relevant(self, p):
        return p is not None and (p == self.prefix or p.startswith(self.prefix + "."))

    def summarize(self, f):
        if f.id in self.summary:
            return self.summary[f.id]
        if f.id in self._stack:         # recursion: optimistic empty summary (refined by fixpoint outside)
            return (frozenset(), {})
        self._stack.add(f.id)
        self.cur = f
        assigned, exposed = self._block(f, f.node.body, frozenset())
        # paths assigned on every normal exit: the fall-through state, intersected with return states
        must = assigned if assigned is not None else None
        for r in self._returns.pop(f.id, []):
            must = r if must is None else (must & r)
        if must is None:
            must = frozenset()
        self._stack.discard(f.id)
        self.summary[f.id] = (must, exposed)
        return self.summary[f.id]



    # expression effects in evaluation order (approximation: loads, then calls, AST order)
    def _expr(self, f, e, assigned, exposed):
        for n in ast.walk(e):
            if isinstance(n, (ast.Lambda, ast.GeneratorExp, ast.ListComp, ast.SetComp, ast.DictComp)):
                pass
        # collect in source order
        nodes = sorted((n for n in ast.walk(e) if isinstance(n, (ast.Attribute, ast.Call, ast.Compare))),
                       key=lambda n: (getattr(n, "lineno", 0), getattr(n, "col_offset", 0)))
        for n in nodes:
            if isinstance(n, ast.Attribute) and isinstance(n.ctx, ast.Load):
                p = access_path(n)
                if self.relevant(p) and p != self.prefix:
                    # reading self.x.y counts as reading self.x (and the deeper path)
                    self._read(f, p, n, assigned, exposed)
            elif isinstance(n, ast.Compare) and len(n.ops) == 1 and isinstance(n.ops[0], (ast.In, ast.NotIn)):
                c = n.comparators[0]
                if (isinstance(c, ast.Attribute) and c.attr == "__dict__" and isinstance(n.left, ast.Constant)
                        and isinstance(n.left.value, str)):
                    base = access_path(c.value)
                    if base and self.relevant(f"{base}.{n.left.value}"):
                        self._read(f, f"{base}.{n.left.value}", n, assigned, exposed)
        for n in nodes:
            if isinstance(n, ast.Call):
                fn = n.func
                if (isinstance(fn, ast.Attribute) and fn.attr in ("get", "pop", "setdefault") and isinstance(fn.value, ast.Attribute)
                        and fn.value.attr == "__dict__" and n.args and isinstance(n.args[0], ast.Constant)
                        and isinstance(n.args[0].value, str)):
                    base = access_path(fn.value.value)
                    if base and self.relevant(f"{base}.{n.args[0].value}"):
                        self._read(f, f"{base}.{n.args[0].value}", n, assigned, exposed)
            if isinstance(n, ast.Call):
                fn = n.func
                if isinstance(fn, ast.Name) and fn.id == "setattr":
                    continue
                if isinstance(fn, ast.Attribute) and isinstance(fn.value, ast.Name) and fn.value.id == "self":
                    for c in self.cg.resolve_call(f, n) or []:
                        if isinstance(c, Func) and self.same_object(c):
                            must, exp = self.summarize(c)
                            self.cur = f
                            for p, site in exp.items():
                                if not self._covered(p, assigned):
                                    exposed.setdefault(p, site)
                            assigned = assigned | must
        return assigned

    def _covered(self, p, assigned):
        parts = p.split(".")
        for i in range(len(self.prefix.split(".")) + 1, len(parts) + 1):
            if ".".join(parts[:i]) in assigned:
                return True
        return False

    def _read(self, f, p, node, assigned, exposed):
        if p.endswith(".__dict__"):
            return
        if not self._covered(p, assigned):
            # report the shortest relevant path (attribute directly under the prefix)
            depth = len(self.prefix.split(".")) + 1
            top = ".".join(p.split(".")[:depth])
            exposed.setdefault(top, (f, node))

    def _store_targets(self, f, t, assigned, exposed, loop_consts):
        if isinstance(t, ast.Attribute):
            p = access_path(t)
            if self.relevant(p):
                assigned = assigned | {p}
        elif isinstance(t, (ast.Tuple, ast.List)):
            for x in t.elts:
                assigned = self._store_targets(f, x, assigned, exposed, loop_consts)
        elif isinstance(t, ast.Subscript):
            p = access_path(t.value)
            if self.relevant(p) and p != self.prefix:
                self._read(f, p, t, assigned, exposed)
        return assigned

    def _block(self, f, stmts, assigned, loop_consts=None):
        """returns (assigned-after or None when every path leaves, exposed dict)"""
        exposed = {}
        loop_consts = dict(loop_consts or {})
        for st in stmts:
            if assigned is None:
                break
            if isinstance(st, ast.Assign):
                assigned = self._expr(f, st.value, assigned, exposed)
                for t in st.targets:
                    assigned = self._store_targets(f, t, assigned, exposed, loop_consts)
            elif isinstance(st, ast.AnnAssign):
                if st.value is not None:
                    assigned = self._expr(f, st.value, assigned, exposed)
                    assigned = self._store_targets(f, st.target, assigned, exposed, loop_consts)
            elif isinstance(st, ast.AugAssign):
                assigned = self._expr(f, st.value, assigned, exposed)
                if isinstance(st.target, ast.Attribute):
                    p = access_path(st.target)
                    if self.relevant(p):
                        self._read(f, p, st.target, assigned, exposed)
                        assigned = assigned | {p}
            elif isinstance(st, ast.Expr):
                v = st.value
                # setattr(self.lexer, attr, const) - possibly inside a loop over constants
                if (isinstance(v, ast.Call) and isinstance(v.func, ast.Name) and v.func.id == "setattr"
                        and len(v.args) == 3):
                    base = access_path(v.args[0])
                    a = v.args[1]
                    names = None
                    if isinstance(a, ast.Constant) and isinstance(a.value, str):
                        names = [a.value]
                    elif isinstance(a, ast.Name) and a.id in loop_consts:
                        names = loop_consts[a.id]
                    assigned = self._expr(f, v.args[2], assigned, exposed)
                    if base and names and self.relevant(base):
                        assigned = assigned | {f"{base}.{nm}" for nm in names}
                else:
                    assigned = self._expr(f, v, assigned, exposed)
                    # in-place mutation counts as a read of the old object
            elif isinstance(st, ast.Return):
                if st.value is not None:
                    assigned = self._expr(f, st.value, assigned, exposed)
                self._returns.setdefault(f.id, []).append(assigned)
                assigned = None
            elif isinstance(st, ast.Raise):
                if st.exc is not None:
                    self._expr(f, st.exc, assigned, exposed)
                assigned = None
            elif isinstance(st, ast.If):
                assigned = self._expr(f, st.test, assigned, exposed)
                a1, e1 = self._block(f, st.body, assigned, loop_consts)
                a2, e2 = self._block(f, st.orelse, assigned, loop_consts)
                for e in (e1, e2):
                    for p, s in e.items():
                        exposed.setdefault(p, s)
                if a1 is None:
                    assigned = a2
                elif a2 is None:
                    assigned = a1
                else:
                    assigned = a1 & a2
            elif isinstance(st, (ast.For, ast.While)):
                consts = None
                inner = assigned
                if isinstance(st, ast.For):
                    assigned = self._expr(f, st.iter, assigned, exposed)
                    inner = self._store_targets(f, st.target, assigned, exposed, loop_consts)
                    if isinstance(st.target, ast.Name):
                        if isinstance(st.iter, (ast.List, ast.Tuple)) and all(
                                isinstance(x, ast.Constant) and isinstance(x.value, str) for x in st.iter.elts):
                            consts = [x.value for x in st.iter.elts]
                        elif isinstance(st.iter, ast.Name):
                            consts = const_list_of(f.node, st.iter.id)
                else:
                    assigned = self._expr(f, st.test, assigned, exposed)
                    inner = assigned
                lc = dict(loop_consts)
                if consts:
                    lc[st.target.id] = consts
                a1, e1 = self._block(f, st.body, inner, lc)
                for p, s in e1.items():
                    exposed.setdefault(p, s)
                if consts and a1 is not None:
                    # a loop over a non-empty constant list runs at least once; its must-writes hold after it
                    assigned = assigned | (a1 - inner) if consts else assigned
                a2, e2 = self._block(f, st.orelse, assigned, loop_consts)
                for p, s in e2.items():
                    exposed.setdefault(p, s)
                if a2 is not None:
                    assigned = a2
            elif isinstance(st, ast.With):
                for it in st.items:
                    assigned = self._expr(f, it.context_expr, assigned, exposed)
                a1, e1 = self._block(f, st.body, assigned, loop_consts)
                for p, s in e1.items():
                    exposed.setdefault(p, s)
                assigned = a1
            elif isinstance(st, ast.Try):
                a1, e1 = self._block(f, st.body, assigned, loop_consts)
                for p, s in e1.items():
                    exposed.setdefault(p, s)
                states = []
                if a1 is not None:
                    a_else, e_else = self._block(f, st.orelse, a1, loop_consts)
                    for p, s in e_else.items():
                        exposed.setdefault(p, s)
                    if a_else is not None:
                        states.append(a_else)
                for h in st.handlers:
                    ah, eh = self._block(f, h.body, assigned, loop_consts)
                    for p, s in eh.items():
                        exposed.setdefault(p, s)
                    if ah is not None:
                        states.append(ah)
                assigned = frozenset.intersection(*states) if states else None
                if st.finalbody and assigned is not None:
                    assigned, ef = self._block(f, st.finalbody, assigned, loop_consts)
                    for p, s in ef.items():
                        exposed.setdefault(p, s)
            elif isinstance(st, ast.Delete):
                for t in st.targets:
                    if isinstance(t, ast.Subscript):
                        p = access_path(t.value)
                        if self.relevant(p) and p != self.prefix:
                            self._read(f, p, t, assigned, exposed)
            elif isinstance(st, (ast.Pass, ast.Break, ast.Continue, ast.Global, ast.Nonlocal,
                                 ast.Import, ast.ImportFrom, ast.FunctionDef, ast.ClassDef)):
                if isinstance(st, (ast.Break, ast.Continue)):
                    assigned = None
            else:
                for c in ast.iter_child_nodes(st):
                    if isinstance(c, ast.expr):
                        assigned = self._expr(f, c, assigned, exposed)
        return assigned, exposed
