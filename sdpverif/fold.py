"""Constant folder for module-level data tables (tokens.py, dataclass metadata).

Only literal data and the few pure container operations the repository uses
are folded; anything else raises AnalysisError (the model would be incomplete).
"""
import ast

from .core import AnalysisError


class NotFoldable(AnalysisError):
    pass


class Folder:
    def __init__(self, env=None, what="?"):
        self.env = dict(env or {})
        self.what = what

    def err(self, node, why):
        raise NotFoldable(f"{self.what}: cannot fold `{ast.unparse(node)[:80]}` ({why})")

    def ev(self, e, local=None):
        local = local or {}
        if isinstance(e, ast.Constant):
            return e.value
        if isinstance(e, ast.Name):
            if e.id in local:
                return local[e.id]
            if e.id in self.env:
                return self.env[e.id]
            self.err(e, "unknown name")
        if isinstance(e, (ast.List, ast.Tuple, ast.Set)):
            out = []
            for x in e.elts:
                if isinstance(x, ast.Starred):
                    out.extend(self.ev(x.value, local))
                else:
                    out.append(self.ev(x, local))
            if isinstance(e, ast.Tuple):
                return tuple(out)
            if isinstance(e, ast.Set):
                return set(out)
            return out
        if isinstance(e, ast.Dict):
            d = {}
            for k, v in zip(e.keys, e.values):
                if k is None:
                    d.update(self.ev(v, local))
                else:
                    d[self.ev(k, local)] = self.ev(v, local)
            return d
        if isinstance(e, ast.BinOp) and isinstance(e.op, (ast.BitOr, ast.BitAnd, ast.Sub, ast.BitXor, ast.Add)):
            l, r = self.ev(e.left, local), self.ev(e.right, local)
            try:
                if isinstance(e.op, ast.BitOr):
                    return l | r
                if isinstance(e.op, ast.BitAnd):
                    return l & r
                if isinstance(e.op, ast.Sub):
                    return l - r
                if isinstance(e.op, ast.BitXor):
                    return l ^ r
                return l + r
            except TypeError:
                self.err(e, "operands")
        if isinstance(e, ast.BoolOp):
            v = None
            for x in e.values:
                try:
                    v = self.ev(x, local)
                except (KeyError, NotFoldable):
                    if isinstance(e.op, ast.Or):
                        continue
                    raise
                if isinstance(e.op, ast.Or) and v:
                    return v
                if isinstance(e.op, ast.And) and not v:
                    return v
            return v
        if isinstance(e, ast.Call) and isinstance(e.func, ast.Attribute) and e.func.attr == "get" and e.args:
            o = self.ev(e.func.value, local)
            if isinstance(o, dict):
                k = self.ev(e.args[0], local)
                return o.get(k, self.ev(e.args[1], local) if len(e.args) > 1 else None)
        if isinstance(e, ast.GeneratorExp):
            e = ast.ListComp(elt=e.elt, generators=e.generators)
        if isinstance(e, ast.Call) and isinstance(e.func, ast.Attribute) and e.func.attr in ("upper", "lower", "title", "capitalize") and not e.args:
            o = self.ev(e.func.value, local)
            if isinstance(o, str):
                return getattr(o, e.func.attr)()
        if isinstance(e, (ast.DictComp, ast.SetComp, ast.ListComp)):
            if len(e.generators) != 1 or e.generators[0].is_async:
                self.err(e, "comprehension shape")
            g = e.generators[0]
            it = self.ev(g.iter, local)
            if isinstance(it, (set, frozenset)):
                it = sorted(it, key=repr)
            res = {} if isinstance(e, ast.DictComp) else []
            for item in it:
                loc = dict(local)
                self._bind(g.target, item, loc)
                if all(self.ev(c, loc) for c in g.ifs):
                    if isinstance(e, ast.DictComp):
                        res[self.ev(e.key, loc)] = self.ev(e.value, loc)
                    else:
                        res.append(self.ev(e.elt, loc))
            if isinstance(e, ast.SetComp):
                return set(res)
            return res
        if isinstance(e, ast.Call):
            f = e.func
            if isinstance(f, ast.Name) and f.id in ("tuple", "set", "list", "dict", "sorted", "frozenset") and not e.keywords:
                args = [self.ev(a, local) for a in e.args]
                fn = {"tuple": tuple, "set": set, "list": list, "dict": dict, "sorted": sorted,
                      "frozenset": frozenset}[f.id]
                if f.id in ("tuple", "list") and args and isinstance(args[0], (set, frozenset)):
                    return fn(sorted(args[0], key=repr))     # set order is not a fact of the source
                return fn(*args)
            if isinstance(f, ast.Attribute) and f.attr in ("values", "keys", "items", "copy") and not e.args:
                o = self.ev(f.value, local)
                if isinstance(o, dict):
                    return list(getattr(o, f.attr)()) if f.attr != "copy" else dict(o)
            # a module-level helper that is a pure function of its arguments: `def f(a, b): [docstring] return <expr>`
            if isinstance(f, ast.Name) and isinstance(self.env.get(f.id), ast.FunctionDef) and not e.keywords:
                fd = self.env[f.id]
                body = [st for st in fd.body if not (isinstance(st, ast.Expr) and isinstance(st.value, ast.Constant))]
                params = [a.arg for a in fd.args.args]
                if len(body) == 1 and isinstance(body[0], ast.Return) and body[0].value is not None and len(params) == len(e.args) \
                        and not (fd.args.vararg or fd.args.kwarg or fd.args.kwonlyargs or fd.decorator_list):
                    return self.ev(body[0].value, dict(zip(params, [self.ev(a, local) for a in e.args])))
            self.err(e, "call")
        if isinstance(e, ast.Attribute):
            o = self.ev(e.value, local)
            if isinstance(o, dict) and e.attr in o:     # module namespace as dict
                return o[e.attr]
            self.err(e, "attribute")
        if isinstance(e, ast.Subscript):
            o = self.ev(e.value, local)
            k = self.ev(e.slice, local)
            try:
                return o[k]
            except Exception:
                self.err(e, "subscript")
        if isinstance(e, ast.JoinedStr):
            parts = []
            for v in e.values:
                if isinstance(v, ast.Constant):
                    parts.append(str(v.value))
                else:
                    parts.append(str(self.ev(v.value, local)))
            return "".join(parts)
        if isinstance(e, ast.Compare) and len(e.ops) == 1:
            l, r = self.ev(e.left, local), self.ev(e.comparators[0], local)
            op = e.ops[0]
            if isinstance(op, ast.In):
                return l in r
            if isinstance(op, ast.NotIn):
                return l not in r
            if isinstance(op, ast.Eq):
                return l == r
            if isinstance(op, ast.NotEq):
                return l != r
        self.err(e, type(e).__name__)

    def _bind(self, target, value, loc):
        if isinstance(target, ast.Name):
            loc[target.id] = value
        elif isinstance(target, (ast.Tuple, ast.List)):
            for t, v in zip(target.elts, value):
                self._bind(t, v, loc)
        else:
            self.err(target, "binding target")

    def run_module(self, tree, only=None):
        """Fold the module-level statements of a data module (tokens.py)."""
        for st in tree.body:
            if isinstance(st, ast.Assign) and len(st.targets) == 1:
                t = st.targets[0]
                if isinstance(t, ast.Name):
                    self.env[t.id] = self.ev(st.value)
                    continue
                if isinstance(t, ast.Subscript) and isinstance(t.value, ast.Name):
                    self.env[t.value.id][self.ev(t.slice)] = self.ev(st.value)
                    continue
                self.err(st, "assignment target")
            elif isinstance(st, ast.Expr):
                v = st.value
                if isinstance(v, ast.Constant):
                    continue
                if (isinstance(v, ast.Call) and isinstance(v.func, ast.Attribute)
                        and isinstance(v.func.value, ast.Name) and v.func.attr in ("update", "add", "append", "extend")):
                    o = self.env.get(v.func.value.id)
                    if o is None:
                        self.err(st, "unknown receiver")
                    getattr(o, v.func.attr)(*[self.ev(a) for a in v.args])
                    continue
                self.err(st, "expression statement")
            elif isinstance(st, (ast.Import, ast.ImportFrom)):
                continue
            elif isinstance(st, ast.FunctionDef):
                self.env[st.name] = st          # callable from later module-level statements if it is a pure one-expression helper
            elif isinstance(st, ast.AnnAssign) and isinstance(st.target, ast.Name):
                if st.value is not None:
                    self.env[st.target.id] = self.ev(st.value)
            else:
                self.err(st, "statement kind")
        return self.env


def fold_tokens(model):
    """Folded namespace of simple_ddl_parser/tokens.py."""
    m = model.modules.get("simple_ddl_parser.tokens")
    if m is None:
        raise AnalysisError("anchor vanished: simple_ddl_parser/tokens.py")
    return Folder(what="tokens.py").run_module(m.tree)
