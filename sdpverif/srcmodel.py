"""E1 - resolved program model of /repo/simple_ddl_parser, built with ast only."""
import ast
import os

from . import PKG, REPO
from .core import AnalysisError

PARSER_ROOT = ("simple_ddl_parser.ddl_parser", "DDLParser")


class Func:
    """A function or method of the package."""

    def __init__(self, module, cls, node):
        self.module, self.cls, self.node = module, cls, node
        self.name = node.name
        self.qual = f"{cls}.{node.name}" if cls else node.name
        self.id = f"{module.name}:{self.qual}"
        self.path = module.path

    @property
    def relpath(self):
        return os.path.relpath(self.path, REPO)

    def loc(self, node=None):
        n = node if node is not None else self.node
        return f"{self.relpath}:{getattr(n, 'lineno', self.node.lineno)} ({self.qual})"

    @property
    def firstline(self):
        n = self.node
        return n.decorator_list[0].lineno if n.decorator_list else n.lineno

    @property
    def params(self):
        a = self.node.args
        return [x.arg for x in a.posonlyargs + a.args + a.kwonlyargs]

    @property
    def is_static(self):
        return any(isinstance(d, ast.Name) and d.id == "staticmethod" for d in self.node.decorator_list)

    @property
    def is_classmethod(self):
        return any(isinstance(d, ast.Name) and d.id == "classmethod" for d in self.node.decorator_list)

    def __repr__(self):
        return f"<Func {self.id}>"


class Module:
    def __init__(self, name, path, source):
        self.name, self.path, self.source = name, path, source
        self.tree = ast.parse(source, filename=path)
        self.imports = {}        # local name -> ("sym", module, name) | ("mod", module)
        self.funcs = {}          # module-level functions
        self.classes = {}        # name -> ClassInfo
        self.assigns = {}        # module-level simple assignments name -> value node (last one)
        self.assign_seq = []     # all module-level statements in order (for folding)
        for n in self.tree.body:
            if isinstance(n, ast.ImportFrom):
                mod = n.module or ""
                if n.level:
                    base = name.rsplit(".", n.level)[0]
                    mod = f"{base}.{mod}" if mod else base
                for a in n.names:
                    self.imports[a.asname or a.name] = ("sym", mod, a.name)
            elif isinstance(n, ast.Import):
                for a in n.names:
                    self.imports[a.asname or a.name.split(".")[0]] = ("mod", a.name if a.asname else a.name.split(".")[0])
            elif isinstance(n, ast.FunctionDef):
                self.funcs[n.name] = Func(self, None, n)
            elif isinstance(n, ast.ClassDef):
                self.classes[n.name] = ClassInfo(self, n)
            elif isinstance(n, ast.Assign) and len(n.targets) == 1 and isinstance(n.targets[0], ast.Name):
                self.assigns[n.targets[0].id] = n.value
            elif isinstance(n, ast.AnnAssign) and isinstance(n.target, ast.Name) and n.value is not None:
                self.assigns[n.target.id] = n.value


class ClassInfo:
    def __init__(self, module, node):
        self.module, self.node, self.name = module, node, node.name
        self.key = (module.name, node.name)
        self.methods = {}
        self.attrs = {}   # class-level assignments (Assign / AnnAssign)
        for it in node.body:
            if isinstance(it, ast.FunctionDef):
                self.methods[it.name] = Func(module, node.name, it)
            elif isinstance(it, ast.Assign) and len(it.targets) == 1 and isinstance(it.targets[0], ast.Name):
                self.attrs[it.targets[0].id] = (None, it.value, it)
            elif isinstance(it, ast.AnnAssign) and isinstance(it.target, ast.Name):
                self.attrs[it.target.id] = (it.annotation, it.value, it)
        self.bases = []   # resolved later: list of class keys (unresolvable bases dropped, recorded)
        self.unresolved_bases = []


class Model:
    def __init__(self, pkg=PKG):
        self.pkg = pkg
        self.modules = {}
        if not os.path.isdir(pkg):
            raise AnalysisError(f"package directory {pkg} not found")
        for dp, dn, fn in os.walk(pkg):
            dn[:] = [d for d in dn if d != "__pycache__"]
            for f in sorted(fn):
                if not f.endswith(".py"):
                    continue
                p = os.path.join(dp, f)
                rel = os.path.relpath(p, os.path.dirname(pkg))[:-3].replace(os.sep, ".")
                if rel.endswith(".__init__"):
                    rel = rel[:-9]
                with open(p, encoding="utf-8") as fh:
                    src = fh.read()
                try:
                    self.modules[rel] = Module(rel, p, src)
                except SyntaxError as e:
                    raise AnalysisError(f"{p} does not parse: {e}")
        self.classes = {}
        for m in self.modules.values():
            for c in m.classes.values():
                self.classes[c.key] = c
        for c in self.classes.values():
            for b in c.node.bases:
                r = self.resolve_class_expr(c.module, b)
                if r:
                    c.bases.append(r)
                else:
                    c.unresolved_bases.append(ast.unparse(b))
        self._mro = {}
        self._subclasses = None

    # -- name resolution -------------------------------------------------
    def resolve_symbol(self, module, name, _seen=None):
        """Resolve a local name of `module` to ("class", key) | ("func", Func) |
        ("module", modname) | ("value", Module, name) | ("ext", dotted) | None."""
        _seen = _seen or set()
        if (module.name, name) in _seen:
            return None
        _seen.add((module.name, name))
        if name in module.classes:
            return ("class", module.classes[name].key)
        if name in module.funcs:
            return ("func", module.funcs[name])
        if name in module.assigns and name not in module.imports:
            return ("value", module, name)
        if name in module.imports:
            imp = module.imports[name]
            if imp[0] == "mod":
                if imp[1] in self.modules:
                    return ("module", imp[1])
                return ("ext", imp[1])
            _, mod, sym = imp
            if mod in self.modules:
                target = self.modules[mod]
                r = self.resolve_symbol(target, sym, _seen)
                if r:
                    return r
                sub = f"{mod}.{sym}"
                if sub in self.modules:
                    return ("module", sub)
                return None
            return ("ext", f"{mod}.{sym}")
        return None

    def resolve_class_expr(self, module, expr):
        if isinstance(expr, ast.Name):
            r = self.resolve_symbol(module, expr.id)
            if r and r[0] == "class":
                return r[1]
        return None

    # -- MRO -------------------------------------------------------------
    def mro(self, key):
        if key in self._mro:
            return self._mro[key]
        c = self.classes[key]
        seqs = [list(self.mro(b)) for b in c.bases] + [list(c.bases)]
        res = [key]
        while True:
            seqs = [s for s in seqs if s]
            if not seqs:
                break
            cand = None
            for s in seqs:
                h = s[0]
                if not any(h in o[1:] for o in seqs):
                    cand = h
                    break
            if cand is None:
                raise AnalysisError(f"inconsistent MRO for {key}")
            res.append(cand)
            for s in seqs:
                if s[0] == cand:
                    del s[0]
        self._mro[key] = res
        return res

    def subclasses(self, key):
        if self._subclasses is None:
            self._subclasses = {}
            for k in self.classes:
                for b in self.mro(k)[1:]:
                    self._subclasses.setdefault(b, set()).add(k)
        return self._subclasses.get(key, set())

    def lookup_method(self, cls_key, name):
        for k in self.mro(cls_key):
            c = self.classes[k]
            if name in c.methods:
                return c.methods[name]
        return None

    def lookup_attr(self, cls_key, name):
        for k in self.mro(cls_key):
            c = self.classes[k]
            if name in c.attrs:
                return c, c.attrs[name]
        return None

    # -- the parser class -------------------------------------------------
    @property
    def parser_key(self):
        if PARSER_ROOT not in self.classes:
            raise AnalysisError("class DDLParser not found in simple_ddl_parser/ddl_parser.py")
        return PARSER_ROOT

    def parser_mro(self):
        return self.mro(self.parser_key)

    def in_parser_family(self, cls_key):
        return cls_key in self.parser_mro()

    def parser_methods(self):
        """name -> Func as visible on DDLParser (first definition on the MRO)."""
        if getattr(self, "_pm", None) is not None:
            return self._pm
        out = {}
        for k in self.parser_mro():
            for n, f in self.classes[k].methods.items():
                out.setdefault(n, f)
        self._pm = out
        return out

    def all_funcs(self):
        for m in self.modules.values():
            if m.name.endswith("parsetab"):
                continue
            for f in m.funcs.values():
                yield f
            for c in m.classes.values():
                for f in c.methods.values():
                    yield f

    def func(self, fid):
        mod, qual = fid.split(":")
        m = self.modules.get(mod)
        if m is None:
            raise AnalysisError(f"anchor vanished: module {mod}")
        if "." in qual:
            c, n = qual.split(".")
            if c not in m.classes or n not in m.classes[c].methods:
                raise AnalysisError(f"anchor vanished: {fid}")
            return m.classes[c].methods[n]
        if qual not in m.funcs:
            raise AnalysisError(f"anchor vanished: {fid}")
        return m.funcs[qual]

    def parser_method(self, name):
        f = self.parser_methods().get(name)
        if f is None:
            raise AnalysisError(f"anchor vanished: parser method {name}")
        return f


# ---------------------------------------------------------------------------
# call resolution
# ---------------------------------------------------------------------------

def dotted(expr):
    """a.b.c -> 'a.b.c' for Name/Attribute chains, else None."""
    parts = []
    while isinstance(expr, ast.Attribute):
        parts.append(expr.attr)
        expr = expr.value
    if isinstance(expr, ast.Name):
        parts.append(expr.id)
        return ".".join(reversed(parts))
    return None


class CallGraph:
    """Resolved call graph.  A callee is a Func, or a string 'ext:<dotted>' for
    calls leaving the package, or 'unresolved:<text>'."""

    BUILTINS = {"list", "len", "int", "str", "dict", "isinstance", "enumerate", "range", "set",
                "tuple", "bool", "getattr", "setattr", "type", "open", "super", "zip", "sorted",
                "any", "all", "print", "min", "max", "abs", "float", "repr", "hasattr", "iter",
                "next", "map", "filter", "reversed", "sum", "frozenset", "bytes", "id", "vars",
                "globals", "locals", "issubclass", "dataclass", "field", "ValueError", "KeyError",
                "Exception", "TypeError"}

    def __init__(self, model):
        self.m = model
        self.calls = {}     # Func.id -> list of (ast.Call, [callee...])
        self.total = 0
        self.resolved = 0
        self.by_name = {}
        for f in model.all_funcs():
            self.by_name.setdefault(f.name, []).append(f)
        for f in model.all_funcs():
            self.calls[f.id] = self._scan(f)

    def _cls_key(self, f):
        return (f.module.name, f.cls) if f.cls else None

    def resolve_self_method(self, f, name):
        """Candidates for self.<name> inside method f."""
        ck = self._cls_key(f)
        if ck is None:
            return []
        m = self.m
        if m.in_parser_family(ck):
            r = m.lookup_method(m.parser_key, name)
            return [r] if r else []
        cands = []
        for k in [ck] + sorted(m.subclasses(ck)):
            r = m.lookup_method(k, name)
            if r and r not in cands:
                cands.append(r)
        return cands

    def resolve_call(self, f, call):
        fn = call.func
        m = self.m
        if isinstance(fn, ast.Name):
            r = m.resolve_symbol(f.module, fn.id)
            if r:
                if r[0] == "func":
                    return [r[1]]
                if r[0] == "class":
                    init = m.lookup_method(r[1], "__init__")
                    post = m.lookup_method(r[1], "__post_init__")
                    out = [x for x in (init, post) if x]
                    return out or [f"ext:ctor:{r[1][1]}"]
                if r[0] == "ext":
                    return [f"ext:{r[1]}"]
            if fn.id in self.BUILTINS:
                return [f"ext:builtins.{fn.id}"]
            return None
        if isinstance(fn, ast.Attribute):
            recv = fn.value
            if isinstance(recv, ast.Name) and recv.id in ("self", "cls") and f.cls:
                c = self.resolve_self_method(f, fn.attr)
                if c:
                    return c
                return None
            if isinstance(recv, ast.Call) and isinstance(recv.func, ast.Name) and recv.func.id == "super" and f.cls:
                ck = self._cls_key(f)
                out = []
                for k in [ck] + sorted(m.subclasses(ck)):
                    mro = m.mro(k)
                    i = mro.index(ck)
                    for kk in mro[i + 1:]:
                        if fn.attr in m.classes[kk].methods:
                            g = m.classes[kk].methods[fn.attr]
                            if g not in out:
                                out.append(g)
                            break
                return out or None
            d = dotted(recv)
            if d:
                head = d.split(".")[0]
                r = m.resolve_symbol(f.module, head)
                if r and r[0] == "ext":
                    return [f"ext:{r[1]}{d[len(head):]}.{fn.attr}"]
                if r and r[0] == "module":
                    tm = m.modules[r[1]]
                    rr = m.resolve_symbol(tm, fn.attr)
                    if rr and rr[0] == "func":
                        return [rr[1]]
                    return [f"value:{r[1]}.{fn.attr}"]
                if r and r[0] == "class":
                    g = m.lookup_method(r[1], fn.attr)
                    if g:
                        return [g]
            # method on a value: str/dict/list methods are external; package methods by unique name
            cands = [g for g in self.by_name.get(fn.attr, []) if g.cls]
            if cands and fn.attr not in ("get", "update", "append", "format", "items", "keys", "values"):
                return cands
            if cands:
                # dict-like API of BaseData: receiver may be a table object
                return [f"ext:method.{fn.attr}"] + cands
            return [f"ext:method.{fn.attr}"]
        return None

    def _scan(self, f):
        out = []
        for n in ast.walk(f.node):
            if isinstance(n, ast.Call):
                self.total += 1
                r = self.resolve_call(f, n)
                if r is None:
                    r = [f"unresolved:{ast.unparse(n.func)}"]
                else:
                    self.resolved += 1
                out.append((n, r))
        return out

    def callees(self, f):
        for call, cs in self.calls.get(f.id, []):
            for c in cs:
                yield call, c

    def reachable(self, roots, stop=None):
        """Funcs reachable from roots (iterable of Func) through package calls."""
        seen, order, st = set(), [], list(roots)
        while st:
            f = st.pop()
            if f.id in seen:
                continue
            seen.add(f.id)
            order.append(f)
            if stop and stop(f):
                continue
            for _, c in self.callees(f):
                if isinstance(c, Func) and c.id not in seen:
                    st.append(c)
        return order

    def find_path(self, root, target_pred):
        """Shortest call path from root to a function satisfying target_pred."""
        from collections import deque
        q = deque([(root, [root.qual])])
        seen = {root.id}
        while q:
            f, path = q.popleft()
            if target_pred(f):
                return path
            for _, c in self.callees(f):
                if isinstance(c, Func) and c.id not in seen:
                    seen.add(c.id)
                    q.append((c, path + [c.qual]))
        return None
