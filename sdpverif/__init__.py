"""sdpverif - static verification of simple-ddl-parser (see /verif/DESIGN.md).

Nothing in this package imports or executes a module of /repo.  The only code
that runs is the analyser itself and, as a library, PLY's table generator.
"""
import os

REPO = os.environ.get("SDPVERIF_REPO", "/repo")
PKG = os.path.join(REPO, "simple_ddl_parser")
VERIF = os.path.dirname(os.path.dirname(os.path.abspath(__file__)))
