"""Statement-level control-flow graph, dominators and guard atoms for one function."""
import ast


class Node:
    __slots__ = ("id", "stmt", "kind", "succ", "pred")

    def __init__(self, id_, stmt, kind):
        self.id, self.stmt, self.kind = id_, stmt, kind
        self.succ, self.pred = [], []

    def __repr__(self):
        return f"<{self.id}:{self.kind}:{getattr(self.stmt, 'lineno', '-')}>"


class CFG:
    """Nodes: 'entry', 'exit', 'raise-exit', one node per simple statement and one
    per branching header (if/while/for test).  Edges carry no labels; guard atoms
    are computed syntactically (structured code, no goto)."""

    def __init__(self, func_node):
        self.nodes = []
        self.entry = self._new(None, "entry")
        self.exit = self._new(None, "exit")
        self.rexit = self._new(None, "raise-exit")
        self.of_stmt = {}
        ends = self._block(func_node.body, [self.entry], None, None, [])
        for e in ends:
            self._edge(e, self.exit)
        self._dom = None
        self._pdom = None

    def _new(self, stmt, kind):
        n = Node(len(self.nodes), stmt, kind)
        self.nodes.append(n)
        if stmt is not None:
            self.of_stmt[id(stmt)] = n
        return n

    def _edge(self, a, b):
        if b not in a.succ:
            a.succ.append(b)
            b.pred.append(a)

    def _block(self, stmts, preds, brk, cont, handlers):
        """returns the list of open ends after the block; brk/cont are lists collecting jump sources."""
        for st in stmts:
            preds = self._stmt(st, preds, brk, cont, handlers)
        return preds

    def _stmt(self, st, preds, brk, cont, handlers):
        if isinstance(st, ast.If):
            h = self._new(st, "if")
            for p in preds:
                self._edge(p, h)
            a = self._block(st.body, [h], brk, cont, handlers)
            b = self._block(st.orelse, [h], brk, cont, handlers) if st.orelse else [h]
            return a + b
        if isinstance(st, (ast.While, ast.For)):
            h = self._new(st, "loop")
            for p in preds:
                self._edge(p, h)
            mybrk, mycont = [], []
            body_end = self._block(st.body, [h], mybrk, mycont, handlers)
            for e in body_end + mycont:
                self._edge(e, h)
            after = self._block(st.orelse, [h], brk, cont, handlers) if st.orelse else [h]
            return after + mybrk
        if isinstance(st, ast.Try):
            h = self._new(st, "try")
            for p in preds:
                self._edge(p, h)
            my_handlers = []
            hstarts = []
            for hd in st.handlers:
                hn = self._new(hd, "except")
                hstarts.append(hn)
                my_handlers.append(hn)
            body_end = self._block(st.body, [h], brk, cont, handlers + [my_handlers])
            # any statement of the body may jump to any handler
            for s in ast.walk(ast.Module(body=st.body, type_ignores=[])):
                n = self.of_stmt.get(id(s))
                if n:
                    for hn in hstarts:
                        self._edge(n, hn)
            self._edge(h, hstarts[0]) if hstarts else None
            else_end = self._block(st.orelse, body_end, brk, cont, handlers) if st.orelse else body_end
            ends = list(else_end)
            for hd, hn in zip(st.handlers, hstarts):
                ends += self._block(hd.body, [hn], brk, cont, handlers)
            if st.finalbody:
                ends = self._block(st.finalbody, ends, brk, cont, handlers)
            return ends
        if isinstance(st, ast.With):
            h = self._new(st, "with")
            for p in preds:
                self._edge(p, h)
            return self._block(st.body, [h], brk, cont, handlers)
        n = self._new(st, "stmt")
        for p in preds:
            self._edge(p, n)
        if isinstance(st, ast.Return):
            self._edge(n, self.exit)
            return []
        if isinstance(st, ast.Raise):
            if handlers:
                for hn in handlers[-1]:
                    self._edge(n, hn)
            else:
                self._edge(n, self.rexit)
            return []
        if isinstance(st, ast.Break):
            if brk is not None:
                brk.append(n)
            return []
        if isinstance(st, ast.Continue):
            if cont is not None:
                cont.append(n)
            return []
        return [n]

    # -- dominators --------------------------------------------------------
    def dominators(self):
        if self._dom is None:
            self._dom = self._solve(self.entry, lambda n: n.pred)
        return self._dom

    def _solve(self, root, preds):
        allids = {n.id for n in self.nodes}
        dom = {n.id: set(allids) for n in self.nodes}
        dom[root.id] = {root.id}
        changed = True
        while changed:
            changed = False
            for n in self.nodes:
                if n is root:
                    continue
                ps = [p for p in preds(n)]
                if not ps:
                    new = {n.id}        # unreachable
                else:
                    new = set.intersection(*[dom[p.id] for p in ps]) | {n.id}
                if new != dom[n.id]:
                    dom[n.id] = new
                    changed = True
        return dom

    def node_of(self, stmt):
        return self.of_stmt.get(id(stmt))

    def dominates(self, a_stmt, b_stmt):
        a, b = self.node_of(a_stmt), self.node_of(b_stmt)
        if a is None or b is None:
            return False
        return a.id in self.dominators()[b.id]

    def reachable_from_entry(self, stmt):
        n = self.node_of(stmt)
        seen, st = set(), [self.entry]
        while st:
            x = st.pop()
            if x.id in seen:
                continue
            seen.add(x.id)
            st.extend(x.succ)
        return n is not None and n.id in seen


# ---------------------------------------------------------------------------
# guard atoms (syntactic control dependence for structured code)
# ---------------------------------------------------------------------------

def _always_exits(stmts):
    if not stmts:
        return False
    last = stmts[-1]
    if isinstance(last, (ast.Return, ast.Raise, ast.Continue, ast.Break)):
        return True
    if isinstance(last, ast.If) and last.orelse:
        return _always_exits(last.body) and _always_exits(last.orelse)
    return False


def guards_of(func_node):
    """Map id(stmt) -> list of (test expr, polarity) controlling the statement:
    enclosing if/while tests (else arms negated) plus negations of earlier
    sibling `if` statements whose body always leaves the block."""
    out = {}

    def walk(stmts, g):
        cur = list(g)
        for st in stmts:
            out[id(st)] = list(cur)
            if isinstance(st, ast.If):
                walk(st.body, cur + [(st.test, True)])
                walk(st.orelse, cur + [(st.test, False)])
                if _always_exits(st.body) and not st.orelse:
                    cur = cur + [(st.test, False)]
                elif st.orelse and _always_exits(st.orelse) and not _always_exits(st.body):
                    cur = cur + [(st.test, True)]
            elif isinstance(st, ast.While):
                walk(st.body, cur + [(st.test, True)])
                walk(st.orelse, cur)
            elif isinstance(st, ast.For):
                walk(st.body, cur + [(ast.Constant(value="<loop>"), True)])
                walk(st.orelse, cur)
            elif isinstance(st, ast.Try):
                walk(st.body, cur)
                for h in st.handlers:
                    walk(h.body, cur + [(ast.Constant(value=f"<except {ast.unparse(h.type) if h.type else ''}>"), True)])
                walk(st.orelse, cur)
                walk(st.finalbody, cur)
            elif isinstance(st, ast.With):
                walk(st.body, cur)
    walk(func_node.body, [])
    return out


def conjuncts(test, polarity):
    """Split a guard into atomic (source text, polarity) conjuncts where that is sound:
    `a and b` (true) -> a, b ; `not x` flips ; `a or b` (false) -> not a, not b."""
    if isinstance(test, ast.UnaryOp) and isinstance(test.op, ast.Not):
        return conjuncts(test.operand, not polarity)
    if isinstance(test, ast.BoolOp):
        if isinstance(test.op, ast.And) and polarity:
            return [c for v in test.values for c in conjuncts(v, True)]
        if isinstance(test.op, ast.Or) and not polarity:
            return [c for v in test.values for c in conjuncts(v, False)]
    return [(ast.unparse(test), polarity)]


def guard_atoms(func_node, stmt):
    g = guards_of(func_node).get(id(stmt), [])
    atoms = []
    for t, pol in g:
        atoms.extend(conjuncts(t, pol))
    return atoms
