"""Abstract evaluation of the entry points (C19): parse_from_file, the cli functions, dump_data_to_file.

The functions are evaluated by the E3 interpreter with the outside world replaced by recorders: open() returns a file object
whose read() yields a content token, DDLParser(...) and .run(...) are recorded, os / logging / pprint / json / sys calls are
recorded or answered from the scenario.  What is decided is WHICH values flow WHERE - independent of how the functions are
written (locals, helper functions, **kwargs dictionaries, early returns)."""
import ast

from .core import AnalysisError
from .pyabs import Interp, Obj, W, PyRaise, Raised, LexUnknown, NonUniform, lift

CONTENT = W(["<content of the file #%d>" % i for i in range(6)])
RESULT = W(["<result of run() #%d>" % i for i in range(6)])


class _Exit(Exception):
    pass


class EntryInterp(Interp):
    def __init__(self, model, tokens_ns, world=None):
        super().__init__(model, tokens_ns, Obj())
        self.log = []               # (what, args, kwargs)
        self.world = world or {}

    # names the base interpreter does not know
    def name(self, id_, env):
        if id_ not in env and id_ in ("open", "print", "exit"):
            return ("builtin", id_)
        return super().name(id_, env)

    @staticmethod
    def _path(v):
        return Obj(_kind="path", _p=v)

    def binop(self, op, a, b):
        # pathlib: path / "name"
        if isinstance(op, ast.Div) and isinstance(a, Obj) and getattr(a, "_kind", None) == "path":
            bb = b._p if isinstance(b, Obj) and getattr(b, "_kind", None) == "path" else b
            return self._path(lift(lambda x, y: x.rstrip("/") + "/" + y, a._p, bb))
        return super().binop(op, a, b)

    def to_str(self, x):
        if isinstance(x, Obj) and getattr(x, "_kind", None) == "path":
            return x._p
        return super().to_str(x)

    def builtin(self, name, args, kwargs):
        args = [a._p if isinstance(a, Obj) and getattr(a, "_kind", None) == "path" and name == "open" else a for a in args]
        if name == "open":
            self.log.append(("open", list(args), dict(kwargs)))
            return Obj(_kind="file", _args=list(args), _kwargs=dict(kwargs))
        if name == "print":
            self.log.append(("print", list(args), dict(kwargs)))
            return None
        if name == "exit":
            raise _Exit()
        if name == "type" and len(args) == 1:
            return ("type", object)
        return super().builtin(name, args, kwargs)

    def call(self, e, env):
        # only plain names are looked at here (no side effect in evaluating them twice)
        if not isinstance(e.func, ast.Name):
            return super().call(e, env)
        try:
            f = self.ev(e.func, env)
        except LexUnknown:
            return super().call(e, env)
        if isinstance(f, tuple) and f and f[0] == "class":
            args, kwargs = self._args(e, env)
            cname = f[1][1] if isinstance(f[1], tuple) else str(f[1])
            self.log.append(("construct " + cname, args, kwargs))
            return Obj(_kind="instance:" + cname)
        if isinstance(f, tuple) and f and f[0] == "func" and f[1].name in self.world.get("intercept", ()):
            args, kwargs = self._args(e, env)
            self.log.append(("call " + f[1].name, args, kwargs))
            hook = self.world.get("on_" + f[1].name)
            return hook(self, args, kwargs) if hook else self.world.get("returns", {}).get(f[1].name)
        return super().call(e, env)

    def _args(self, e, env):
        args = []
        for a in e.args:
            if isinstance(a, ast.Starred):
                args.extend(self.iterate(self.ev(a.value, env)))
            else:
                args.append(self.ev(a, env))
        kwargs = {}
        for k in e.keywords:
            if k.arg is None:
                kwargs.update(self.ev(k.value, env))
            else:
                kwargs[k.arg] = self.ev(k.value, env)
        return args, kwargs

    def method(self, o, m, args, kwargs):
        if isinstance(o, Obj) and getattr(o, "_kind", None):
            kind = o._kind
            if kind == "file":
                if m in ("read",):
                    self.log.append(("read", [o], {}))
                    return CONTENT
                if m in ("write",):
                    self.log.append(("write", [o] + list(args), dict(kwargs)))
                    return None
                if m in ("close", "__enter__", "__exit__"):
                    return o if m == "__enter__" else None
            if kind.startswith("instance:"):
                self.log.append((f"{kind[9:]}.{m}", list(args), dict(kwargs)))
                if m == "run":
                    return RESULT
                if m == "parse_args":
                    return self.world["args"]
                if m == "add_argument":
                    return None
                return None
            if kind == "logger":
                return None
            if kind == "path":
                if m == "mkdir":
                    # Path.mkdir(parents=False, exist_ok=False): recorded like os.makedirs / os.mkdir
                    parents = kwargs.get("parents", args[1] if len(args) > 1 else False)
                    self.log.append(("os.makedirs" if parents else "os.mkdir", [o._p], {"exist_ok": kwargs.get("exist_ok", False)}))
                    return None
                if m == "open":
                    self.log.append(("open", [o._p] + list(args), dict(kwargs)))
                    return Obj(_kind="file", _args=[o._p] + list(args), _kwargs=dict(kwargs))
                if m in ("is_dir", "exists"):
                    self.log.append(("isdir", [o._p], {}))
                    return self.world.get("isdir", False)
                if m in ("joinpath",):
                    return self._path(lift(lambda x, *ys: "/".join([x.rstrip("/")] + list(ys)), o._p, *args))
                if m in ("__str__", "as_posix", "__fspath__"):
                    return o._p
        if o is None and m in ("info", "debug", "warning", "error", "exception", "critical"):
            return None
        return super().method(o, m, args, kwargs)

    def attribute(self, e, env):
        if isinstance(e.value, ast.Name) and e.value.id == "os" and e.attr.startswith("O_") and "os" not in env:
            import os as _os
            if isinstance(getattr(_os, e.attr, None), int):
                return getattr(_os, e.attr)         # the open(2) flag constants
        o = self.ev(e.value, env)
        if isinstance(o, Obj) and getattr(o, "_kind", None) == "path":
            if e.attr in ("name", "stem", "suffix", "parent"):
                import posixpath
                fn = {"name": posixpath.basename, "stem": lambda x: posixpath.splitext(posixpath.basename(x))[0],
                      "suffix": lambda x: posixpath.splitext(x)[1], "parent": posixpath.dirname}[e.attr]
                v = lift(fn, o._p)
                return self._path(v) if e.attr == "parent" else v
            return ("method", o, e.attr)
        if isinstance(o, Obj) and getattr(o, "_kind", None) in ("file", "logger") or (
                isinstance(o, Obj) and str(getattr(o, "_kind", "")).startswith("instance:")):
            if not hasattr(o, e.attr) or e.attr in ("read", "write", "run", "parse_args", "add_argument", "info", "error", "debug", "warning"):
                return ("method", o, e.attr)
        tmp = ast.Attribute(value=ast.Name(id="__recv__", ctx=ast.Load()), attr=e.attr, ctx=ast.Load())
        env2 = dict(env)
        env2["__recv__"] = o
        return super().attribute(tmp, env2)

    def external(self, name, args, kwargs):
        w = self.world
        if name.startswith("logging."):
            return Obj(_kind="logger") if name.endswith("getLogger") else None
        if name in ("pprint.pprint", "pprint.pp"):
            self.log.append(("pprint", list(args), dict(kwargs)))
            return None
        if name in ("sys.exit", "os._exit"):
            raise _Exit()
        if name == "os.path.exists":
            return w.get("exists", True)
        if name == "os.path.isfile":
            return w.get("isfile", True)
        if name == "os.path.isdir":
            self.log.append(("isdir", list(args), {}))
            return w.get("isdir", False)
        if name == "os.listdir":
            return list(w.get("listdir", []))
        if name == "os.path.join":
            return lift(lambda *xs: "/".join(x.rstrip("/") if i < len(xs) - 1 else x for i, x in enumerate(xs)), *args)
        if name in ("os.makedirs", "os.mkdir"):
            self.log.append((name, list(args), dict(kwargs)))
            return None
        if name == "os.open":
            # a file descriptor: remembered with its path and flags until os.fdopen turns it into a file object
            return Obj(_kind="fd", _path=args[0]._p if isinstance(args[0], Obj) and getattr(args[0], "_kind", None) == "path" else args[0],
                       _flags=args[1] if len(args) > 1 else kwargs.get("flags", 0))
        if name == "os.fdopen" and args and isinstance(args[0], Obj) and getattr(args[0], "_kind", None) == "fd":
            import os as _os
            fd, mode = args[0], (args[1] if len(args) > 1 else kwargs.get("mode", "r"))
            fl = fd._flags if isinstance(fd._flags, int) else 0
            writes = bool(fl & (_os.O_WRONLY | _os.O_RDWR))
            if writes and (fl & _os.O_CREAT) and (fl & _os.O_TRUNC) and not (fl & _os.O_APPEND):
                eff = "w"               # what open(path, "w") does
            elif writes:
                eff = f"{mode} on a descriptor opened without O_TRUNC / O_CREAT (an existing file keeps its old tail)"
            else:
                eff = mode
            self.log.append(("open", [fd._path, eff], {k: v for k, v in kwargs.items() if k != "mode"}))
            return Obj(_kind="file", _args=[fd._path, eff], _kwargs=dict(kwargs))
        if name in ("json.dump", "json.dumps"):
            self.log.append((name, list(args), dict(kwargs)))
            return ("json.dumps", args[0]) if name == "json.dumps" else None
        if name in ("pathlib.Path", "pathlib.PurePath", "pathlib.PosixPath"):
            if len(args) == 1:
                return self._path(args[0]._p if isinstance(args[0], Obj) and getattr(args[0], "_kind", None) == "path" else args[0])
            return self._path(lift(lambda *xs: "/".join(x.rstrip("/") if i < len(xs) - 1 else x for i, x in enumerate(xs)), *args))
        if name.startswith("argparse."):
            return Obj(_kind="instance:ArgumentParser")
        return super().external(name, args, kwargs)


def evaluate(ctx, func_id, args, kwargs=None, world=None):
    """evaluate the package function `module:qualname`; returns (result or ('exit',), log)"""
    m = ctx.model
    f = m.func(func_id)
    it = EntryInterp(m, ctx.grammar.tokens_ns, world)
    try:
        res = it.call_func(f, list(args), dict(kwargs or {}))
    except _Exit:
        res = ("exit",)
    return res, it.log
