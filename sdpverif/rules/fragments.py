"""Runs an E4 fragment (spec x lexer x LALR fixed point with abstract action evaluation) and turns
its result into obligations of a check."""
import importlib

from ..core import AnalysisError
from ..deriv import Explorer

RULES = {
    "O-accept": "every transition of the fixed point has a parser action; accepting spec states reach `accept`",
    "O-segment": "no non-accumulator symbol spans two segment instances; accumulator folds start at a segment begin",
    "O-value": "every fold of a level accumulator produces exactly what the spec expects from the folded words",
    "O-raise": "no semantic action raises on a derivation of the fragment",
    "O-case": "both spellings of every keyword edge give the same token type and flag update",
    "O-uniform": "words the fragment treats as one class (same kind of name / number / spelling) are lexed and handled alike",
    "O-final": "the final output (Output.format evaluated abstractly on the accepted statement) is what the property documents",
}


def run_fragment(ck, ctx, module, label=None, self_attrs=None, only_rules=None, **build_kw):
    mod = importlib.import_module(f"sdpverif.specs.{module}")
    spec, oracle = mod.build(ctx, **build_kw)
    if label:
        spec.name = label
    ex = Explorer(ctx, spec, oracle, self_attrs=self_attrs).explore()
    if hasattr(oracle, "finish"):
        oracle.finish(ex)
    if ex.n_unevaluated:
        raise AnalysisError(f"fragment {spec.name}: {ex.n_unevaluated} action evaluation(s) outside the interpreted subset: "
                            + "; ".join(list(ex.unevaluated)[:3]))
    by_rule = {}
    for (rule, key), f in ex.findings.items():
        if only_rules is not None and rule not in only_rules:
            continue
        by_rule.setdefault(rule, []).append(f)
        ck.ob(rule, key, False, f.detail, f"fragment {spec.name}", witness=f.witness)
    counts = {"O-accept": ex.n_trans, "O-segment": ex.n_reductions, "O-value": getattr(oracle, "checked", 0),
              "O-raise": ex.n_actions_evaluated, "O-case": ex.n_trans, "O-uniform": ex.n_trans + ex.n_actions_evaluated,
              "O-final": getattr(oracle, "checked", 0)}
    for rule, text in RULES.items():
        if only_rules is not None and rule not in only_rules:
            continue
        if rule not in by_rule:
            ck.ob(rule, f"{spec.name}: all {counts[rule]} instances", True,
                  f"{text} ({counts[rule]} instances in {ex.n_configs} configurations)", f"fragment {spec.name}")
    ck.states += ex.n_configs
    ck.transitions += ex.n_trans
    ck.count("fragment_configurations", ex.n_configs)
    ck.count("fragment_transitions", ex.n_trans)
    ck.count("reductions", ex.n_reductions)
    ck.count("actions_abstractly_evaluated", ex.n_actions_evaluated)
    ck.count("value_checks", getattr(oracle, "checked", 0))
    ck.analysed[f"max_lr_stack_depth[{spec.name}]"] = ex.max_depth
    ck.analysed[f"actions_reducing[{spec.name}]"] = dict(ex.reduced_by.most_common(40))
    for smp in ex.samples[:6]:
        ck.samples_extra.append({"fragment": spec.name, **smp})
    return ex
