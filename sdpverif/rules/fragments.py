"""Runs E4 fragments (spec x lexer x LALR fixed point with abstract action evaluation) and turns their results into
obligations of a check.  Several fragments of one check run in forked worker processes."""
import importlib
import multiprocessing as mp
import os

from ..core import AnalysisError
from ..deriv import Explorer

RULES = {
    "O-accept": "every transition of the fixed point has a parser action; accepting spec states reach `accept`",
    "O-segment": "no non-accumulator symbol spans two segment instances; accumulator folds start at a segment begin",
    "O-value": "every fold of a level accumulator produces exactly what the spec expects from the folded words",
    "O-raise": "no semantic action raises on a derivation of the fragment",
    "O-case": "both spellings of every keyword edge give the same token type and flag update",
    "O-uniform": "words the fragment treats as one class (same kind of name / number / spelling) are lexed and handled alike",
    "O-final": "the final output (Output.format evaluated abstractly on the accepted statement) is what the property documents",
    "O-counter": "the lexer's nesting counters stay within the nesting the fragment writes (they follow the brackets of the statement)",
    "O-keys": "final output: primary_key is the declared key, key columns NOT NULL, unique flags, FOREIGN KEY clauses on their columns",
    "O-shape": "final output: documented table / column skeleton, booleans, JSON-encodable values",
    "O-mode": "final output per mode: no mode raises, common fields equal the default mode, dialect keys only where documented",
}


class Summary:
    """picklable result of one fragment exploration"""

    def __init__(self, spec_name, ex, oracle):
        self.name = spec_name
        self.findings = [(f.rule, f.key, f.detail, f.witness) for f in ex.findings.values()]
        self.n_configs, self.n_trans, self.n_reductions = ex.n_configs, ex.n_trans, ex.n_reductions
        self.n_actions_evaluated, self.n_unevaluated = ex.n_actions_evaluated, ex.n_unevaluated
        self.unevaluated = list(ex.unevaluated)[:3]
        self.max_depth = ex.max_depth
        self.reduced_by = dict(ex.reduced_by.most_common(40))
        self.samples = ex.samples[:6]
        self.flags_touched = set(ex.flags_touched)
        self.visited_lex = ex.visited_lex
        self.checked = getattr(oracle, "checked", 0)
        self.n_memo_hits = ex.n_memo_hits
        self.n_split = ex.n_split_evaluations
        self.n_final = getattr(oracle, "checked_total", 0)


def _explore(ctx, module, label, self_attrs, build_kw):
    mod = importlib.import_module(f"sdpverif.specs.{module}")
    spec, oracle = mod.build(ctx, **build_kw)
    if label:
        spec.name = label
    ex = Explorer(ctx, spec, oracle, self_attrs=self_attrs).explore()
    if hasattr(oracle, "finish"):
        oracle.finish(ex)
    return Summary(spec.name, ex, oracle)


def _record(ck, sm, only_rules=None):
    if sm.n_unevaluated:
        raise AnalysisError(f"fragment {sm.name}: {sm.n_unevaluated} action evaluation(s) outside the interpreted subset: "
                            + "; ".join(sm.unevaluated))
    by_rule = {}
    for rule, key, detail, witness in sm.findings:
        if only_rules is not None and rule not in only_rules:
            continue
        by_rule.setdefault(rule, []).append(key)
        ck.ob(rule, key, False, detail, f"fragment {sm.name}", witness=witness)
    counts = {"O-accept": sm.n_trans, "O-segment": sm.n_reductions, "O-value": sm.checked, "O-raise": sm.n_actions_evaluated,
              "O-case": sm.n_trans, "O-uniform": sm.n_trans + sm.n_actions_evaluated, "O-final": sm.checked, "O-counter": sm.n_trans,
              "O-keys": sm.n_final, "O-shape": sm.n_final, "O-mode": sm.n_final}
    for rule, text in RULES.items():
        if only_rules is not None and rule not in only_rules:
            continue
        if rule not in by_rule:
            ck.ob(rule, f"{sm.name}: all {counts[rule]} instances", True,
                  f"{text} ({counts[rule]} instances in {sm.n_configs} configurations)", f"fragment {sm.name}")
    ck.states += sm.n_configs
    ck.transitions += sm.n_trans
    ck.count("fragment_configurations", sm.n_configs)
    ck.count("fragment_transitions", sm.n_trans)
    ck.count("reductions", sm.n_reductions)
    ck.count("actions_abstractly_evaluated", sm.n_actions_evaluated)
    ck.count("action_evaluations_served_from_memo", sm.n_memo_hits)
    ck.count("per_exemplar_evaluations", sm.n_split)
    ck.count("value_checks", sm.checked)
    ck.count("final_outputs_evaluated", sm.n_final)
    ck.analysed[f"max_lr_stack_depth[{sm.name}]"] = sm.max_depth
    ck.analysed[f"actions_reducing[{sm.name}]"] = sm.reduced_by
    for smp in sm.samples:
        ck.samples_extra.append({"fragment": sm.name, **smp})


class _Ex:
    """what callers of run_fragment use of the explorer"""

    def __init__(self, sm):
        self.flags_touched, self.visited_lex = sm.flags_touched, sm.visited_lex
        self.n_configs, self.n_trans = sm.n_configs, sm.n_trans


def run_fragment(ck, ctx, module, label=None, self_attrs=None, only_rules=None, **build_kw):
    sm = _explore(ctx, module, label, self_attrs, build_kw)
    _record(ck, sm, only_rules)
    return _Ex(sm)


_JOBS = None


def _job(i):
    ctx, jobs = _JOBS
    j = jobs[i]
    try:
        return ("ok", _explore(ctx, j["module"], j.get("label"), j.get("self_attrs"), j.get("build_kw", {})))
    except AnalysisError as e:
        return ("analysis-error", str(e))


def run_fragments(ck, ctx, jobs):
    """jobs: [{module, label?, self_attrs?, only_rules?, build_kw?}]; explored in forked workers, recorded in order"""
    global _JOBS
    # build the shared engines before forking
    ctx.model, ctx.callgraph, ctx.grammar, ctx.lexer
    n = min(len(jobs), os.cpu_count() or 2, 12, int(os.environ.get("SDPVERIF_JOBS") or 64))
    if n <= 1:
        results = []
        _JOBS = (ctx, jobs)
        results = [_job(i) for i in range(len(jobs))]
    else:
        _JOBS = (ctx, jobs)
        # worker processes of an executor are not daemonic: a fragment may fan its own output-layer evaluations out again
        import concurrent.futures as cf
        with cf.ProcessPoolExecutor(max_workers=n, mp_context=mp.get_context("fork")) as pool:
            results = list(pool.map(_job, range(len(jobs))))
    _JOBS = None
    out = []
    for j, (status, payload) in zip(jobs, results):
        if status != "ok":
            raise AnalysisError(payload)
        _record(ck, payload, j.get("only_rules"))
        out.append(_Ex(payload))
    return out
