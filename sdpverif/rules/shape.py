"""Key-effect helpers: which constant dict keys a function writes / deletes on which receiver, and the
must-assigned keys of a receiver on every normal path through a function (T-KEYS-*)."""
import ast


def recv_text(e):
    try:
        return ast.unparse(e)
    except Exception:
        return None


class KeyEffect:
    __slots__ = ("op", "recv", "key", "node", "stmt")

    def __init__(self, op, recv, key, node, stmt):
        self.op, self.recv, self.key, self.node, self.stmt = op, recv, key, node, stmt

    def __repr__(self):
        return f"{self.op} {self.recv}[{self.key!r}]"


def key_effects(func_node):
    """[(op, receiver text, key | None(dynamic), node, stmt)]; op in store / del / pop / update / update-dynamic / clear / setattr"""
    out = []
    for st in ast.walk(func_node):
        if not isinstance(st, ast.stmt):
            continue
        if isinstance(st, (ast.Assign, ast.AugAssign, ast.AnnAssign)):
            targets = st.targets if isinstance(st, ast.Assign) else [st.target]
            for t in targets:
                for tt in (t.elts if isinstance(t, (ast.Tuple, ast.List)) else [t]):
                    if isinstance(tt, ast.Subscript):
                        k = tt.slice.value if isinstance(tt.slice, ast.Constant) else None
                        out.append(KeyEffect("store", recv_text(tt.value), k, tt, st))
                    elif isinstance(tt, ast.Attribute):
                        out.append(KeyEffect("setattr", recv_text(tt.value), tt.attr, tt, st))
        elif isinstance(st, ast.Delete):
            for t in st.targets:
                if isinstance(t, ast.Subscript):
                    k = t.slice.value if isinstance(t.slice, ast.Constant) else None
                    out.append(KeyEffect("del", recv_text(t.value), k, t, st))
                elif isinstance(t, ast.Attribute):
                    out.append(KeyEffect("delattr", recv_text(t.value), t.attr, t, st))
    for n in ast.walk(func_node):
        if isinstance(n, ast.Call) and isinstance(n.func, ast.Attribute):
            m = n.func.attr
            r = recv_text(n.func.value)
            if m == "pop" and n.args:
                k = n.args[0].value if isinstance(n.args[0], ast.Constant) else None
                if not isinstance(k, int) or isinstance(k, bool):
                    out.append(KeyEffect("pop", r, k, n, None))
            elif m == "update":
                if n.args and isinstance(n.args[0], ast.Dict) and all(isinstance(k, ast.Constant) for k in n.args[0].keys):
                    for k in n.args[0].keys:
                        out.append(KeyEffect("update", r, k.value, n, None))
                elif n.args or n.keywords:
                    for k in n.keywords:
                        if k.arg:
                            out.append(KeyEffect("update", r, k.arg, n, None))
                    if n.args:
                        out.append(KeyEffect("update-dynamic", r, None, n, None))
            elif m in ("clear", "popitem"):
                out.append(KeyEffect("clear", r, None, n, None))
            elif m == "setdefault" and n.args:
                k = n.args[0].value if isinstance(n.args[0], ast.Constant) else None
                out.append(KeyEffect("store", r, k, n, None))
    return out


def must_keys(func_node, recv, seed=frozenset()):
    """constant keys certainly present on `recv` (expression text) at every normal exit of the function, given that the
    keys in `seed` are present on entry.  if/else: intersection; loops: may run zero times; try: body may be skipped;
    `del recv[k]` / recv.pop(k) remove; re-binding of the receiver to a dict literal resets to the literal's keys; any other
    re-binding resets to the empty set."""
    returns = []
    # local names that are the receiver under another name (`column = p[0]`): bound once, to the receiver, never re-bound, and
    # the receiver itself is not re-bound after that point
    names = {recv}
    for st in func_node.body:
        if isinstance(st, ast.Assign) and len(st.targets) == 1 and isinstance(st.targets[0], ast.Name) and recv_text(st.value) == recv:
            nm = st.targets[0].id
            others = [n for n in ast.walk(func_node) if n is not st and isinstance(n, (ast.Assign, ast.AugAssign, ast.AnnAssign, ast.For, ast.NamedExpr))
                      and any(isinstance(x, ast.Name) and x.id == nm and isinstance(x.ctx, ast.Store) for x in ast.walk(n))]
            rebound = [n for n in ast.walk(func_node) if isinstance(n, ast.Assign) and n.lineno > st.lineno and any(recv_text(t) == recv for t in n.targets)]
            if not others and not rebound:
                names.add(nm)

    def is_recv(e):
        return recv_text(e) in names

    def lit_keys(v):
        if isinstance(v, ast.Dict) and all(isinstance(k, ast.Constant) for k in v.keys if k is not None) and None not in v.keys:
            return frozenset(k.value for k in v.keys)
        return None

    def expr_effects(e, cur):
        for n in ast.walk(e):
            if isinstance(n, ast.Call) and isinstance(n.func, ast.Attribute) and is_recv(n.func.value):
                if n.func.attr == "update" and n.args and isinstance(n.args[0], ast.Dict):
                    lk = lit_keys(n.args[0])
                    if lk:
                        cur = cur | lk
                elif n.func.attr == "setdefault" and n.args and isinstance(n.args[0], ast.Constant):
                    cur = cur | {n.args[0].value}
                elif n.func.attr == "pop" and n.args and isinstance(n.args[0], ast.Constant):
                    cur = cur - {n.args[0].value}
                elif n.func.attr in ("clear", "popitem"):
                    cur = frozenset()
        return cur

    def block(stmts, cur):
        for st in stmts:
            if cur is None:
                return None
            if isinstance(st, ast.Assign):
                cur = expr_effects(st.value, cur)
                for t in st.targets:
                    if recv_text(t) == recv:
                        lk = lit_keys(st.value)
                        cur = lk if lk is not None else frozenset()
                    elif isinstance(t, ast.Subscript) and is_recv(t.value) and isinstance(t.slice, ast.Constant):
                        cur = cur | {t.slice.value}
            elif isinstance(st, ast.AugAssign):
                cur = expr_effects(st.value, cur)
            elif isinstance(st, ast.Expr):
                cur = expr_effects(st.value, cur)
            elif isinstance(st, ast.Delete):
                for t in st.targets:
                    if isinstance(t, ast.Subscript) and is_recv(t.value):
                        cur = cur - {t.slice.value} if isinstance(t.slice, ast.Constant) else frozenset()
            elif isinstance(st, ast.Return):
                if st.value is not None:
                    cur = expr_effects(st.value, cur)
                returns.append(cur)
                return None
            elif isinstance(st, ast.Raise):
                return None
            elif isinstance(st, ast.If):
                cur = expr_effects(st.test, cur)
                a = block(st.body, cur)
                b = block(st.orelse, cur)
                cur = b if a is None else a if b is None else a & b
            elif isinstance(st, (ast.For, ast.While)):
                a = block(st.body, cur)
                # loop may run 0 times: removals inside the loop are possible, additions are not certain
                if a is not None:
                    cur = cur & a
                b = block(st.orelse, cur)
                if b is not None:
                    cur = b
            elif isinstance(st, ast.With):
                cur = block(st.body, cur)
            elif isinstance(st, ast.Try):
                a = block(st.body, cur)
                states = []
                if a is not None:
                    e = block(st.orelse, a)
                    if e is not None:
                        states.append(e)
                for h in st.handlers:
                    hb = block(h.body, cur & (a if a is not None else cur))
                    if hb is not None:
                        states.append(hb)
                cur = frozenset.intersection(*states) if states else None
                if cur is not None and st.finalbody:
                    cur = block(st.finalbody, cur)
            elif isinstance(st, (ast.Break, ast.Continue)):
                return cur          # conservative: state at the jump joins the loop exit (handled by intersection above)
        return cur
    end = block(func_node.body, frozenset(seed))
    states = returns + ([end] if end is not None else [])
    if not states:
        return frozenset()
    return frozenset.intersection(*states)
