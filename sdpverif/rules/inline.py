"""single-assignment locals replaced by their expressions at the use sites (pass-through / normalisation rules then see through them)"""
import ast


class _Inline(ast.NodeTransformer):
    def __init__(self, env):
        self.env = env

    def visit_Assign(self, node):
        if len(node.targets) == 1 and isinstance(node.targets[0], ast.Name) and node.targets[0].id in self.env:
            return None             # the definition itself disappears: its value lives on at the use sites
        return self.generic_visit(node)

    def visit_Name(self, node):
        if isinstance(node.ctx, ast.Load) and node.id in self.env:
            import copy
            return self.visit(copy.deepcopy(self.env[node.id]))
        return node


def inline_locals(func_node):
    """a copy of the function in which every local that is assigned exactly once (to an expression, outside loops) is replaced
    by that expression at its uses - `x = f(a); return g(x)` and `return g(f(a))` then look the same to the pass-through rules"""
    import copy
    fn = copy.deepcopy(func_node)
    counts, vals = {}, {}
    for n in ast.walk(fn):
        if isinstance(n, ast.Assign) and len(n.targets) == 1 and isinstance(n.targets[0], ast.Name):
            counts[n.targets[0].id] = counts.get(n.targets[0].id, 0) + 1
            vals[n.targets[0].id] = n.value
        elif isinstance(n, (ast.For, ast.AugAssign, ast.With)):
            tg = n.target if not isinstance(n, ast.With) else None
            for x in ast.walk(tg) if tg is not None else []:
                if isinstance(x, ast.Name):
                    counts[x.id] = counts.get(x.id, 0) + 2
    params = {a.arg for a in fn.args.args + fn.args.kwonlyargs}
    env = {k: v for k, v in vals.items() if counts.get(k) == 1 and k not in params}
    return _Inline(env).visit(fn)


