"""T-CASE-LOOKUP / T-CASE-LIT: keyword comparisons must be case-insensitive (C05).

T-CASE-LIT resolves, per grammar alternative of the action, which symbol sits at the compared position (constant
subscripts of `p` / `p_list`, with `remove_par` and `len(p)` guards taken into account).  Only positions that hold a raw
identifier (`ID` terminal or the `id` nonterminal - the lexer upper-cases every other token) compared with an alphabetic
literal without .upper()/.lower() are reported."""
import ast

from ..cfg import guard_atoms
from . import state as S

RAW = {"ID", "id"}
CASE_FUNCS = ("upper", "lower", "casefold")


def _alpha(s):
    return isinstance(s, str) and any(c.isalpha() for c in s)


def _lits(e):
    if isinstance(e, ast.Constant) and _alpha(e.value):
        return [e.value]
    if isinstance(e, (ast.List, ast.Tuple, ast.Set)) and e.elts and all(isinstance(x, ast.Constant) for x in e.elts):
        out = [x.value for x in e.elts if _alpha(x.value)]
        return out
    return []


def _normalised(e):
    """expression applies upper()/lower() to the token text"""
    for n in ast.walk(e):
        if isinstance(n, ast.Call) and isinstance(n.func, ast.Attribute) and n.func.attr in CASE_FUNCS:
            return True
    return False


class PList:
    """how a local list relates to the production: plain (list(p) / p) or with parentheses removed"""

    def __init__(self, removed_par, dirty=False):
        self.removed_par, self.dirty = removed_par, dirty


def plist_vars(func):
    """{name: PList} for locals bound to list(p) / remove_par(list(p)) / remove_par(p_list=list(p)); `p` itself is plain.
    A variable that is mutated in place (pop / del / insert / item store) before use is marked dirty."""
    out = {"p": PList(False)}
    params = [a for a in func.params if a != "self"]
    for n in ast.walk(func.node):
        if isinstance(n, ast.Assign) and len(n.targets) == 1 and isinstance(n.targets[0], ast.Name):
            v = n.value
            t = n.targets[0].id
            txt = ast.unparse(v)
            if txt in ("list(p)",):
                out[t] = PList(False)
            elif txt in ("remove_par(list(p))", "remove_par(p_list=list(p))"):
                out[t] = PList(True)
            elif isinstance(v, ast.Call) and ast.unparse(v.func) == "remove_par" and v.args and isinstance(v.args[0], ast.Name) \
                    and v.args[0].id in out:
                out[t] = PList(True, out[v.args[0].id].dirty)
    for n in ast.walk(func.node):
        if isinstance(n, ast.Call) and isinstance(n.func, ast.Attribute) and n.func.attr in ("pop", "insert", "remove", "append", "extend") \
                and isinstance(n.func.value, ast.Name) and n.func.value.id in out:
            out[n.func.value.id].dirty = True
        if isinstance(n, ast.Delete):
            for t in n.targets:
                if isinstance(t, ast.Subscript) and isinstance(t.value, ast.Name) and t.value.id in out:
                    out[t.value.id].dirty = True
        if isinstance(n, ast.Call) and not (isinstance(n.func, ast.Name) and n.func.id in ("list", "len", "remove_par", "isinstance")):
            # passed to a helper that may mutate it
            for a in n.args:
                if isinstance(a, ast.Name) and a.id in out and a.id != "p" and isinstance(n.func, ast.Attribute) \
                        and isinstance(n.func.value, ast.Name) and n.func.value.id == "self":
                    pass
    return out


def symbols_at(rhs, plist, index):
    """symbol at p_list[index] for one alternative (None = position 0 / out of range)"""
    syms = [s for s in rhs if not (plist.removed_par and s in ("LP", "RP"))]
    full = [None] + list(syms)
    try:
        return full[index]
    except IndexError:
        return "<none>"


def alt_len(rhs, plist):
    return 1 + len([s for s in rhs if not (plist.removed_par and s in ("LP", "RP"))])


def feasible(alts, atoms, plists):
    """filter alternatives by guard atoms of the form len(<plist>) <op> N (true / false polarity)"""
    out = []
    for lhs, rhs in alts:
        ok = True
        for text, pol in atoms:
            try:
                e = ast.parse(text, mode="eval").body
            except SyntaxError:
                continue
            if isinstance(e, ast.Compare) and len(e.ops) == 1 and isinstance(e.left, ast.Call) and ast.unparse(e.left.func) == "len" \
                    and e.left.args and isinstance(e.left.args[0], ast.Name) and e.left.args[0].id in plists \
                    and isinstance(e.comparators[0], ast.Constant) and isinstance(e.comparators[0].value, int):
                pl = plists[e.left.args[0].id]
                if pl.dirty:
                    continue
                n = alt_len(rhs, pl)
                c = e.comparators[0].value
                op = e.ops[0]
                val = {ast.Eq: n == c, ast.NotEq: n != c, ast.Gt: n > c, ast.GtE: n >= c, ast.Lt: n < c, ast.LtE: n <= c}.get(type(op))
                if val is not None and val != pol:
                    ok = False
        if ok:
            out.append((lhs, rhs))
    return out


def t_case_lit(ck, ctx, rule="T-CASE-LIT", statement_filter=None):
    """returns number of comparison sites examined"""
    m, gm = ctx.model, ctx.grammar
    n_sites = 0
    methods = m.parser_methods()
    # helpers that receive the production list from exactly the actions that call them
    callers = {}
    for name, f in methods.items():
        if not name.startswith("p_") or name == "p_error" or name not in gm.func_of:
            continue
        for n in ast.walk(f.node):
            if isinstance(n, ast.Call) and isinstance(n.func, ast.Attribute) and isinstance(n.func.value, ast.Name) \
                    and n.func.value.id == "self" and n.func.attr in methods and not n.func.attr.startswith("p_"):
                callers.setdefault(n.func.attr, []).append((f, n))
    work = []
    for name, f in methods.items():
        if name.startswith("p_") and name != "p_error" and name in gm.func_of:
            work.append((f, gm.alternatives(name), plist_vars(f), f.qual))
    for hname, sites in callers.items():
        h = methods[hname]
        hparams = [a for a in h.params if a != "self"]
        alts, pl = [], {}
        okh = True
        for g, call in sites:
            gpl = plist_vars(g)
            for i, a in enumerate(call.args):
                if i < len(hparams) and isinstance(a, ast.Name) and a.id in gpl:
                    prev = pl.get(hparams[i])
                    cur = gpl[a.id]
                    if prev is not None and prev.removed_par != cur.removed_par:
                        okh = False
                    pl[hparams[i]] = PList(cur.removed_par, cur.dirty or (prev.dirty if prev else False))
            alts += gm.alternatives(g.name)
        if okh and pl:
            # mutations inside the helper itself
            own = plist_vars(h)
            for k in pl:
                if k in own and own[k].dirty:
                    pl[k].dirty = True
            work.append((h, alts, pl, h.qual))
    for f, alts, plists, qual in work:
        if statement_filter and not statement_filter(f, alts):
            continue
        terms_here = {s for _l, rhs in alts for s in rhs}
        loopvars = {}
        for n in ast.walk(f.node):
            gens = []
            if isinstance(n, ast.For):
                gens = [(n.target, n.iter)]
            elif isinstance(n, (ast.ListComp, ast.SetComp, ast.GeneratorExp, ast.DictComp)):
                gens = [(g.target, g.iter) for g in n.generators]
            for tgt, it in gens:
                if isinstance(tgt, ast.Name) and isinstance(it, ast.Subscript) and isinstance(it.value, ast.Name) and it.value.id in plists \
                        and isinstance(it.slice, (ast.Constant, ast.UnaryOp)):
                    loopvars[tgt.id] = it
        for n in ast.walk(f.node):
            if not (isinstance(n, ast.Compare) and len(n.ops) == 1):
                continue
            left, right, op = n.left, n.comparators[0], n.ops[0]
            st = S.stmt_of(f, n)
            atoms = guard_atoms(f.node, st) if st is not None else []
            falts = feasible(alts, atoms, plists)
            cands = []          # (token expression, literals, form)
            if isinstance(op, (ast.Eq, ast.NotEq)):
                if _lits(right):
                    cands.append((left, _lits(right), "eq"))
                elif _lits(left):
                    cands.append((right, _lits(left), "eq"))
            elif isinstance(op, (ast.In, ast.NotIn)):
                if _lits(right) and not isinstance(right, ast.Constant):
                    cands.append((left, _lits(right), "in-list"))
                elif isinstance(left, ast.Constant) and _alpha(left.value):
                    cands.append((right, [left.value], "lit-in"))
            for tok, lits, form in cands:
                if _normalised(tok):
                    continue
                # A: constant subscript of a production list
                sub = tok
                via_loop = False
                if isinstance(tok, ast.Name) and tok.id in loopvars:
                    sub, via_loop = loopvars[tok.id], True
                if isinstance(sub, ast.Subscript) and isinstance(sub.value, ast.Name) and sub.value.id in plists:
                    pl = plists[sub.value.id]
                    try:
                        idx = ast.literal_eval(sub.slice)
                    except Exception:
                        continue
                    if not isinstance(idx, int) or pl.dirty:
                        continue
                    n_sites += 1
                    syms = {}
                    for lhs, rhs in falts:
                        s = symbols_at(rhs, pl, idx)
                        syms.setdefault(s, (lhs, rhs))
                    if via_loop:
                        # elements of a list-valued symbol built from identifiers (pid / index_pid ...)
                        raw = {s: a for s, a in syms.items() if s in ("pid", "id", "ID")}
                    elif form == "lit-in":
                        raw = {s: a for s, a in syms.items() if s in RAW}        # substring test on a raw identifier
                    else:
                        raw = {s: a for s, a in syms.items() if s in RAW}
                    inrange = {s for s in syms if s != "<none>"}
                    if form == "lit-in" and not via_loop and (not raw or set(raw) != inrange):
                        continue            # a key-membership test on a dict-valued symbol, not a substring test on a name
                    # the literal names a keyword TOKEN that another alternative has at this very position: the comparison
                    # tells the alternatives apart and the token arrives upper-cased
                    if not via_loop and any(l.upper() in inrange or l in inrange for l in lits):
                        raw = {}
                    for s, (lhs, rhs) in raw.items():
                        ck.ob(rule, f"{qual}: {ast.unparse(n)[:70]}", False,
                              f"in `{lhs} -> {' '.join(rhs)}` the compared value is a raw identifier ({s}; the lexer keeps the case of "
                              f"identifiers) and is tested against {lits} without .upper(): the other spelling of the keyword is "
                              "treated as a name", f.loc(n))
                        break
                    else:
                        ck.ob(rule, f"{qual}: {ast.unparse(n)[:70]}", True,
                              f"compared position holds {sorted(str(x) for x in syms)}: keyword tokens arrive upper-cased", f.loc(n))
                # B: LIT in p / p_list
                elif form == "lit-in" and isinstance(tok, ast.Name) and tok.id in plists:
                    n_sites += 1
                    lit = lits[0]
                    if lit.upper() in terms_here or lit in terms_here:
                        both = lit != lit.upper() or True
                        ok = lit == lit.upper() or _other_case_tested(f, n, lit)
                        ck.ob(rule, f"{qual}: {ast.unparse(n)[:70]}", ok,
                              f"{lit!r} is a keyword token of this production; it arrives upper-cased, a lower-case literal never matches" if not ok
                              else "keyword token of this production (upper-cased by the lexer)", f.loc(n))
                    else:
                        has_raw = any(s in RAW for _l, rhs in falts for s in rhs)
                        ok = (not has_raw) or _other_case_tested(f, n, lit)
                        ck.ob(rule, f"{qual}: {ast.unparse(n)[:70]}", ok,
                              f"{lit!r} is not a token of this production, so it can only match a raw identifier, case-sensitively"
                              if not ok else "no raw identifier position / both spellings tested", f.loc(n))
    return n_sites


def _other_case_tested(f, cmp_node, lit):
    """`'X' in p or 'x' in p` - the sibling test with the other spelling exists in the same boolean expression"""
    for n in ast.walk(f.node):
        if isinstance(n, ast.BoolOp) and any(x is cmp_node for x in n.values):
            for x in n.values:
                if x is not cmp_node and isinstance(x, ast.Compare) and isinstance(x.left, ast.Constant) and isinstance(x.left.value, str) \
                        and x.left.value != lit and x.left.value.upper() == lit.upper():
                    return True
    return False


# ---------------------------------------------------------------------------

def t_case_lookup(ck, ctx, rule="T-CASE-LOOKUP"):
    """every look-up of a word in a keyword table with alphabetic keys upper-cases the word first"""
    m = ctx.model
    ns = ctx.grammar.tokens_ns
    alpha_tables = {k for k, v in ns.items() if isinstance(v, (dict, set, frozenset, list, tuple)) and
                    any(isinstance(x, str) and any(c.isalpha() for c in x) for x in v)}
    n = 0
    from .inline import inline_locals
    for f in S.parser_family_funcs(ctx):
        # `v = t.value.upper(); tok.x.get(v)` is the same look-up as `tok.x.get(t.value.upper())`
        for node in ast.walk(inline_locals(f.node)):
            tbl, arg = None, None
            if isinstance(node, ast.Call) and isinstance(node.func, ast.Attribute) and node.func.attr == "get" \
                    and isinstance(node.func.value, ast.Attribute) and isinstance(node.func.value.value, ast.Name) and node.args:
                r = m.resolve_symbol(f.module, node.func.value.value.id)
                if r and r[0] == "module" and r[1] == "simple_ddl_parser.tokens":
                    tbl, arg = node.func.value.attr, node.args[0]
            elif isinstance(node, ast.Compare) and len(node.ops) == 1 and isinstance(node.ops[0], (ast.In, ast.NotIn)):
                c = node.comparators[0]
                if isinstance(c, ast.Attribute) and isinstance(c.value, ast.Name):
                    r = m.resolve_symbol(f.module, c.value.id)
                    if r and r[0] == "module" and r[1] == "simple_ddl_parser.tokens":
                        tbl, arg = c.attr, node.left
            if tbl is None or tbl not in alpha_tables:
                continue
            # `for key in tok.symbol_tokens_no_check: if key in t.value` iterates the table: not a look-up of a word
            n += 1
            ok = isinstance(arg, ast.Call) and isinstance(arg.func, ast.Attribute) and arg.func.attr == "upper" and not arg.args
            ck.ob(rule, f"{f.qual}:tok.{tbl} looked up with {ast.unparse(arg)}", ok,
                  f"the keys of tok.{tbl} are upper-case keywords; a word looked up without .upper() is recognised in one spelling only",
                  f.loc(node))
    return n
