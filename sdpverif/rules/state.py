"""State / effect rules: T-RESET, T-DOM, T-NOGLOBAL, T-FLAGFLOW, T-RAISEGATE, T-FILE,
T-SETORD, T-ORDER, class-level mutable state."""
import ast

from ..cfg import CFG, guard_atoms
from ..core import AnalysisError
from ..effects import RBW, Effects, access_path, MUTATORS
from ..srcmodel import Func, dotted


# ---------------------------------------------------------------------------
# helpers
# ---------------------------------------------------------------------------

def effects_of(ctx):
    return ctx._get("effects", lambda: Effects(ctx.model, ctx.callgraph))


def parser_family_funcs(ctx):
    m = ctx.model
    return [f for f in m.all_funcs() if f.cls and m.in_parser_family((f.module.name, f.cls))]


def ply_entry_methods(ctx):
    """Methods PLY calls by reflection: t_* rules and p_* actions visible on DDLParser."""
    return [f for n, f in ctx.model.parser_methods().items()
            if (n.startswith("p_") or n.startswith("t_")) and isinstance(f.node, ast.FunctionDef)]


def run_reachable(ctx, include_ply=True):
    """Functions reachable from Parser.run (plus, by reflection, the lexer rules and actions)."""
    def build():
        m, cg = ctx.model, ctx.callgraph
        roots = [m.parser_method("run")]
        if include_ply:
            roots += ply_entry_methods(ctx)
        return cg.reachable(roots)
    return ctx._get("run_reachable", build)


def calls_in(func, pred):
    return [n for n in ast.walk(func.node) if isinstance(n, ast.Call) and pred(n)]


def stmt_of(func, node):
    """innermost statement of func containing node"""
    best = None
    for st in ast.walk(func.node):
        if isinstance(st, ast.stmt) and st is not func.node:
            if any(n is node for n in ast.walk(st)):
                if best is None or (st.lineno, -getattr(st, "end_lineno", 0)) >= (best.lineno, -getattr(best, "end_lineno", 0)):
                    best = st
    return best


# ---------------------------------------------------------------------------
# T-RESET (b): nothing on the Parser object survives a run()
# ---------------------------------------------------------------------------

def t_reset_parser(ck, ctx):
    m, cg = ctx.model, ctx.callgraph
    eff = effects_of(ctx)
    run = m.parser_method("run")
    fam = {f.id for f in parser_family_funcs(ctx)}
    reach = [f for f in cg.reachable([run] + ply_entry_methods(ctx)) if f.id in fam]
    ck.count("functions_in_run_scope", len(reach))
    written = {}
    for f in reach:
        for a in eff.accesses(f):
            if a.path.startswith("self.") and a.path.count(".") == 1 and a.kind in ("store", "mutate", "del"):
                written.setdefault(a.path, []).append((f, a))
            elif a.path.startswith("self.") and a.path.count(".") >= 2 and a.kind == "mutate":
                pass
    rbw = RBW(m, cg, "self", same_object=lambda f: f.id in fam)
    must, exposed = rbw.summarize(run)
    for path in sorted(written):
        f0, a0 = written[path][0]
        exp = exposed.get(path)
        detail = ""
        loc = f0.loc(a0.node)
        if exp:
            ef, en = exp
            detail = (f"{path} is changed during run() (first in {f0.qual}) but read/mutated in {ef.qual} "
                      f"line {en.lineno} before any assignment on that path of run(): its value survives "
                      "from the previous run() on the same object")
            loc = ef.loc(en)
        ck.ob("T-RESET.parser", f"Parser.run:{path}", exp is None, detail, loc)
    return written, exposed


def fresh_value(e, func_node=None, _seen=None):
    """expression that certainly yields a new / immutable object (a local name: every binding of it in the function does)"""
    if isinstance(e, ast.Constant):
        return True
    if isinstance(e, ast.Name) and func_node is not None:
        _seen = _seen or set()
        if e.id in _seen:
            return True
        _seen = _seen | {e.id}
        params = {a.arg for a in func_node.args.args + func_node.args.kwonlyargs + func_node.args.posonlyargs}
        if e.id in params:
            return False
        binds = []
        for n in ast.walk(func_node):
            if isinstance(n, ast.Assign) and any(isinstance(t, ast.Name) and t.id == e.id for t in n.targets):
                binds.append(n.value)
            elif isinstance(n, (ast.AnnAssign, ast.AugAssign, ast.NamedExpr)) and isinstance(n.target, ast.Name) and n.target.id == e.id:
                if isinstance(n, ast.AugAssign) or n.value is None:
                    return False
                binds.append(n.value)
            elif isinstance(n, (ast.For, ast.comprehension)) and any(isinstance(x, ast.Name) and x.id == e.id for x in ast.walk(n.target)):
                return False
            elif isinstance(n, (ast.With,)) and any(i.optional_vars is not None and any(isinstance(x, ast.Name) and x.id == e.id for x in ast.walk(i.optional_vars)) for i in n.items):
                return False
        return bool(binds) and all(fresh_value(b, func_node, _seen) for b in binds)
    if isinstance(e, ast.IfExp):
        return fresh_value(e.body, func_node, _seen) and fresh_value(e.orelse, func_node, _seen)
    if isinstance(e, (ast.List, ast.Dict, ast.Set, ast.Tuple, ast.ListComp, ast.DictComp, ast.SetComp, ast.JoinedStr)):
        return True
    if isinstance(e, ast.Call):
        return True     # a call result is not an alias of an attribute unless the callee returns one (checked separately)
    if isinstance(e, (ast.BinOp, ast.Compare, ast.BoolOp, ast.UnaryOp)):
        return True
    return False


def t_fresh_escaping(ck, ctx):
    """Attributes of the parser object whose object is placed into the returned result must be
    (re)bound to a fresh object during run(), never aliased from another long-lived attribute."""
    m = ctx.model
    eff = effects_of(ctx)
    fam = parser_family_funcs(ctx)
    parser_cls = [f for f in fam if f.cls == "Parser"]
    # escaping: self.X appearing inside an argument of self.tables.append(...) / returned
    escaping = set()
    for f in parser_cls:
        for n in ast.walk(f.node):
            if isinstance(n, ast.Call) and isinstance(n.func, ast.Attribute) and n.func.attr in ("append", "extend", "update"):
                if access_path(n.func.value) == "self.tables":
                    for a in n.args:
                        for x in ast.walk(a):
                            p = access_path(x) if isinstance(x, ast.Attribute) else None
                            if p and p.startswith("self.") and p.count(".") == 1:
                                escaping.add(p)
            # (only what the result-returning entry points return: a helper that returns the current line hands nothing to the caller of run())
            if isinstance(n, ast.Return) and n.value is not None and f.name in ("run", "parse_data"):
                p = access_path(n.value) if isinstance(n.value, ast.Attribute) else None
                if p and p.startswith("self.") and p.count(".") == 1:
                    escaping.add(p)
    for p in sorted(escaping):
        stores = [(f, a) for f in parser_cls for a in eff.accesses(f) if a.path == p and a.kind == "store"]
        for f, a in stores:
            st = a.stmt
            val = getattr(st, "value", None)
            ok = val is None or fresh_value(val, f.node)
            ck.ob("T-FRESH", f"{f.qual}:{p} = {ast.unparse(val) if val is not None else '?'}", ok,
                  f"{p} escapes into the returned result; it must be bound to a fresh object", f.loc(a.node))
    return escaping


# ---------------------------------------------------------------------------
# T-RESET (a): lexer flags are reset before every statement
# ---------------------------------------------------------------------------

def t_reset_lexer(ck, ctx, only=None, channels=False):
    m, cg = ctx.model, ctx.callgraph
    eff = effects_of(ctx)
    reset = m.parser_method("set_default_flags_in_lexer")
    # the reset function is evaluated abstractly (E3): the attributes it sets and their values - however it is written
    start = None
    try:
        start = dict(ctx.lexer.start_flags)
    except AnalysisError:
        start = None
    if start is not None:
        reset_set = set(start)
        for k, v in sorted(start.items()):
            ck.ob("T-RESET.lexer-const", f"{reset.qual}: lexer.{k} is reset to the constant {v!r}",
                  v is None or isinstance(v, (bool, int, str)), "the start state of the lexer must be the same constant vector for every statement", reset.loc())
        # the reset reads nothing of the parser object (a value copied from self.* would not be a constant of the statement)
        reads = [n for n in ast.walk(reset.node) if isinstance(n, ast.Attribute) and isinstance(n.ctx, ast.Load)
                 and isinstance(n.value, ast.Name) and n.value.id == "self" and n.attr != "lexer"]
        ck.ob("T-RESET.lexer-const", f"{reset.qual} reads no other attribute of the parser object", not reads,
              f"{[ast.unparse(r) for r in reads][:3]}", reset.loc())
    else:
        rbw = RBW(m, cg, "self.lexer")
        must, _ = rbw.summarize(reset)
        reset_set = {p.split(".", 2)[2] for p in must}
        ck.ob("T-RESET.lexer-const", f"{reset.qual}: reset vector by must-assign analysis", True, "", reset.loc())
    ck.note(f"lexer flags reset before every statement: {sorted(reset_set)}")
    # per-statement scope: lexer rules, actions and everything they reach
    scope = cg.reachable(ply_entry_methods(ctx))
    scope_ids = {f.id for f in scope}
    ck.count("functions_in_statement_scope", len(scope))
    fam = parser_family_funcs(ctx)
    touched = {}
    for f in fam:
        for a in eff.accesses(f):
            if a.path.startswith("self.lexer.") and a.path.count(".") == 2:
                attr = a.path.split(".")[2]
                touched.setdefault(attr, []).append((f, a))
    for attr in sorted(touched):
        if only is not None and attr not in only:
            continue
        acc = touched[attr]
        writers = [(f, a) for f, a in acc if a.kind in ("store", "mutate", "del") and f.id != reset.id]
        writers_in_scope = [(f, a) for f, a in writers if f.id in scope_ids]
        readers_in_scope = [(f, a) for f, a in acc if a.kind in ("load", "mutate") and f.id in scope_ids]
        if not writers:
            continue            # owned by PLY (lineno, lexpos ...) or read-only
        if attr in reset_set:
            ck.ob("T-RESET.lexer", f"lexer.{attr}", True, "written in the package and reset before every statement",
                  writers[0][0].loc(writers[0][1].node))
            continue
        if writers_in_scope and readers_in_scope:
            wf, wa = writers_in_scope[0]
            rf, ra = readers_in_scope[0]
            ck.ob("T-RESET.lexer", f"lexer.{attr}", False,
                  f"self.lexer.{attr} is written while a statement is parsed ({wf.qual}) and read in {rf.qual}, but "
                  f"{reset.qual} does not reset it: its value leaks from one statement to the next",
                  rf.loc(ra.node))
        elif readers_in_scope and channels:
            wf, wa = writers[0]
            bad = [(rf, ra) for rf, ra in readers_in_scope if not _placeholder_only(rf, ra)]
            if not bad:
                rf, ra = readers_in_scope[0]
                ck.ob("T-CHANNEL", f"lexer.{attr}", True,
                      f"self.lexer.{attr} (computed from the whole script in {wf.qual}) is consulted in "
                      f"{sorted({f.qual for f, _ in readers_in_scope})} only as `v[k]` under `if k in v`: it can influence a "
                      "statement only through a placeholder token that the same pre-processing step put into that statement",
                      rf.loc(ra.node))
                continue
            rf, ra = bad[0]
            ck.ob("T-CHANNEL", f"lexer.{attr}", False,
                  f"self.lexer.{attr} is computed from the whole script in {wf.qual} and read while parsing each statement "
                  f"in {rf.qual}: the outcome of a statement depends on what other statements of the script contain",
                  rf.loc(ra.node))
        elif not readers_in_scope:
            ck.ob("T-RESET.lexer", f"lexer.{attr}", True, "written but never read in statement scope",
                  writers[0][0].loc(writers[0][1].node))
    return reset_set


def _placeholder_only(f, acc):
    """The value read by `acc` is bound to a local V and V is used only as `K in V` (an if test) or as V[K] / V.get(K)
    under the guard `K in V`."""
    bound = None
    for st in ast.walk(f.node):
        if isinstance(st, ast.Assign) and len(st.targets) == 1 and isinstance(st.targets[0], ast.Name) \
                and any(x is acc.node for x in ast.walk(st.value)):
            bound = st.targets[0].id
    if bound is None:
        return False
    parents = {}
    for p in ast.walk(f.node):
        for c in ast.iter_child_nodes(p):
            parents[id(c)] = p
    n_assign = sum(1 for st in ast.walk(f.node) if isinstance(st, ast.Assign) and any(
        isinstance(t, ast.Name) and t.id == bound for t in st.targets))
    if n_assign != 1:
        return False
    for n in ast.walk(f.node):
        if not (isinstance(n, ast.Name) and n.id == bound and isinstance(n.ctx, ast.Load)):
            continue
        par = parents.get(id(n))
        if isinstance(par, ast.Compare) and len(par.ops) == 1 and isinstance(par.ops[0], ast.In) and par.comparators[0] is n:
            continue
        key = None
        if isinstance(par, ast.Subscript) and par.value is n and isinstance(par.ctx, ast.Load):
            key = par.slice
        elif isinstance(par, ast.Attribute) and par.attr == "get" and isinstance(parents.get(id(par)), ast.Call) \
                and parents[id(par)].args:
            key = parents[id(par)].args[0]
        if key is None:
            return False
        st = stmt_of(f, n)
        if (f"{ast.unparse(key)} in {bound}", True) not in guard_atoms(f.node, st):
            return False
    return True


def t_dom(ck, ctx, func_name, first_pred, second_pred, key, why):
    """call A dominates call B in function F (statement CFG)."""
    f = ctx.model.parser_method(func_name)
    cfg = CFG(f.node)
    a_nodes = [n for n in ast.walk(f.node) if first_pred(n)]
    b_nodes = [n for n in ast.walk(f.node) if isinstance(n, ast.Call) and second_pred(n)]
    if not b_nodes:
        raise AnalysisError(f"anchor vanished: {key}: second site not found in {f.id}")
    if not a_nodes:
        ck.ob("T-DOM", key, False, f"{why}: the dominating construct is missing in {f.qual}", f.loc())
        return
    for b in b_nodes:
        sb = stmt_of(f, b)
        ok = False
        for a in a_nodes:
            sa = a if isinstance(a, ast.stmt) else stmt_of(f, a)
            if sa is sb:
                ok = ok or (isinstance(a, ast.Call) and (a.lineno, a.col_offset) < (b.lineno, b.col_offset))
            elif cfg.dominates(sa, sb):
                ok = True
        ck.ob("T-DOM", key, ok, why, f.loc(b))


def is_self_call(name):
    return lambda n: (isinstance(n, ast.Call) and isinstance(n.func, ast.Attribute) and n.func.attr == name
                      and isinstance(n.func.value, ast.Name) and n.func.value.id == "self")


# ---------------------------------------------------------------------------
# T-NOGLOBAL
# ---------------------------------------------------------------------------

PLY_GLOBALS = {"ply.yacc.parse", "ply.yacc.parser", "ply.yacc.token", "ply.lex.token", "ply.lex.input",
               "ply.lex.lexer", "ply.yacc.restart", "ply.yacc.errok"}


def t_noglobal(ck, ctx, prop):
    m, cg = ctx.model, ctx.callgraph
    eff = effects_of(ctx)
    ctor = m.parser_method("__init__")
    reach = cg.reachable([ctor] + [m.parser_method("run")] + ply_entry_methods(ctx))
    ck.count("functions_on_construct_run_path", len(reach))
    # (1) which attributes hold the per-object PLY handles
    handles = {}
    for f in parser_family_funcs(ctx):
        for n in ast.walk(f.node):
            if isinstance(n, ast.Assign) and isinstance(n.value, ast.Call):
                d = dotted(n.value.func)
                if d:
                    head = d.split(".")[0]
                    r = m.resolve_symbol(f.module, head)
                    full = (r[1] + d[len(head):]) if r and r[0] == "ext" else d
                    if full in ("ply.yacc.yacc", "ply.lex.lex"):
                        for t in n.targets:
                            p = access_path(t) if isinstance(t, ast.Attribute) else None
                            ck.ob("T-NOGLOBAL.handle", f"{f.qual}:{full} stored on self",
                                  p is not None and p.startswith("self.") and p.count(".") == 1,
                                  "the parser / lexer built for this object must be kept on the object",
                                  f.loc(n))
                            if p:
                                handles[full] = p
    if "ply.yacc.yacc" not in handles or "ply.lex.lex" not in handles:
        found = [(f, n, full) for f in parser_family_funcs(ctx) for n in ast.walk(f.node) if isinstance(n, ast.Call)
                 for full in [_ply_full(m, f, n)] if full in ("ply.yacc.yacc", "ply.lex.lex")]
        if not found:
            raise AnalysisError("anchor vanished: no yacc.yacc(...) / lex.lex(...) call in the parser classes")
        for f, n, full in found:
            if full not in handles:
                ck.ob("T-NOGLOBAL.handle", f"{f.qual}:{full} stored on self", False,
                      f"the object returned by {full}(...) is not bound directly to an attribute of this parser object (cached on "
                      "the class / module, copied, or shared): parser objects would share PLY state, including the bound action methods",
                      f.loc(n))
        return handles.get("ply.yacc.yacc"), handles.get("ply.lex.lex")
    yacc_attr, lex_attr = handles["ply.yacc.yacc"], handles["ply.lex.lex"]
    # (2) no use of PLY's module-level (last-built) entry points
    n_parse = 0
    for f in reach:
        for call, callee in cg.callees(f):
            if isinstance(callee, str) and callee.startswith("ext:") and callee[4:] in PLY_GLOBALS:
                ck.ob("T-NOGLOBAL.ply-global", f"{f.qual}:{callee[4:]}", False,
                      f"{callee[4:]} is PLY's process-global handle (the most recently built parser/lexer), "
                      "not this object's: another DDLParser constructed in between is used instead", f.loc(call))
        for n in ast.walk(f.node):
            if isinstance(n, ast.Attribute) and isinstance(n.ctx, ast.Load) and not isinstance(n.value, ast.Attribute):
                d = dotted(n)
                if d:
                    head = d.split(".")[0]
                    r = m.resolve_symbol(f.module, head)
                    if r and r[0] == "ext" and (r[1] + d[len(head):]) in PLY_GLOBALS:
                        # reported above when called; a bare reference is as bad
                        pass
            if isinstance(n, ast.Call) and isinstance(n.func, ast.Attribute) and n.func.attr == "parse":
                recv = access_path(n.func.value)
                if recv == yacc_attr:
                    n_parse += 1
                    kws = {k.arg: k.value for k in n.keywords}
                    lx = kws.get("lexer")
                    if lx is None and len(n.args) >= 2:
                        lx = n.args[1]
                    ok = lx is not None and access_path(lx) == lex_attr
                    ck.ob("T-NOGLOBAL.parse-lexer", f"{f.qual}:{yacc_attr}.parse(lexer={lex_attr})", ok,
                          "parse() must receive this object's lexer explicitly; without it PLY falls back to "
                          "the module-global ply.lex.lexer (the lexer of the most recently constructed parser)",
                          f.loc(n))
    ck.ob("T-NOGLOBAL.parse-site", f"parse goes through {yacc_attr}", n_parse >= 1,
          f"no call {yacc_attr}.parse(...) found on the run path: the statement is not parsed by this "
          "object's own parser", m.parser_method("parse_statement").loc() if "parse_statement" in m.parser_methods() else "")
    # (3) no global statement, no store to module-level names or class attributes on the path
    for f in reach:
        modnames = set(f.module.assigns) | set(f.module.funcs) | set(f.module.classes)
        declared_global = set()
        for n in ast.walk(f.node):
            if isinstance(n, (ast.Global, ast.Nonlocal)):
                declared_global |= set(n.names)
                ck.ob("T-NOGLOBAL.global-stmt", f"{f.qual}:global {','.join(n.names)}", False,
                      "module-level state written on the construct/run path is shared by all parser objects",
                      f.loc(n))
        for a in eff.accesses(f):
            if a.kind in ("store", "mutate", "del"):
                head = a.path.split(".")[0]
                if head == "cls" or (head in f.module.classes) or (
                        head in f.module.imports and m.resolve_symbol(f.module, head) and
                        m.resolve_symbol(f.module, head)[0] in ("class", "module", "value")):
                    ck.ob("T-NOGLOBAL.shared-store", f"{f.qual}:{a.kind} {a.path}", False,
                          "class / module attribute written on the construct/run path is shared by all parser objects",
                          f.loc(a.node))
        # attribute / item store through a LOCAL that was taken out of a module-level registry (`c = registry.get(k); c.x = ...`):
        # the object belongs to the module, whatever is stored on it is shared by every parser object, run and output mode
        taken = {}
        for n in ast.walk(f.node):
            if isinstance(n, ast.Assign) and len(n.targets) == 1 and isinstance(n.targets[0], ast.Name):
                for x in ast.walk(n.value):
                    if isinstance(x, ast.Name) and not _is_local(f, x.id) and (
                            x.id in f.module.assigns or (x.id in f.module.imports and (m.resolve_symbol(f.module, x.id) or ("",))[0] == "value")):
                        val = f.module.assigns.get(x.id)
                        if val is None or isinstance(val, (ast.Dict, ast.List, ast.Set, ast.Call, ast.DictComp, ast.ListComp)):
                            # (looked up / indexed / iterated - not merely tested or measured)
                            if not isinstance(n.value, (ast.Compare, ast.BoolOp)) and not (
                                    isinstance(n.value, ast.Call) and isinstance(n.value.func, ast.Name) and n.value.func.id in ("len", "bool", "sorted", "list", "dict", "set", "tuple")):
                                taken[n.targets[0].id] = x.id
        for a in eff.accesses(f):
            if a.kind in ("store", "mutate", "del") and "." in a.path:
                head = a.path.split(".")[0]
                if head in taken and head not in ("self",):
                    ck.ob("T-NOGLOBAL.shared-store", f"{f.qual}:{a.kind} {a.path} (taken from module-level {taken[head]})", False,
                          "an object taken out of a module-level registry is written on the construct/run path: it is shared by every parser "
                          "object, every run() and every output mode of the process", f.loc(a.node))
        # item store / delete on a module-level container through a bare name (a process-wide cache or registry)
        for n in ast.walk(f.node):
            tgts = []
            if isinstance(n, (ast.Assign, ast.AugAssign)):
                tgts = n.targets if isinstance(n, ast.Assign) else [n.target]
            elif isinstance(n, ast.Delete):
                tgts = n.targets
            for t in tgts:
                if isinstance(t, ast.Subscript) and isinstance(t.value, ast.Name):
                    nm = t.value.id
                    if not _is_local(f, nm) and (nm in f.module.assigns or (nm in f.module.imports and
                                                 (m.resolve_symbol(f.module, nm) or ("",))[0] == "value")):
                        ck.ob("T-NOGLOBAL.shared-store", f"{f.qual}:{nm}[...] = / del", False,
                              "a module-level container is written on the construct/run path: it is shared by every parser object, every "
                              "run() and every output mode of the process", f.loc(n))
        # mutation of module-level containers through a bare name
        for n in ast.walk(f.node):
            if isinstance(n, ast.Call) and isinstance(n.func, ast.Attribute) and n.func.attr in MUTATORS:
                if isinstance(n.func.value, ast.Name):
                    nm = n.func.value.id
                    local = _is_local(f, nm)
                    if not local and (nm in f.module.assigns or (nm in f.module.imports and
                                      (m.resolve_symbol(f.module, nm) or ("",))[0] == "value")):
                        ck.ob("T-NOGLOBAL.shared-store", f"{f.qual}:{nm}.{n.func.attr}()", False,
                              "module-level container mutated on the construct/run path", f.loc(n))
    ck.ob("T-NOGLOBAL.scan", "construct/run path scanned for shared-state writes", True,
          f"{len(reach)} functions", "")
    # (4) class-level mutable values in the parser family
    for k in m.parser_mro():
        c = m.classes[k]
        for name, (_ann, val, node) in c.attrs.items():
            mutable = isinstance(val, (ast.List, ast.Dict, ast.Set, ast.ListComp, ast.DictComp, ast.SetComp)) or (
                isinstance(val, ast.Call) and isinstance(val.func, ast.Name) and val.func.id in ("list", "dict", "set", "defaultdict"))
            ck.ob("T-NOGLOBAL.class-attr", f"{c.name}.{name}", not mutable,
                  "a mutable class-level value is shared by all parser objects",
                  f"{c.module.path}:{node.lineno}")
    return yacc_attr, lex_attr


def _ply_full(m, f, call):
    d = dotted(call.func)
    if not d:
        return None
    head = d.split(".")[0]
    r = m.resolve_symbol(f.module, head)
    return (r[1] + d[len(head):]) if r and r[0] == "ext" else d


def _is_local(f, name):
    if name in f.params:
        return True
    for n in ast.walk(f.node):
        if isinstance(n, ast.Name) and n.id == name and isinstance(n.ctx, ast.Store):
            return True
    return False


# ---------------------------------------------------------------------------
# T-FLAGFLOW
# ---------------------------------------------------------------------------

def readers_of(ctx, attr_or_name, funcs=None):
    """functions that read name `x` (as a bare name or as `.x` attribute / 'x' key via getattr)."""
    out = []
    for f in (funcs if funcs is not None else list(ctx.model.all_funcs())):
        for n in ast.walk(f.node):
            if isinstance(n, ast.Name) and n.id == attr_or_name and isinstance(n.ctx, ast.Load):
                out.append((f, n))
            elif isinstance(n, ast.Attribute) and n.attr == attr_or_name and isinstance(n.ctx, ast.Load):
                out.append((f, n))
            elif isinstance(n, ast.Constant) and n.value == attr_or_name:
                out.append((f, n))
    return out


def t_flagflow(ck, ctx, flag, allowed_funcs, scope, rule="T-FLAGFLOW", why=""):
    """`flag` may be read only inside allowed_funcs (qualified names) within `scope` (Funcs)."""
    n = 0
    for f, node in readers_of(ctx, flag, scope):
        if isinstance(node, ast.Constant) and not _const_is_key_use(f, node):
            continue
        n += 1
        ck.ob(rule, f"{flag} read in {f.qual}", f.qual in allowed_funcs,
              why or f"`{flag}` may influence only {sorted(allowed_funcs)}", f.loc(node))
    return n


def _const_is_key_use(f, const):
    """the constant is used as a dict key / getattr name (not inside a docstring or message)"""
    for n in ast.walk(f.node):
        if isinstance(n, ast.Subscript) and n.slice is const:
            return True
        if isinstance(n, ast.Call) and const in n.args:
            fn = n.func
            if isinstance(fn, ast.Name) and fn.id in ("getattr", "hasattr", "setattr"):
                return True
            if isinstance(fn, ast.Attribute) and fn.attr in ("get", "pop"):
                return True
        if isinstance(n, ast.Compare) and (n.left is const):
            return True
    return False


# ---------------------------------------------------------------------------
# T-RAISEGATE
# ---------------------------------------------------------------------------

def t_raisegate(ck, ctx, allow):
    """every `raise` reachable from run() is in `allow` {func qual: reason} or guarded by `not self.silent`."""
    reach = run_reachable(ctx)
    m, cg = ctx.model, ctx.callgraph
    # functions reachable from run() without going through PLY's reflection
    direct = {f.id for f in cg.reachable([m.parser_method("run")])}
    n = 0
    for f in reach:
        for node in ast.walk(f.node):
            if not isinstance(node, ast.Raise):
                continue
            n += 1
            atoms = guard_atoms(f.node, node)
            gated = ("self.silent", False) in atoms
            if not gated and f.id not in direct:
                gated = _caught_at_parse_site(ctx, f, node)
            exc = ast.unparse(node.exc) if node.exc is not None else "re-raise"
            key = f"{f.qual}: raise {exc.split('(')[0]}"
            if f.qual in allow:
                ck.ob("T-RAISEGATE", key, True, f"allowed: {allow[f.qual]}", f.loc(node))
            else:
                ck.ob("T-RAISEGATE", key, gated,
                      "a raise on the run() path must be control-dependent on `not self.silent` "
                      f"(guards found: {atoms or 'none'}): with the default silent=True unsupported input must be "
                      "skipped, not raise", f.loc(node))
    return n


def _caught_at_parse_site(ctx, f, raise_node):
    """The raise sits in code PLY calls during <self.yacc>.parse(...).  It is gated when every such parse
    call is inside a try whose handler catches a base class of the raised exception and re-raises only
    under `not self.silent`."""
    m = ctx.model
    exc = raise_node.exc
    if not (isinstance(exc, ast.Call) and isinstance(exc.func, ast.Name)):
        return False
    r = m.resolve_symbol(f.module, exc.func.id)
    if not (r and r[0] == "class"):
        return False
    raised_mro = set(m.mro(r[1]))
    sites = 0
    for g in parser_family_funcs(ctx):
        for call in ast.walk(g.node):
            if not (isinstance(call, ast.Call) and isinstance(call.func, ast.Attribute) and call.func.attr == "parse"
                    and (access_path(call.func.value) or "").startswith("self.")):
                continue
            sites += 1
            ok = False
            for tr in ast.walk(g.node):
                if isinstance(tr, ast.Try) and any(x is call for b in tr.body for x in ast.walk(b)):
                    for h in tr.handlers:
                        if h.type is None or not isinstance(h.type, ast.Name):
                            continue
                        hr = m.resolve_symbol(g.module, h.type.id)
                        if not (hr and hr[0] == "class" and hr[1] in raised_mro):
                            continue
                        reraises = [x for b in h.body for x in ast.walk(b) if isinstance(x, ast.Raise)]
                        if all(("self.silent", False) in guard_atoms(g.node, x) for x in reraises):
                            ok = True
            if not ok:
                return False
    return sites > 0


# ---------------------------------------------------------------------------
# T-FILE
# ---------------------------------------------------------------------------

def _file_creating(call, f, m):
    d = dotted(call.func)
    if not d:
        return None
    head = d.split(".")[0]
    r = m.resolve_symbol(f.module, head)
    full = (r[1] + d[len(head):]) if r and r[0] == "ext" else d
    if full == "open":
        mode = None
        if len(call.args) >= 2:
            mode = call.args[1]
        for k in call.keywords:
            if k.arg == "mode":
                mode = k.value
        if mode is None:
            return None
        if isinstance(mode, ast.Constant) and isinstance(mode.value, str):
            return "open(write)" if any(c in mode.value for c in "wax+") else None
        return "open(mode?)"
    if full in ("os.makedirs", "os.mkdir", "json.dump", "shutil.copy", "os.rename", "os.remove", "os.unlink",
                "pickle.dump", "tempfile.mkstemp", "tempfile.NamedTemporaryFile"):
        return full
    if full == "logging.basicConfig" and any(k.arg == "filename" for k in call.keywords):
        return "logging.basicConfig(filename=)"
    if full.startswith("logging.FileHandler") or full.endswith(".write_text") or full.endswith(".write_bytes") or full.endswith(".touch") or full.endswith(".mkdir"):
        return full
    return None


def t_file(ck, ctx, guards):
    """guards: {func qual of the file-creating function: (guarding function qual, required atom)}"""
    m, cg = ctx.model, ctx.callgraph
    sites = []
    for f in m.all_funcs():
        for n in ast.walk(f.node):
            if isinstance(n, ast.Call):
                kind = _file_creating(n, f, m)
                if kind:
                    sites.append((f, n, kind))
    for f, n, kind in sites:
        g = guards.get(f.qual)
        key = f"{f.qual}:{kind}"
        if g is None:
            ck.ob("T-FILE", key, False,
                  "file-creating call outside the enumerated functions (dump_data_to_file under `if dump`, "
                  "log file under an explicit log_file argument)", f.loc(n))
            continue
        ck.ob("T-FILE", key, True, f"inside {f.qual}, guarded as checked below", f.loc(n))
    for fq, (caller_q, atom, self_guard) in guards.items():
        if self_guard:
            # the call itself sits under `if <atom>` inside the same function
            f = _func_by_qual(m, fq)
            for ff, n, kind in sites:
                if ff is f:
                    atoms = guard_atoms(f.node, stmt_of(f, n))
                    ck.ob("T-FILE.guard", f"{fq}:{kind} under `{atom}`", (atom, True) in atoms,
                          f"guards found: {atoms}", f.loc(n))
            continue
        target = _func_by_qual(m, fq)
        callers = []
        for f in m.all_funcs():
            for call, callee in cg.callees(f):
                if callee is target:
                    callers.append((f, call))
        if not callers:
            ck.note(f"{fq} has no caller in the package")
        def guarded(f, call, depth=0):
            """the call sits under `if <atom>` in the guarding function - directly, or through a helper whose every call site does"""
            atoms = guard_atoms(f.node, stmt_of(f, call))
            if f.qual == caller_q and (atom, True) in atoms:
                return True, atoms
            if depth >= 3:
                return False, atoms
            ups = [(g, c) for g in m.all_funcs() for c, callee in cg.callees(g) if callee is f]
            if not ups:
                return False, atoms
            return all(guarded(g, c, depth + 1)[0] for g, c in ups), atoms
        for f, call in callers:
            ok, atoms = guarded(f, call)
            where = caller_q if f.qual == caller_q else f"{caller_q} (through {f.qual})"
            ck.ob("T-FILE.guard", f"{caller_q} -> {fq} under `{atom}`" if ok else f"{f.qual} -> {fq} under `{atom}`", ok,
                  f"{fq} creates files; it may be called only from {where} under `if {atom}` "
                  f"(guards found: {atoms})", f.loc(call))
    return len(sites)


def _func_by_qual(m, qual):
    for f in m.all_funcs():
        if f.qual == qual:
            return f
    raise AnalysisError(f"anchor vanished: function {qual}")


# ---------------------------------------------------------------------------
# T-ORDER: result lists grow by append/extend only
# ---------------------------------------------------------------------------

ORDER_BREAKERS = {"insert", "sort", "reverse"}


def t_order(ck, ctx, funcs, list_paths, rule="T-ORDER"):
    """In funcs, the lists named by access paths (exact, e.g. 'self.tables') or by a subscript key
    (e.g. key 'columns') are changed only by append/extend; no insert/sort/reverse/sorted/reversed/set()."""
    n = 0
    for f in funcs:
        for node in ast.walk(f.node):
            if isinstance(node, ast.Call) and isinstance(node.func, ast.Attribute) and node.func.attr in ORDER_BREAKERS:
                tgt = node.func.value
                if _names_list(tgt, list_paths):
                    n += 1
                    ck.ob(rule, f"{f.qual}:{ast.unparse(tgt)}.{node.func.attr}()", False,
                          "order of the reported list must be source order (append/extend only)", f.loc(node))
            if isinstance(node, ast.Call) and isinstance(node.func, ast.Name) and node.func.id in ("sorted", "reversed", "set", "frozenset"):
                if node.args and _names_list(node.args[0], list_paths):
                    n += 1
                    ck.ob(rule, f"{f.qual}:{node.func.id}({ast.unparse(node.args[0])})", False,
                          "order of the reported list must be source order", f.loc(node))
            if isinstance(node, ast.Assign):
                for t in node.targets:
                    if isinstance(t, ast.Subscript) and isinstance(t.slice, ast.Slice) and _names_list(t.value, list_paths):
                        n += 1
                        ck.ob(rule, f"{f.qual}:slice assignment to {ast.unparse(t.value)}", False,
                              "order of the reported list must be source order", f.loc(node))
            if isinstance(node, ast.Call) and isinstance(node.func, ast.Attribute) and node.func.attr in ("append", "extend"):
                if _names_list(node.func.value, list_paths):
                    n += 1
                    ck.ob(rule, f"{f.qual}:{ast.unparse(node.func.value)}.{node.func.attr}()", True,
                          "grows in source order", f.loc(node))
    return n


def _names_list(e, list_paths):
    p = access_path(e) if isinstance(e, (ast.Attribute, ast.Name)) else None
    if p and p in list_paths:
        return True
    if isinstance(e, ast.Subscript) and isinstance(e.slice, ast.Constant) and ("[%r]" % e.slice.value) in list_paths:
        return True
    if isinstance(e, ast.Call) and isinstance(e.func, ast.Attribute) and e.func.attr == "get" and e.args and \
            isinstance(e.args[0], ast.Constant) and ("[%r]" % e.args[0].value) in list_paths:
        return True
    return False


# ---------------------------------------------------------------------------
# T-SETORD: set-typed values are used only order-insensitively
# ---------------------------------------------------------------------------

def _is_set_expr(e):
    if isinstance(e, (ast.Set, ast.SetComp)):
        return True
    if isinstance(e, ast.Call) and isinstance(e.func, ast.Name) and e.func.id in ("set", "frozenset"):
        return True
    # set algebra on dict views: d.keys() & e.keys(), d.keys() - s, d.items() ^ ... yield sets
    if isinstance(e, ast.BinOp) and isinstance(e.op, (ast.Sub, ast.BitOr, ast.BitAnd, ast.BitXor)) and any(
            isinstance(x, ast.Call) and isinstance(x.func, ast.Attribute) and x.func.attr in ("keys", "items") and not x.args
            for x in (e.left, e.right)):
        return True
    if isinstance(e, ast.BinOp) and isinstance(e.op, (ast.Sub, ast.BitOr, ast.BitAnd, ast.BitXor)) and (
            _is_set_expr(e.left) or _is_set_expr(e.right)):
        return True
    if isinstance(e, ast.Call) and isinstance(e.func, ast.Attribute) and e.func.attr in (
            "union", "intersection", "difference", "symmetric_difference") and _is_set_expr(e.func.value):
        return True
    return False


ORDER_FREE_CALLS = {"len", "sorted", "bool", "any", "all", "min", "max", "sum", "set", "frozenset", "isinstance"}
ORDER_FREE_METHODS = {"add", "discard", "remove", "update", "union", "intersection", "difference", "issubset",
                      "issuperset", "isdisjoint", "copy", "clear", "symmetric_difference"}


def t_setord(ck, ctx, funcs):
    n = 0
    for f in funcs:
        parents = {}
        for p in ast.walk(f.node):
            for c in ast.iter_child_nodes(p):
                parents[id(c)] = p
        setvars = set()
        for node in ast.walk(f.node):
            if isinstance(node, ast.Assign) and _is_set_expr(node.value):
                for t in node.targets:
                    if isinstance(t, ast.Name):
                        setvars.add(t.id)
        uses = []
        for node in ast.walk(f.node):
            if _is_set_expr(node):
                uses.append(node)
            elif isinstance(node, ast.Name) and node.id in setvars and isinstance(node.ctx, ast.Load):
                uses.append(node)
        for u in uses:
            par = parents.get(id(u))
            ok = True
            how = type(par).__name__
            if isinstance(par, ast.Assign):
                ok = True
            elif isinstance(par, ast.Compare):
                ok = True        # membership / equality
            elif isinstance(par, ast.Attribute):
                ok = par.attr in ORDER_FREE_METHODS
                how = f".{par.attr}"
            elif isinstance(par, ast.Call):
                ok = isinstance(par.func, ast.Name) and par.func.id in ORDER_FREE_CALLS
                how = f"{ast.unparse(par.func)}(...)"
            elif isinstance(par, (ast.For, ast.comprehension)):
                ok = False
                how = "iteration"
            elif isinstance(par, (ast.BoolOp, ast.UnaryOp, ast.If, ast.IfExp, ast.BinOp, ast.Expr, ast.Return)):
                ok = not isinstance(par, ast.Return)
            elif isinstance(par, ast.Starred):
                ok = False
                how = "unpacking"
            else:
                ok = False
            n += 1
            ck.ob("T-SETORD", f"{f.qual}:{ast.unparse(u)[:40]} used by {how}", ok,
                  "a set's iteration order depends on the hash seed; it may be used only for membership / "
                  "equality / size or after sorting", f.loc(u))
    return n


# ---------------------------------------------------------------------------
# class-level mutable defaults in output classes (shared between tables / runs)
# ---------------------------------------------------------------------------

def t_class_defaults(ck, ctx, module_prefix="simple_ddl_parser.output"):
    n = 0
    for c in ctx.model.classes.values():
        if not c.module.name.startswith(module_prefix):
            continue
        for name, (_ann, val, node) in c.attrs.items():
            if val is None:
                continue
            bad = isinstance(val, (ast.List, ast.Dict, ast.Set))
            if isinstance(val, ast.Call) and isinstance(val.func, ast.Name) and val.func.id == "field":
                for k in val.keywords:
                    if k.arg == "default" and isinstance(k.value, (ast.List, ast.Dict, ast.Set, ast.Call)):
                        bad = True
            n += 1
            ck.ob("T-SHARED-DEFAULT", f"{c.name}.{name}", not bad,
                  "a mutable class-level default is shared by every table object and every run",
                  f"{c.module.path}:{node.lineno}")
    # mutable default ARGUMENTS of package functions: one object per function, shared by every call - harmless only while the
    # parameter is merely read (iterated, tested, indexed); stored, returned, placed into a result or mutated it leaks between
    # statements, tables and runs
    for f in ctx.model.all_funcs():
        a = f.node.args
        pos = a.posonlyargs + a.args
        pairs = list(zip(pos[len(pos) - len(a.defaults):], a.defaults)) + [(p, d) for p, d in zip(a.kwonlyargs, a.kw_defaults) if d is not None]
        for p_, d in pairs:
            mutable = isinstance(d, (ast.List, ast.Dict, ast.Set, ast.ListComp, ast.DictComp, ast.SetComp)) or (
                isinstance(d, ast.Call) and isinstance(d.func, ast.Name) and d.func.id in ("list", "dict", "set", "defaultdict", "OrderedDict"))
            if not mutable:
                continue
            escapes = None
            parents = {}
            for x in ast.walk(f.node):
                for c_ in ast.iter_child_nodes(x):
                    parents[c_] = x
            for x in ast.walk(f.node):
                if isinstance(x, ast.Name) and x.id == p_.arg and isinstance(x.ctx, ast.Load):
                    par = parents.get(x)
                    if isinstance(par, (ast.For, ast.comprehension)) and getattr(par, "iter", None) is x:
                        continue
                    if isinstance(par, ast.Compare) or isinstance(par, (ast.If, ast.IfExp, ast.BoolOp, ast.UnaryOp, ast.While)):
                        continue
                    if isinstance(par, ast.Subscript) and par.value is x and isinstance(par.ctx, ast.Load):
                        continue
                    if isinstance(par, ast.Call) and isinstance(par.func, ast.Name) and par.func.id in ("len", "sorted", "any", "all", "sum", "min", "max", "enumerate", "tuple", "frozenset") and x in par.args:
                        continue
                    if isinstance(par, ast.Attribute) and par.value is x and par.attr in ("get", "items", "keys", "values", "index", "count", "copy"):
                        continue
                    escapes = par
                    break
            n += 1
            ck.ob("T-SHARED-DEFAULT", f"{f.qual}({p_.arg}={ast.unparse(d)})", escapes is None,
                  "a mutable default argument is one object shared by every call; here it is stored, returned, passed on or mutated" +
                  ("" if escapes is None else f" ({ast.unparse(escapes)[:70]})"), f.loc(p_))
    return n


def _nested_mutable(v):
    """a dict / list literal at module level whose elements include a mutable container"""
    if isinstance(v, ast.Dict):
        return any(isinstance(x, (ast.List, ast.Dict, ast.Set)) for x in v.values)
    if isinstance(v, (ast.List, ast.Tuple)):
        return any(isinstance(x, (ast.List, ast.Dict, ast.Set)) for x in v.elts)
    return False


def statement_scope(ctx):
    """lexer rules, grammar actions and everything they reach (parser family and module functions)"""
    fam = parser_family_funcs(ctx)
    famids = {f.id for f in fam}
    scope = ctx.callgraph.reachable(ply_entry_methods(ctx))
    return [f for f in scope if f.id in famids or not f.cls]


def t_alias(ck, ctx, scope=None):
    """T-ALIAS: module-level containers holding mutable objects may be consulted (membership / get / index / iteration) but must not
    flow into a result: the nested objects would be shared by every statement, every run and every parser object of the process"""
    m = ctx.model
    scope = statement_scope(ctx) if scope is None else scope
    for f in scope:
        mut = {n: v for n, v in f.module.assigns.items() if _nested_mutable(v)}
        for local, imp in f.module.imports.items():
            r = m.resolve_symbol(f.module, local)
            if r and r[0] == "value" and _nested_mutable(r[1].assigns.get(r[2])):
                mut[local] = r[1].assigns[r[2]]
        if not mut:
            continue
        parents = {}
        for p in ast.walk(f.node):
            for c in ast.iter_child_nodes(p):
                parents[id(c)] = p
        for n in ast.walk(f.node):
            if isinstance(n, ast.Name) and isinstance(n.ctx, ast.Load) and n.id in mut and not _is_local(f, n.id):
                par = parents.get(id(n))
                ok = isinstance(par, ast.Compare) or (isinstance(par, ast.Attribute) and par.attr in ("get", "keys", "items", "values")) \
                    or (isinstance(par, ast.Subscript) and par.value is n and isinstance(par.ctx, ast.Load) and not _nested_mutable(mut[n.id])) \
                    or isinstance(par, (ast.For, ast.comprehension))
                ck.ob("T-ALIAS", f"{f.qual}: module-level {n.id} used by {type(par).__name__}", ok,
                      f"{n.id} is a module-level container holding mutable objects; copying / unpacking it into a result makes every "
                      "statement (and every parser object) share those inner objects", f.loc(n))
