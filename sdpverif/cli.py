"""Command line: python -m sdpverif check <ID> [--tier quick|thorough]"""
import argparse
import importlib
import json
import os
import sys
import traceback

from . import VERIF
from .core import Check, AnalysisError, fail_analysis, EXIT_ANALYSIS


def run_check(prop, tier, seed):
    if "simple_ddl_parser" in sys.modules:
        return fail_analysis(prop, "simple_ddl_parser is imported in the analyser process")
    from .context import Context
    ck = Check(prop, tier, seed)
    try:
        mod = importlib.import_module(f"sdpverif.props.{prop}")
        ctx = Context(tier, seed)
        mod.run(ck, ctx)
        return ck.finish()
    except AnalysisError as e:
        return _partial(ck, prop, str(e))
    except Exception:
        traceback.print_exc()
        return _partial(ck, prop, "internal error in the analyser (traceback above)")


def _partial(ck, prop, msg):
    """the analysis could not be completed; obligations already found violated (and not listed as known findings) are still
    violations of the property and are reported as such"""
    from .core import load_known_findings
    known = {f["key"] for f in load_known_findings() if f["property"] == prop and f.get("status", "known") == "known"}
    if any((not o.ok) and f"{o.rule}|{o.key}" not in known for o in ck.obligations):
        print(f"(analysis incomplete: {msg})")
        return ck.finish()
    return fail_analysis(prop, msg)


def replay(path):
    with open(path) as fh:
        v = json.load(fh)
    prop = v["property"]
    print(f"replaying {v['finding_key']} of {prop} on the current tree")
    from .context import Context
    ck = Check(prop, "quick", 0)
    mod = importlib.import_module(f"sdpverif.props.{prop}")
    try:
        mod.run(ck, Context("quick", 0))
    except AnalysisError as e:
        return fail_analysis(prop, str(e))
    hit = [o for o in ck.obligations if not o.ok and f"{o.rule}|{o.key}" == v["finding_key"]]
    for o in hit:
        print(json.dumps(o.as_dict(), indent=1))
    print("still violated" if hit else "no longer violated")
    return 1 if hit else 0


def main(argv=None):
    ap = argparse.ArgumentParser(prog="sdpverif")
    sub = ap.add_subparsers(dest="cmd", required=True)
    c = sub.add_parser("check")
    c.add_argument("prop")
    c.add_argument("--tier", default=os.environ.get("VERIF_TIER", "quick"), choices=["quick", "thorough"])
    r = sub.add_parser("replay")
    r.add_argument("path")
    sub.add_parser("setup")
    a = ap.parse_args(argv)
    seed = int(os.environ.get("VERIF_SEED", "0") or 0)
    if a.cmd == "setup":
        import ply.yacc  # noqa
        from .srcmodel import Model
        Model()
        print("setup ok: PLY importable, /repo parses")
        return 0
    if a.cmd == "replay":
        return replay(a.path)
    return run_check(a.prop, a.tier, seed)
