"""Obligation book-keeping, known findings, evidence files, exit codes."""
import json
import os
import sys
import time

from . import VERIF

EXIT_OK, EXIT_VIOLATION, EXIT_ANALYSIS = 0, 1, 2
# the self-test runs the checks on mutated scratch copies and must not overwrite the real evidence
EVIDENCE_DIR = os.environ.get("SDPVERIF_EVIDENCE_DIR") or os.path.join(VERIF, "evidence")


class AnalysisError(Exception):
    """The analyser cannot decide (vanished anchor, unsupported construct,
    instance count under the floor).  Never a violation, never a pass."""


def load_known_findings():
    path = os.path.join(VERIF, "known_findings.json")
    with open(path) as fh:
        data = json.load(fh)
    return data["findings"]


class Obligation:
    __slots__ = ("rule", "key", "ok", "detail", "loc", "witness")

    def __init__(self, rule, key, ok, detail, loc, witness):
        self.rule, self.key, self.ok = rule, key, ok
        self.detail, self.loc, self.witness = detail, loc, witness

    def as_dict(self):
        d = {"rule": self.rule, "key": self.key,
             "verdict": "discharged" if self.ok else "VIOLATED",
             "at": self.loc, "detail": self.detail}
        if self.witness:
            d["witness"] = self.witness
        return d


class Check:
    """One run of the checks of one property."""

    def __init__(self, prop_id, tier="quick", seed=0, level="other"):
        self.prop_id, self.tier, self.seed, self.level = prop_id, tier, seed, level
        self.t0 = time.time()
        self.obligations = []
        self.info = []          # informational lines (not obligations)
        self.analysed = {}      # measured counters
        self.rules = {}         # rule -> {"instances": n, "floor": n}
        self.assumptions = []
        self.trusted = ["CPython ast / re._parser", "PLY 3.11 table generator and driver semantics",
                        "the analyser (sdpverif)"]
        self.explanation = ""
        self.states = 0
        self.transitions = 0
        self.samples_extra = []
        self.extra_cov = {}

    # -- recording -----------------------------------------------------------
    def ob(self, rule, key, ok, detail="", loc="", witness=None):
        """Record one obligation.  `key` identifies the construct semantically
        (function, operands) - never a line number."""
        self.obligations.append(Obligation(rule, key, bool(ok), detail, loc, witness))
        r = self.rules.setdefault(rule, {"instances": 0, "floor": 0})
        r["instances"] += 1
        return ok

    def floor(self, rule, n):
        """The rule must have matched at least n instances (confirmed by hand)."""
        r = self.rules.setdefault(rule, {"instances": 0, "floor": 0})
        r["floor"] = n
        if r["instances"] < n:
            raise AnalysisError(
                f"rule {rule}: {r['instances']} instance(s) matched, floor confirmed by hand is {n} "
                "(anchor vanished or renamed - re-confirm the rule instances)")

    def count(self, name, n=1):
        self.analysed[name] = self.analysed.get(name, 0) + n

    def note(self, text):
        self.info.append(text)

    # -- finishing -----------------------------------------------------------
    def finish(self):
        known = [f for f in load_known_findings() if f["property"] == self.prop_id]
        known_open = {f["key"]: f for f in known if f.get("status", "known") == "known"}
        viol = [o for o in self.obligations if not o.ok]
        new, listed = [], []
        seen_keys = set()
        for o in viol:
            k = f"{o.rule}|{o.key}"
            if k in seen_keys:
                continue
            seen_keys.add(k)
            (listed if k in known_open else new).append((k, o))
        for k, o in listed:
            print(f"KNOWN-FINDING: property={self.prop_id} {k} :: {known_open[k]['what']}")
        vdir = os.path.join(EVIDENCE_DIR, "violations")
        # replay files of earlier runs of this property describe another tree: remove them
        if os.path.isdir(vdir):
            for fn in os.listdir(vdir):
                if fn.startswith(self.prop_id + "-") and fn.endswith(".json"):
                    try:
                        os.remove(os.path.join(vdir, fn))
                    except OSError:
                        pass
        replay_paths = []
        if new:
            os.makedirs(vdir, exist_ok=True)
        for i, (k, o) in enumerate(new):
            path = os.path.join(vdir, f"{self.prop_id}-{i}.json")
            with open(path, "w") as fh:
                json.dump({"property": self.prop_id, "finding_key": k, **o.as_dict()}, fh, indent=1)
            replay_paths.append(path)
            print(f"  {o.rule}: {o.key}\n     at {o.loc}\n     {o.detail}")
            if o.witness:
                print(f"     witness: {o.witness}")
            print(f"VIOLATION property={self.prop_id} replay={path}")
        self._write_evidence(len(new), len(listed))
        n_ob = len(self.obligations)
        print(f"[{self.prop_id}] tier={self.tier} obligations={n_ob} "
              f"discharged={n_ob - len(viol)} known_findings={len(listed)} new_violations={len(new)} "
              f"wall={time.time() - self.t0:.2f}s")
        return EXIT_VIOLATION if new else EXIT_OK

    def _write_evidence(self, n_new, n_known):
        obs = self.obligations
        distinct = len({(o.rule, o.key) for o in obs})
        samples = [o.as_dict() for o in obs if not o.ok][:10]
        # spread samples over rules
        seen_rules = set()
        for o in obs:
            if o.rule not in seen_rules and o.ok:
                seen_rules.add(o.rule)
                samples.append(o.as_dict())
        samples = samples[:40] + self.samples_extra[:20]
        cov = {
            "evaluations": max(len(obs), 1),
            "distinct_nontrivial": distinct,
            "rule": "one evaluation = one static obligation (rule instance x construct) decided on the "
                    "current /repo source; distinct = distinct (rule, construct key) pairs; every "
                    "obligation is non-trivial by construction (it names a construct found in the source "
                    "or a configuration of the lexer x LALR product)",
            "samples": samples if samples else [{"note": "no obligations"}],
            "obligations": len(obs),
            "discharged": len([o for o in obs if o.ok]),
            "violated_known_findings": n_known,
            "violated_new": n_new,
            "rules": self.rules,
            "analysed": self.analysed,
            "explanation": self.explanation,
            "trusted_base": self.trusted,
            "checker_cmd": f"/venv/bin/python -m sdpverif check {self.prop_id} --tier {self.tier}",
            "information": self.info[:60],
        }
        if self.states:
            cov["states"] = self.states
            cov["transitions"] = self.transitions
            cov["traces_validated_against_impl"] = 0
        cov.update(self.extra_cov)
        ev = {
            "property_id": self.prop_id, "tier": self.tier, "seed": self.seed,
            "level": self.level, "coverage": cov, "assumptions": self.assumptions,
            "wall_s": round(time.time() - self.t0, 3), "violations": n_new,
        }
        os.makedirs(EVIDENCE_DIR, exist_ok=True)
        with open(os.path.join(EVIDENCE_DIR, f"{self.prop_id}.json"), "w") as fh:
            json.dump(ev, fh, indent=1, default=str)


def fail_analysis(prop_id, msg):
    print(f"ANALYSIS-ERROR property={prop_id} {msg}")
    return EXIT_ANALYSIS
