"""E7 - the line machine of parser.py (Parser.process_line and everything it calls) as an abstract transition function.

A *machine state* is the set of registers the line machine carries from line to line (statement, multi_line_comment,
block_comments, comments, set_line, set_was_in_line, tables).  A *line class* is a lock-step tuple of exemplar lines (pyabs.W)
written the way a line looks after pre_process_data (commas and parentheses spaced).  `step(state, line)` evaluates
Parser.process_line abstractly (the real method bodies, walked as ast; the call of the LALR parser is intercepted and the
statement text handed to it is recorded) and returns the statements handed to the parser and the new state.

On top of it C08 is decided relationally, per line, for every reachable machine state (see props/C08.py)."""
import ast
import copy
import re

from .core import AnalysisError
from .pyabs import Interp, Obj, W, PyRaise, Raised, LexUnknown, NonUniform, deep_eq, _Return

REGISTERS = ("statement", "multi_line_comment", "block_comments", "comments", "set_line", "set_was_in_line", "tables")


class _LineInterp(Interp):
    def __init__(self, model, ns, attrs):
        super().__init__(model, ns, Obj(), self_attrs=attrs)
        self.parsed = []
        self.lexer_at_parse = []

    track_lexer = False
    parse_outcome = None        # None: parse_statement intercepted; "ok" / "none" / "raise": parse_statement evaluated, the LALR call stubbed

    init_only = frozenset()

    def attribute(self, e, env):
        if isinstance(e.value, ast.Name) and e.value.id == "self" and e.attr in self.init_only and e.attr != "lexer" and e.attr not in self.self_attrs \
                and e.attr not in self.methods:
            raise LexUnknown(f"self.{e.attr} is set by the constructor in a form the line model does not evaluate")
        if e.attr == "parse" and isinstance(e.value, ast.Attribute) and e.value.attr == "yacc":
            o = self.ev(e.value, env)
            if isinstance(o, Obj) and getattr(o, "_kind", None) == "yacc":
                return ("method", o, "parse")
        return super().attribute(e, env)

    def method(self, o, m, args, kwargs):
        if isinstance(o, Obj) and getattr(o, "_kind", None) == "yacc" and m == "parse":
            self.parsed.append(copy.deepcopy(args[0] if args else None))
            # the lexer flags as the LALR call finds them; the call then leaves them in whatever state the statement put them
            self.lexer_at_parse.append(dict(self.lexer.__dict__))
            for k in list(self.lexer.__dict__):
                setattr(self.lexer, k, LineMachine.DIRTY)
            if self.parse_outcome == "raise":
                mod = self.model.modules.get("simple_ddl_parser.ddl_parser") or self.model.parser_method("parse_statement").module
                raise Raised("DDLParserError", "raise DDLParserError(...)  [the lexer / parser error hook, silent=False or an unknown symbol]", None, mod)
            if self.parse_outcome == "none":
                return None
            return {"parsed": copy.deepcopy(args[0] if args else None)}
        return super().method(o, m, args, kwargs)

    def call_method(self, name, args, kwargs=None):
        if name == "parse_statement" and self.parse_outcome is not None:
            return super().call_method(name, args, kwargs)
        if name == "parse_statement":
            self.parsed.append(copy.deepcopy(self.self_attrs.get("statement")))
            if self.track_lexer:
                self.lexer_at_parse.append(dict(self.lexer.__dict__))
                # the parse leaves the flags in whatever state the statement put them
                for k in list(self.lexer.__dict__):
                    setattr(self.lexer, k, LineMachine.DIRTY)
            return None
        if name == "set_default_flags_in_lexer" and not self.track_lexer:
            return None
        return super().call_method(name, args, kwargs)


def _re_arg(a):
    """a constant argument of re.compile: a literal, re.<FLAG>, or flags joined with `|` (None: not of that form)"""
    if isinstance(a, ast.Constant):
        return a.value
    if isinstance(a, ast.Attribute) and isinstance(a.value, ast.Name) and a.value.id == "re" and isinstance(getattr(re, a.attr, None), re.RegexFlag):
        return getattr(re, a.attr)
    if isinstance(a, ast.BinOp) and isinstance(a.op, ast.BitOr):
        l, r = _re_arg(a.left), _re_arg(a.right)
        return None if l is None or r is None or isinstance(l, str) or isinstance(r, str) else l | r
    return None


class LineMachine:
    def __init__(self, ctx):
        self.ctx = ctx
        self.model = ctx.model
        m = self.model
        init = m.parser_method("__init__")
        # the constant part of the parser object: compiled regexes and settings, as the constructor sets them
        self.consts = {}
        self.init_only = set()      # set by the constructor in a form that is not evaluated here
        # (the constructor may delegate to helper methods of the parser family: self.<helper>() calls are followed)
        methods = m.parser_methods()
        bodies, todo, seen_h = [], [init], {"__init__"}
        while todo:
            f_ = todo.pop()
            bodies.append(f_)
            for n in ast.walk(f_.node):
                if isinstance(n, ast.Call) and isinstance(n.func, ast.Attribute) and isinstance(n.func.value, ast.Name) and n.func.value.id == "self" \
                        and n.func.attr in methods and n.func.attr not in seen_h and not n.func.attr.startswith(("p_", "t_")):
                    seen_h.add(n.func.attr)
                    todo.append(methods[n.func.attr])
        self.init_funcs = bodies
        for f_, n in [(f_, n) for f_ in bodies for n in ast.walk(f_.node)]:
            if isinstance(n, ast.Assign) and len(n.targets) == 1 and isinstance(n.targets[0], ast.Attribute) \
                    and isinstance(n.targets[0].value, ast.Name) and n.targets[0].value.id == "self":
                v = n.value
                name = n.targets[0].attr
                if isinstance(v, ast.Call) and ast.unparse(v.func) == "re.compile" and v.args and all(_re_arg(a) is not None for a in v.args) \
                        and all(k.arg == "flags" and _re_arg(k.value) is not None for k in v.keywords):
                    try:
                        self.consts[name] = ("regex", re.compile(*[_re_arg(a) for a in v.args], **{k.arg: _re_arg(k.value) for k in v.keywords}))
                    except re.error as e:
                        raise AnalysisError(f"Parser.__init__: regex of self.{name} does not compile: {e}")
                elif isinstance(v, ast.Constant):
                    self.consts[name] = v.value
                else:
                    try:
                        self.consts[name] = ast.literal_eval(v)        # tuples / lists / dicts of constants
                    except Exception:
                        # anything else the interpreter can compute from constants and module-level values (a tuple built by a
                        # comprehension, a dict of patterns ...); handles of PLY, the input text etc. stay unevaluated
                        try:
                            if any(isinstance(x, ast.Name) and x.id in ("content", "debug", "silent", "normalize_names", "log_file", "log_level", "self")
                                   for x in ast.walk(v)):
                                raise LexUnknown("depends on a constructor argument")
                            self.consts[name] = Interp(m, ctx.grammar.tokens_ns, Obj()).ev(v, {"__module__": f_.module})
                        except Exception:
                            self.init_only.add(name)
        self.consts.setdefault("silent", True)
        self.consts.setdefault("normalize_names", False)
        for need in ("in_comment", "equal_without_space", "skip_regex", "set_statement"):
            if need not in self.consts:
                raise AnalysisError(f"anchor vanished: Parser.__init__ no longer compiles self.{need}")
        self.n_steps = 0

    def initial(self):
        """registers as parse_data sets them before the first line"""
        pd = self.model.parser_method("parse_data")
        st = {}
        for n in ast.walk(pd.node):
            if isinstance(n, (ast.Assign, ast.AnnAssign)):
                tgts = n.targets if isinstance(n, ast.Assign) else [n.target]
                for t in tgts:
                    if isinstance(t, ast.Attribute) and isinstance(t.value, ast.Name) and t.value.id == "self" and n.value is not None:
                        v = n.value
                        if isinstance(v, ast.Constant):
                            st[t.attr] = v.value
                        elif isinstance(v, ast.List) and not v.elts:
                            st[t.attr] = []
        for r in REGISTERS:
            if r not in st:
                raise AnalysisError(f"Parser.parse_data does not initialise self.{r} before the line loop (register list changed?)")
        return {r: st[r] for r in REGISTERS}

    def step(self, state, line, more_lines=True):
        """returns (statements handed to the parser, new state).  `more_lines` is the argument parse_data passes
        (True for every line but the last)."""
        try:
            return self._step1(state, line, more_lines)
        except NonUniform as first:
            # the control flow depends on a feature in which the exemplars of the line class differ (e.g. which statement word
            # the line starts with): evaluate once per exemplar and zip the results back into lock-step values
            from .deriv import _leaves, _project, _zip, _ShapeMismatch
            width = None
            for v in _leaves([line, state]):
                width = len(v.ex)
                break
            if width is None:
                raise
            outs = []
            for i in range(width):
                outs.append(self._step1(_project(copy.deepcopy(state), i), _project(line, i), more_lines))
            try:
                parsed = _zip([o[0] for o in outs])
                new = _zip([o[1] for o in outs])
            except _ShapeMismatch as sm:
                raise NonUniform(f"the line machine handles the exemplars of one line class in structurally different ways: {sm} ({first})")
            return parsed, new

    def finish(self, state):
        """what parse_data returns when the line loop ends in `state` (per-exemplar fallback when not in lock step)"""
        try:
            return self._finish1(state)
        except NonUniform as first:
            from .deriv import _leaves, _project, _zip, _ShapeMismatch
            if not any(True for _ in _leaves([state])):
                raise
            outs = [self._finish1(_project(copy.deepcopy(state), i)) for i in range(6)]
            try:
                return _zip(outs)
            except _ShapeMismatch as sm:
                raise NonUniform(f"the end of the script is handled in structurally different ways for the exemplars: {sm} ({first})")

    def _finish1(self, state):
        pd = self.model.parser_method("parse_data")
        loop = [i for i, st in enumerate(pd.node.body) if isinstance(st, ast.For) and any(
            isinstance(n, ast.Call) and isinstance(n.func, ast.Attribute) and n.func.attr == "process_line" for n in ast.walk(st))]
        if len(loop) != 1:
            raise AnalysisError("Parser.parse_data: the loop calling self.process_line for every line is not found")
        attrs = dict(self.consts)
        attrs.update(copy.deepcopy(state))
        it = _LineInterp(self.model, self.ctx.grammar.tokens_ns, attrs)
        it.init_only = self.init_only
        it.cur_func = pd
        try:
            it.block(pd.node.body[loop[0] + 1:], {"__module__": pd.module})
        except _Return as r:
            return r.v
        raise AnalysisError("Parser.parse_data: no return after the line loop")

    def form_lines(self, script):
        """the list of lines parse_data forms from a script (lock-step exemplar texts): everything parse_data does before the
        line loop - unicode_escape encoding as in __init__, pre_process_data, tab removal, the split at line ends - evaluated
        abstractly.  Returns (lines, registers before the first line)."""
        pd = self.model.parser_method("parse_data")
        loop = [i for i, st in enumerate(pd.node.body) if isinstance(st, ast.For) and any(
            isinstance(n, ast.Call) and isinstance(n.func, ast.Attribute) and n.func.attr == "process_line" for n in ast.walk(st))]
        if len(loop) != 1:
            raise AnalysisError("Parser.parse_data: the loop calling self.process_line for every line is not found")
        attrs = dict(self.consts)
        enc = lambda t: t.encode("unicode_escape")
        attrs["data"] = W([enc(x) for x in script.ex]) if isinstance(script, W) else enc(script)
        it = _LineInterp(self.model, self.ctx.grammar.tokens_ns, attrs)
        it.init_only = self.init_only
        it.cur_func = pd
        env = {"__module__": pd.module}
        it.block(pd.node.body[:loop[0]], env)
        seq = it.ev(pd.node.body[loop[0]].iter, env)
        # `for num, self.line in enumerate(lines)`
        lines = [x[1] if isinstance(x, tuple) else x for x in it.iterate(seq)]
        return lines, {r: it.self_attrs.get(r) for r in REGISTERS}

    def run_script(self, script):
        """parse_data evaluated abstractly from its first to its last statement (its own line loop included) on a script (lock-step
        exemplar texts or one text): returns (statements handed to the grammar, what parse_data returns)"""
        pd = self.model.parser_method("parse_data")
        attrs = dict(self.consts)
        enc = lambda t: t.encode("unicode_escape")
        attrs["data"] = W([enc(x) for x in script.ex]) if isinstance(script, W) else enc(script)
        it = _LineInterp(self.model, self.ctx.grammar.tokens_ns, attrs)
        it.init_only = self.init_only
        it.cur_func = pd
        try:
            it.block(pd.node.body, {"__module__": pd.module})
        except _Return as r:
            return it.parsed, r.v
        raise AnalysisError("Parser.parse_data: no return")

    DIRTY = "<left over from the previous statement>"

    def lexer_after_prologue(self):
        """the lexer flags when the line loop of parse_data starts: everything dirty (whatever an earlier run() left) unless the
        statements before the loop reset them"""
        pd = self.model.parser_method("parse_data")
        loop = [i for i, st in enumerate(pd.node.body) if isinstance(st, ast.For) and any(
            isinstance(n, ast.Call) and isinstance(n.func, ast.Attribute) and n.func.attr == "process_line" for n in ast.walk(st))]
        attrs = dict(self.consts)
        attrs["data"] = b""
        it = _LineInterp(self.model, self.ctx.grammar.tokens_ns, attrs)
        it.init_only = self.init_only
        it.track_lexer = True
        it.cur_func = pd
        for k in self.ctx.lexer.start_flags:
            setattr(it.lexer, k, self.DIRTY)
        try:
            it.block(pd.node.body[:loop[0]] if loop else [], {"__module__": pd.module})
        except (PyRaise, Raised, LexUnknown, NonUniform):
            pass
        return dict(it.lexer.__dict__)

    def lexer_flags_at_parse(self, state, line, more_lines=True, lexer_in=None):
        """process_line evaluated with the reset function NOT intercepted: the lexer flags as they are at each call of
        parse_statement (one dict per statement handed over) and the flags the call leaves behind.  `lexer_in`: the flags before
        the line (default: everything dirty).  Every intercepted parse dirties all flags."""
        from .deriv import _leaves, _project
        start = dict(self.ctx.lexer.start_flags)
        out = []
        after = None
        width = 6 if any(True for _ in _leaves([line, state])) else 1
        for i in range(width):
            attrs = dict(self.consts)
            attrs.update(copy.deepcopy(_project(copy.deepcopy(state), i) if width > 1 else state))
            attrs["line"] = _project(line, i) if width > 1 else line
            it = _LineInterp(self.model, self.ctx.grammar.tokens_ns, attrs)
            it.init_only = self.init_only
            it.track_lexer = True
            for k in start:
                setattr(it.lexer, k, self.DIRTY)
            for k, v in (lexer_in or {}).items():
                setattr(it.lexer, k, v)
            it.call_func(self.model.parser_method("process_line"), [more_lines])
            out.extend(it.lexer_at_parse)
            la = dict(it.lexer.__dict__)
            if after is None:
                after = la
            elif after != la:
                after = {k: (v if la.get(k) == v else self.DIRTY) for k, v in after.items()}
        self.last_lexer_after = after
        return out, start

    def step_parse(self, state, line, more_lines, outcome, silent, lexer_in=None):
        """process_line with parse_statement EVALUATED (only the LALR call itself is stubbed): outcome "ok" (a result dict), "none"
        (nothing recognised) or "raise" (the error hooks raise DDLParserError).  Returns (statements handed over, new state, the
        exception that escaped or None) - concrete lines only"""
        attrs = dict(self.consts)
        attrs.update(copy.deepcopy(state))
        attrs["line"] = line
        attrs["silent"] = silent
        attrs["yacc"] = Obj(_kind="yacc")
        it = _LineInterp(self.model, self.ctx.grammar.tokens_ns, attrs)
        it.init_only = self.init_only
        it.parse_outcome = outcome
        it.track_lexer = True           # the reset function is evaluated, not skipped
        for k in self.ctx.lexer.start_flags:
            setattr(it.lexer, k, self.DIRTY)
        for k, v in (lexer_in or {}).items():
            setattr(it.lexer, k, v)
        self.last_lexer_at_parse = it.lexer_at_parse
        self.last_lexer_obj = it.lexer
        escaped = None
        try:
            it.call_func(self.model.parser_method("process_line"), [more_lines])
        except Raised as r:
            escaped = r
        new = {r_: it.self_attrs.get(r_) for r_ in REGISTERS}
        return it.parsed, new, escaped

    def step_each(self, state, line, more_lines=True):
        """one (statements, new state) per exemplar - for line classes the machine does not treat uniformly"""
        from .deriv import _leaves, _project
        width = None
        for v in _leaves([line, state]):
            width = len(v.ex)
            break
        if width is None:
            return [self._step1(state, line, more_lines)]
        return [self._step1(_project(copy.deepcopy(state), i), _project(line, i), more_lines) for i in range(width)]

    def _step1(self, state, line, more_lines):
        attrs = dict(self.consts)
        attrs.update(copy.deepcopy(state))
        attrs["line"] = line
        it = _LineInterp(self.model, self.ctx.grammar.tokens_ns, attrs)
        it.init_only = self.init_only
        f = self.model.parser_method("process_line")
        self.n_steps += 1
        it.call_func(f, [more_lines])
        new = {r: it.self_attrs.get(r) for r in REGISTERS}
        return it.parsed, new


def same(a, b):
    try:
        return deep_eq(a, b)
    except NonUniform:
        return False
