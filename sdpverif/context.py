"""Lazily built engines shared by the checks of one run."""
from .srcmodel import Model, CallGraph


class Context:
    def __init__(self, tier="quick", seed=0):
        self.tier, self.seed = tier, seed
        self._c = {}

    def _get(self, name, build):
        if name not in self._c:
            self._c[name] = build()
        return self._c[name]

    @property
    def model(self):
        return self._get("model", Model)

    @property
    def callgraph(self):
        return self._get("cg", lambda: CallGraph(self.model))

    @property
    def grammar(self):
        from .grammar import GrammarModel
        return self._get("grammar", lambda: GrammarModel(self.model))

    @property
    def lexer(self):
        from .lexmodel import LexModel
        return self._get("lexer", lambda: LexModel(self.model, self.grammar))

    @property
    def actions(self):
        from .actions import ActionModel
        return self._get("actions", lambda: ActionModel(self.model, self.grammar))
