"""C03 - statements parsed independently, reported in order (DESIGN 4, C03)."""
import ast

from ..core import AnalysisError
from ..effects import RBW, access_path
from ..rules import state as S
from ..srcmodel import Func

# state the line machine legitimately carries from one line to the next (L1; its behaviour is declined)
CARRIED = {"line", "multi_line_comment", "comments", "block_comments", "set_line", "set_was_in_line", "tables", "statement"}
# what a lexer rule / grammar action may read from the parser object
ACTION_READS = {"lexer", "silent", "normalize_names"}
# Output attributes (formatter): configuration + the two per-run accumulators
OUTPUT_ATTRS = {"output_mode", "schema_key", "group_by_type", "parser_output", "final_result", "tables_dict"}


def _nested_mutable(v):
    """a dict / list literal at module level whose elements include a mutable container"""
    if isinstance(v, ast.Dict):
        return any(isinstance(x, (ast.List, ast.Dict, ast.Set)) for x in v.values)
    if isinstance(v, (ast.List, ast.Tuple)):
        return any(isinstance(x, (ast.List, ast.Dict, ast.Set)) for x in v.elts)
    return False


def _nested_mutable_value(v):
    return _nested_mutable(v)


def run(ck, ctx):
    m, cg = ctx.model, ctx.callgraph
    eff = S.effects_of(ctx)
    ck.explanation = (
        "E1 + E5. Per-statement parsing is a pure function of the statement text: (T-RESET.lexer) every lexer attribute written "
        "and read while a statement is parsed is reset to a constant by set_default_flags_in_lexer, (T-DOM / T-CALLERS) that reset "
        "dominates the only call chain process_line -> process_statement -> parse_statement -> <own yacc>.parse, (T-PURE) lexer "
        "rules, grammar actions and everything they reach read nothing of the parser object but the lexer, `silent` and "
        "`normalize_names`, write nothing but lexer attributes, and touch no module-level state, (T-CHANNEL) no lexer attribute "
        "computed from the whole script is read while a statement is parsed. Line machine: (T-CARRY) the only parser attributes "
        "whose value survives from one line to the next are the enumerated assembly / comment / SET registers, (T-REBIND) the "
        "pending statement is re-bound on every path of process_statement. Order: (T-ORDER / T-ITER) results are appended in one "
        "in-order pass, the formatter walks the parser output once in order and keeps no state besides the table registry used "
        "for ALTER / INDEX merging; no mutable class-level default is shared between table objects. Statement boundaries (E7, O-split): "
        "Parser.process_line evaluated abstractly - from the start of the script and from the state left by each kind of statement, a "
        "`;`-terminated statement hands over exactly its own text once (skipped statements, SET and blank lines nothing), leaves the "
        "line machine as it was at the start of the script, and as last statement of the script is still handed over / reported.")
    # ---- lexer flags
    S.t_reset_lexer(ck, ctx, channels=True)
    ck.floor("T-RESET.lexer", 10)
    ck.floor("T-RESET.lexer-const", 2)
    from ..specs.lines import check_reset_before_parse
    check_reset_before_parse(ck, ctx,
            "Parser.process_line: flag reset dominates process_statement()",
            "every path that parses a statement must first put the lexer into its start state")
    # ---- the call chain to the parser
    fam = S.parser_family_funcs(ctx)
    famids = {f.id for f in fam}
    chain = [("parse_statement", {"Parser.process_statement"}), ("process_statement", {"Parser.process_line"}),
             ("process_line", {"Parser.parse_data"}), ("set_default_flags_in_lexer", {"Parser.process_line"})]
    for callee_name, allowed in chain:
        target = m.parser_method(callee_name)
        callers = set()
        for f in m.all_funcs():
            for call, c in cg.callees(f):
                if c is target:
                    callers.add(f.qual)
        ck.ob("T-CALLERS", f"{target.qual} called only from {sorted(allowed)}", callers and callers <= allowed,
              f"callers found: {sorted(callers)}: a second route to the parser would bypass the per-statement reset",
              target.loc())
    ps = m.parser_method("parse_statement")
    parse_calls = [(f, n) for f in m.all_funcs() for n in ast.walk(f.node)
                   if isinstance(n, ast.Call) and isinstance(n.func, ast.Attribute) and n.func.attr == "parse"
                   and (access_path(n.func.value) or "").startswith("self.")]
    ck.ob("T-CALLERS", "<self.yacc>.parse called only in Parser.parse_statement",
          parse_calls and all(f is ps for f, _ in parse_calls), str([f.qual for f, _ in parse_calls]), ps.loc())
    for f, n in parse_calls:
        arg = n.args[0] if n.args else None
        ck.ob("T-CALLERS", f"{f.qual}: the text parsed is self.statement", arg is not None and access_path(arg) == "self.statement",
              "the statement handed to the parser must be exactly the assembled statement", f.loc(n))
    # ---- purity of the statement scope
    scope = cg.reachable(S.ply_entry_methods(ctx))
    scope = [f for f in scope if f.id in famids or not f.cls]       # dict-like API candidates of output classes are not on this path
    ck.count("functions_in_statement_scope", len(scope))
    methods = set(m.parser_methods())
    n_pure = 0
    for f in scope:
        bad = []
        for a in eff.accesses(f):
            if not a.path.startswith("self.") or f.id not in famids:
                continue
            top = a.path.split(".")[1]
            if a.kind == "load":
                if top in methods or top in ACTION_READS:
                    continue
                bad.append((a, f"reads self.{top}"))
            else:
                if top == "lexer" and a.path.count(".") >= 2:
                    continue
                bad.append((a, f"{a.kind}s {a.path}"))
        for n in ast.walk(f.node):
            if isinstance(n, (ast.Global, ast.Nonlocal)):
                bad.append((None, f"global {','.join(n.names)}"))
            if isinstance(n, ast.Call) and isinstance(n.func, ast.Attribute) and n.func.attr in S.MUTATORS \
                    and isinstance(n.func.value, ast.Name) and not S._is_local(f, n.func.value.id) \
                    and n.func.value.id in f.module.assigns:
                bad.append((None, f"mutates module-level {n.func.value.id}"))
        n_pure += 1
        if bad:
            for a, what in bad:
                ck.ob("T-PURE", f"{f.qual}: {what}", False,
                      "code run while one statement is parsed may depend only on that statement's tokens, the lexer flags "
                      "(reset per statement) and the two constructor settings; anything else makes a statement's outcome "
                      "depend on its neighbours", f.loc(a.node) if a is not None else f.loc())
    ck.ob("T-PURE", f"statement scope: {n_pure} functions scanned", True, "lexer rules, actions and helpers", "")
    S.t_alias(ck, ctx, scope)
    # ---- line machine: what is carried from line to line
    rbw = RBW(m, cg, "self", same_object=lambda f: f.id in famids)
    pl = m.parser_method("process_line")
    must, exposed = rbw.summarize(pl)
    init = m.parser_method("__init__")
    # construction-only code: the constructor and the helpers that nothing but construction-only code calls
    callers = {}
    for g in fam:
        for _call, callee in cg.callees(g):
            if hasattr(callee, "id"):
                callers.setdefault(callee.id, set()).add(g.id)
    ctor_only = {init.id}
    grew = True
    while grew:
        grew = False
        for g in fam:
            if g.id not in ctor_only and callers.get(g.id) and callers[g.id] <= ctor_only and not g.name.startswith(("p_", "t_")):
                ctor_only.add(g.id)
                grew = True
    changed_outside_init = set()
    for f in fam:
        if f.id in ctor_only:
            continue
        for a in eff.accesses(f):
            if a.path.startswith("self.") and a.path.count(".") == 1 and a.kind in ("store", "mutate", "del"):
                changed_outside_init.add(a.path.split(".")[1])
    n_carry = 0
    for path, (ef, en) in sorted(exposed.items()):
        top = path.split(".")[1]
        if top in methods:
            continue
        if top not in changed_outside_init:
            continue                      # constant after construction (compiled regexes, settings, PLY handles)
        n_carry += 1
        ck.ob("T-CARRY", f"Parser.process_line carries self.{top}", top in CARRIED,
              f"self.{top} is read in {ef.qual} before being assigned in the same process_line() call, and it changes during a run: "
              "its value flows from earlier lines / statements into later ones. Only the enumerated registers of the line machine "
              f"({sorted(CARRIED)}) may do that", ef.loc(en))
    ck.floor("T-CARRY", 6)
    for flag in ("skip", "new_statement"):
        ck.ob("T-CARRY.recomputed", f"self.{flag} is recomputed on every line", f"self.{flag}" in must and f"self.{flag}" not in exposed,
              "per-line decision flags must be assigned before they are read in process_line()", pl.loc())
    prs = m.parser_method("process_statement")
    must_ps, _ = RBW(m, cg, "self", same_object=lambda f: f.id in famids).summarize(prs)
    ck.ob("T-REBIND", "Parser.process_statement re-binds self.statement on every path", "self.statement" in must_ps,
          "after a statement is parsed the pending-statement register must be replaced (by the line that starts the next "
          "statement, or None); otherwise text of one statement is parsed again as part of the next", prs.loc())
    for n in ast.walk(prs.node):
        if isinstance(n, ast.Assign) and any(access_path(t) == "self.statement" for t in n.targets if isinstance(t, ast.Attribute)):
            def _allowed(v):
                if isinstance(v, ast.IfExp):
                    return _allowed(v.body) and _allowed(v.orelse)
                return (isinstance(v, ast.Constant) and v.value is None) or access_path(v) == "self.line"
            ok = _allowed(n.value)
            ck.ob("T-REBIND", f"Parser.process_statement: self.statement = {ast.unparse(n.value)}", ok,
                  "the register may only be cleared or restarted with the current line", prs.loc(n))
    # ---- results: in-order accumulation
    out_funcs = [f for f in m.all_funcs() if f.module.name == "simple_ddl_parser.output.core"]
    S.t_order(ck, ctx, [f for f in fam if f.cls == "Parser"] + out_funcs, {"self.tables", "self.final_result", "self.parser_output"})
    ck.floor("T-ORDER", 3)
    pd = m.parser_method("parse_data")
    loops = [n for n in ast.walk(pd.node) if isinstance(n, ast.For) and any(S.is_self_call("process_line")(c) for c in ast.walk(n))]
    if not loops:
        raise AnalysisError("anchor vanished: the line loop of Parser.parse_data")
    for lp in loops:
        it = lp.iter
        inner = it.args[0] if isinstance(it, ast.Call) and isinstance(it.func, ast.Name) and it.func.id == "enumerate" and it.args else it
        ck.ob("T-ITER", "Parser.parse_data: the line loop walks `lines` once, in order", isinstance(inner, ast.Name),
              f"iterable: {ast.unparse(it)}", pd.loc(lp))
        jumps = [x for x in ast.walk(lp) if isinstance(x, (ast.Break, ast.Return))]
        ck.ob("T-ITER", "Parser.parse_data: the line loop has no early exit", not jumps, "", pd.loc(lp))
    _concat(ck, ctx)
    # the formatter keeps no state besides its configuration, the result list and the table registry
    oc = m.classes.get(("simple_ddl_parser.output.core", "Output"))
    if oc is None:
        raise AnalysisError("anchor vanished: class Output")
    seen = set()
    for f in oc.methods.values():
        for a in eff.accesses(f):
            if a.path.startswith("self.") and a.path.split(".")[1] not in oc.methods:
                seen.add(a.path.split(".")[1])
    for attr in sorted(seen):
        ck.ob("T-CARRY.output", f"Output.{attr}", attr in OUTPUT_ATTRS,
              "the formatter may keep only its configuration, the result list and the table registry (ALTER / INDEX merging); "
              "any further attribute is a channel between statements", f"{oc.module.path}:{oc.node.lineno}")
    ck.floor("T-CARRY.output", 5)
    # registry writes: only in process_statement_data, keyed by get_table_id
    for f in oc.methods.values():
        for a in eff.accesses(f):
            if a.path == "self.tables_dict" and a.kind in ("mutate", "store"):
                ok = f.name in ("__init__", "process_statement_data")
                ck.ob("T-CARRY.output", f"{f.qual}: {a.kind} self.tables_dict", ok,
                      "the table registry is filled only when a table statement is formatted", f.loc(a.node))
    S.t_class_defaults(ck, ctx)
    ck.floor("T-SHARED-DEFAULT", 20)
    # ---- E7: the line machine at statement boundaries
    from ..specs import lines as L
    L.check_statement_boundaries(ck, ctx)
    ck.floor("O-split", 10)
    ck.assumptions += [
        "PLY's LRParser.parse() starts from an empty stack on every call and keeps nothing between calls but the lexer object",
        "the line machine is decided at line-class level (E7): statements of the listed shapes (one-line, multi-line table with and "
        "without a clause line, skipped statements on one line, GO, SET lines, blank lines), each ending with ';' at the end of a line",
        "declined: PLY's error recovery inside one unsupported statement; unsupported statements spanning several lines (DESIGN 4 C03)"]


def _concat(ck, ctx):
    """O-concat: the formatter evaluated abstractly (objabs) on several orders of independent entities must return the in-order
    concatenation of what it returns for each entity alone - however Output.format is written"""
    import copy
    import itertools
    from ..objabs import format_output, ShapeMismatch
    from ..pyabs import W, PyRaise, LexUnknown, NonUniform, deep_eq
    from ..specs import alter as A
    C = A.classes(ctx)
    base = A.base_tables(ctx, C)

    def w(*xs):
        return W(list(xs) * 2)
    ents = {
        "table s1.t": base[0], "table t": base[2],
        "sequence": {"schema": None, "sequence_name": w("s1", "Seq", "q_2"), "increment": 1},
        "schema": {"schema_name": w("sc", "Sch", "s_5")},
        "type": {"schema": None, "type_name": w("ty", "Mood", "t_3"), "base_type": "ENUM", "properties": {"values": [w("'a'", "'b'", "'c'")]}},
        "ddl property": {"name": w("p", "Prop", "p_8"), "value": w("on", "1", "x")},
    }
    alone = {}
    try:
        for k, v in ents.items():
            alone[k] = format_output(ctx, [copy.deepcopy(v)], "sql", False)
        names = list(ents)
        orders = [names, list(reversed(names)), names[2:] + names[:2], [names[1], names[3], names[0], names[5], names[4], names[2]],
                  ["table s1.t", "table s1.t"], ["schema", "table t", "schema"]]
        for order in orders:
            got = format_output(ctx, [copy.deepcopy(ents[k]) for k in order], "sql", False)
            exp = [x for k in order for x in alone[k]]
            try:
                ok = deep_eq(got, exp)
            except NonUniform:
                ok = False
            ck.ob("O-concat", f"Output.format on the order {order}", ok,
                  "the result of a script is the in-order concatenation of what each statement yields alone" +
                  ("" if ok else f": got {len(got) if isinstance(got, list) else type(got).__name__} entries, expected {len(exp)}"),
                  "Output.format (evaluated abstractly)")
        # tables whose names differ only in quoting / letter case, with and without IF NOT EXISTS: each statement is reported
        from ..specs.common import punct
        P = punct(ctx.lexer)

        def tbl(name_cls, ine):
            def build(s_, a):
                a = s_.words(a, "head", [("KW", "CREATE"), ("KW", "TABLE")])
                if ine:
                    a = s_.words(a, "head", [("KW", "IF"), ("KW", "NOT"), ("KW", "EXISTS")], begin=False)
                a = s_.words(a, "head", [(name_cls, "name")], begin=False)
                a = s_.words(a, "lp", [P["("]])
                a = s_.words(a, "col", [(C["a"], "name"), (C["typ"], "type")])
                return s_.words(a, "end", [P[")"]])
            return A.parse_linear(ctx, f"concat-{name_cls.name}-{ine}", build)
        variants = {"t": tbl(C["t"]["same"], False), "t (IF NOT EXISTS)": tbl(C["t"]["same"], True),
                    '"t" (IF NOT EXISTS)': tbl(C["t"]["dq"], True), "T (IF NOT EXISTS)": tbl(C["t"]["upper"], True), '"t"': tbl(C["t"]["dq"], False)}
        valone = {k: format_output(ctx, [copy.deepcopy(v)], "sql", False) for k, v in variants.items()}
        for order in (["t", '"t" (IF NOT EXISTS)'], ["t", "T (IF NOT EXISTS)"], ["t", "t (IF NOT EXISTS)", '"t"'], ['"t"', "t"],
                      ["t (IF NOT EXISTS)", "t (IF NOT EXISTS)"]):
            got = format_output(ctx, [copy.deepcopy(variants[k]) for k in order], "sql", False)
            exp = [x for k in order for x in valone[k]]
            try:
                ok = deep_eq(got, exp)
            except NonUniform:
                ok = False
            ck.ob("O-concat", f"tables named alike up to quoting / case: {order}", ok,
                  "every CREATE TABLE statement is reported, in order, as when it stands alone - also when an earlier table has the same name "
                  "up to quoting or letter case, with or without IF NOT EXISTS" +
                  ("" if ok else f": got {len(got) if isinstance(got, list) else type(got).__name__} entries, expected {len(exp)}"),
                  "Output.format (evaluated abstractly)")
        # ALTER / INDEX results are merged into the table they follow - also when the same name is defined again later
        tb = base[2]
        alt = {"alter_table_name": copy.deepcopy(tb["table_name"]), "schema": None,
               "unique": {"constraint_name": None, "columns": [copy.deepcopy(tb["columns"][0]["name"])]}}
        idx = {"schema": None, "index_name": w("ix1", "I_a", "ix_9"), "unique": False, "clustered": False,
               "table_name": copy.deepcopy(tb["table_name"]), "columns": [copy.deepcopy(tb["columns"][0]["name"])],
               "detailed_columns": [{"name": copy.deepcopy(tb["columns"][0]["name"]), "order": "ASC", "nulls": "LAST"}]}
        for label, st in (("ALTER", alt), ("CREATE INDEX", idx)):
            merged = format_output(ctx, [copy.deepcopy(tb), copy.deepcopy(st)], "sql", False)
            got = format_output(ctx, [copy.deepcopy(tb), copy.deepcopy(st), copy.deepcopy(tb), copy.deepcopy(ents["schema"])], "sql", False)
            exp = list(merged) + list(alone["table t"]) + list(alone["schema"])
            try:
                ok = len(merged) == 1 and deep_eq(got, exp) and not deep_eq(merged, alone["table t"])
            except NonUniform:
                ok = False
            ck.ob("O-concat", f"{label} is merged into the table it follows, also when that name is defined again later", ok,
                  "a statement's outcome must not depend on the statements that follow it", "Output.format (evaluated abstractly)")
    except PyRaise as pr:
        ck.ob("O-concat", "Output.format raises on independent entities", False, f"{type(pr.exc).__name__}: {pr.exc}", "Output.format")
    except ShapeMismatch as sm:
        ck.ob("O-concat", "Output.format treats the names of one class differently", False, str(sm), "Output.format")
    except (LexUnknown, NonUniform) as e:
        raise AnalysisError(f"Output.format outside the interpreted subset: {e}")
