"""C06 - identifiers verbatim; normalize_names strips only outer delimiters (DESIGN 4, C06)."""
import ast

from ..core import AnalysisError
from ..effects import access_path
from ..rules import state as S
from ..rules.fragments import run_fragment, run_fragments
from ..specs import kwnames


def run(ck, ctx):
    m = ctx.model
    lm = ctx.lexer
    ck.level = "model_checking"
    ck.explanation = (
        "E3 x E4. (kwnames) every key of every keyword table of tokens.py, in both spellings, except the clause-opening words the "
        "property lists, is explored as first / later column name and as table name after TABLE and after `schema.`: typed ID, kept "
        "verbatim, statement accepted and the column / table carries the word as its name (O-accept, O-value). (verbatim) the "
        "columns + constraints fragment with every identifier position (schema, table, column, constraint, referenced schema / "
        "table / column, key lists) in four styles - plain, \"double-quoted\" (incl. a blank), `back-ticked`, [bracketed] - yields "
        "every name exactly as written. (normalize) the same fixed point with normalize_names=True yields every name without its "
        "one pair of outer delimiters and every other value unchanged. (O-lex-whole) no identifier that merely starts with a keyword "
        "is split by an earlier lexer rule. E5: normalize_names is read only by the single `id` production, nothing strips / "
        "replaces delimiter characters elsewhere.")
    run_fragment(ck, ctx, "kwnames", tier=ck.tier)
    ck.analysed["keywords_explored_as_names"] = len(kwnames.keyword_words(lm))
    ck.analysed["excluded_as_column_name (property)"] = sorted(kwnames.EXCLUDED_COLUMN)
    jobs = []
    if ck.tier == "thorough":
        # the full product of the four styles over all identifier positions
        jobs.append(dict(module="table", label="verbatim-names", build_kw=dict(tier=ck.tier, constraints=True, set_null=False, all_name_styles=True)))
        jobs.append(dict(module="table", label="normalize-names", self_attrs={"normalize_names": True, "silent": True},
                         build_kw=dict(tier=ck.tier, constraints=True, set_null=False, all_name_styles=True, normalize_names=True)))
    else:
        # every identifier position of the statement in one style, for each of the four styles
        for st in ("plain", "dq", "bt", "br"):
            jobs.append(dict(module="table", label=f"verbatim-names[{st}]", build_kw=dict(tier=ck.tier, constraints=True, set_null=False, style=st)))
            jobs.append(dict(module="table", label=f"normalize-names[{st}]", self_attrs={"normalize_names": True, "silent": True},
                             build_kw=dict(tier=ck.tier, constraints=True, set_null=False, style=st, normalize_names=True)))
    exs = run_fragments(ck, ctx, jobs)
    # ---- O-lex-prefix: a name that merely BEGINS like a keyword (arrays, Index_Data, primary_id_seq ...) is an identifier wherever a
    # plain name is one: in every lexer configuration the fragments reach with a plain name (table / column / constraint positions,
    # REFERENCES targets, ALTER / INDEX targets, sequence and entity names)
    exs += run_fragments(ck, ctx, [dict(module="alter", only_rules=set(), build_kw=dict(tier=ck.tier, judge=False)),
                                   dict(module="sequence", only_rules=set(), build_kw=dict(tier=ck.tier)),
                                   dict(module="entities", only_rules=set(), build_kw=dict(tier=ck.tier))])
    visited = set()
    for ex in exs:
        visited |= ex.visited_lex
    name_flags = []
    seen_f = set()
    for f, wc in sorted(visited, key=lambda x: (repr(x[0]), x[1].name)):
        if wc.kind == "PLAIN" and f not in seen_f:
            r0 = lm.step(f, wc)
            if r0.type == "ID" and not r0.raised:
                seen_f.add(f)
                name_flags.append(f)
    n_probe = 0
    for k in sorted(kwnames.keyword_words(lm)):
        for word in (k.lower() + "_col", k.capitalize() + "_Data", k.lower() + "x9", k + "_ID_SEQ"):
            if word.upper() in lm.all_keys:
                continue
            pw = lm.custom(word, [word], "PROBE")
            for f in name_flags:
                n_probe += 1
                try:
                    r = lm.step(f, pw)
                except Exception as e:       # the word is not even taken whole by one lexer rule
                    ck.ob("O-lex-prefix", f"`{word}` is split by the scanner where a plain name is an identifier", False,
                          f"`{word}` merely begins like the keyword {k}: {e}", "lexer rule order / regexes")
                    break
                val = r.value if not hasattr(r.value, "ex") else r.value.ex[0]
                if r.type != "ID" or r.raised or val != word:
                    ck.ob("O-lex-prefix", f"`{word}` is typed {r.type} where a plain name is an identifier", False,
                          f"`{word}` merely begins like the keyword {k}; under the lexer flags { {a: b for a, b in f if b not in (False, 0)} } a plain "
                          f"name is an ID but this one becomes {r.type} (value {val!r}): the statement is lost or the name altered", "lexer t_ID and its helpers")
                    break
    ck.ob("O-lex-prefix", f"all {n_probe} (keyword-prefixed name, lexer configuration) pairs", True, "typed ID, value verbatim", "lexer")
    ck.count("keyword_prefixed_probes", n_probe)
    # ---- O-lex-whole: identifiers with a keyword prefix are taken whole by the identifier rule
    n = 0
    import re as _re
    heads = set(kwnames.keyword_words(lm))
    for name, rx in lm.compiled:
        if name == "t_ID":
            break
        # literal alternatives of a keyword-regex rule
        for lit in _re.findall(r"[A-Za-z_]{3,}", rx.pattern):
            heads.add(lit.upper())
    for k in sorted(heads):
        for word in (k + "x", k + "_1", k.lower() + "al_value", k.capitalize() + "2"):
            n += 1
            try:
                rule = lm.rule_for(lm.custom(word, [word], "PROBE"))
            except Exception as e:
                rule = f"split ({e})"
            if rule != "t_ID":
                ck.ob("O-lex-whole", f"identifier `{word}` is taken by {rule}", False,
                      f"`{word}` is an ordinary identifier that starts with the keyword {k}; an earlier lexer rule matches its "
                      "prefix, so the name is split into a keyword and a remainder and the statement is lost", "lexer rule order / regexes")
    ck.ob("O-lex-whole", f"all {n} keyword-prefixed identifiers", True, "taken whole by t_ID", "lexer")
    # ---- E5: who reads normalize_names
    for f, node in S.readers_of(ctx, "normalize_names", list(m.all_funcs())):
        if isinstance(node, ast.Constant) and not S._const_is_key_use(f, node):
            continue
        if isinstance(node, ast.Name) and f.qual == "Parser.__init__":
            continue
        ok = f.qual in ("DDLParser.p_id",) or (f.qual == "Parser.__init__" and isinstance(node, ast.Attribute) and isinstance(node.ctx, ast.Store))
        if isinstance(node, ast.Attribute) and isinstance(node.ctx, ast.Store):
            ok = f.qual == "Parser.__init__"
        ck.ob("T-FLAGFLOW.normalize_names", f"normalize_names used in {f.qual}", ok,
              "the flag may be consulted only where an identifier token becomes a name (the `id` production): read anywhere else it "
              "changes other values", f.loc(node))
    ck.floor("T-FLAGFLOW.normalize_names", 1)
    gm = ctx.grammar
    alts = gm.alternatives("p_id")
    ck.ob("T-ID", "`id : ID | DQ_STRING` is the single identifier production", sorted(a[1] for a in alts) == [("DQ_STRING",), ("ID",)],
          str(alts), m.parser_method("p_id").loc())
    # delimiter characters are not stripped / replaced anywhere else
    for f in S.parser_family_funcs(ctx):
        if f.cls == "Parser" or f.qual == "DDLParser.p_id":
            continue
        for node in ast.walk(f.node):
            if isinstance(node, ast.Call) and isinstance(node.func, ast.Attribute) and node.func.attr in ("replace", "strip", "lstrip", "rstrip") \
                    and node.args and isinstance(node.args[0], ast.Constant) and isinstance(node.args[0].value, str) \
                    and node.args[0].value and set(node.args[0].value) <= set('`"'):
                # (square brackets are also array / range syntax inside type and option texts: not decided here)
                ck.ob("T-DELIM", f"{f.qual}: {ast.unparse(node)[:70]}", False,
                      "quoting delimiters are part of a name as written; they may be removed only by the id production under "
                      "normalize_names", f.loc(node))
    ck.ob("T-DELIM", "actions scanned for delimiter stripping", True, "", "")
    # ---- names with unusual characters through the line pre-processing and the scanner (E7)
    from ..specs.lines import check_names
    check_names(ck, ctx)
    ck.floor("O-name", 12)
    # ---- the seam to the line pre-processing for delimited names (E7)
    from ..specs import seam
    seam.check_seam(ck, ctx, [("table", dict(style=st, label=f"table, names written in style {st}", constraints=True, set_null=False))
                              for st in ("dq", "bt", "br")])
    ck.assumptions += ["words are separated as pre_process_data intends - discharged for the sentences of the table fragment with every name "
                       "double-quoted / back-ticked / bracketed (incl. a double-quoted name with a blank inside) by O-canon / O-glue / O-break, "
                       "and for plain names by C05",
                       "`every other value is unchanged under normalize_names` is decided for the values of the fragment (types, sizes, "
                       "defaults, reference actions, check text); other statement kinds rest on the def-use fact that only p_id reads the flag"]
