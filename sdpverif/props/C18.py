"""C18 - types, domains, schemas, databases, tablespaces yield one exact entity each (DESIGN 4, C18)."""
from ..rules.fragments import run_fragment


def run(ck, ctx):
    ck.level = "model_checking"
    ck.explanation = (
        "E3 x E4 x output layer, fragment *entities*: CREATE TYPE [s.]n AS ENUM ('a'[, 'b'[, 'c']]) / AS OBJECT (a t [(n)], b t) / AS "
        "TABLE (a t, b t); CREATE DOMAIN [s.]n AS t [(n)]; CREATE SCHEMA [IF NOT EXISTS] n [AUTHORIZATION u | COMMENT [=] 's']; CREATE "
        "DATABASE n; CREATE [BIGFILE|SMALLFILE] [TEMPORARY] TABLESPACE n; and a table using a schema-qualified and a bare user type. "
        "On acceptance Output.format is evaluated abstractly with group_by_type False and True. O-final: exactly one entity, carrying "
        "exactly the marker key of its kind, with schema / name / base type / enum values in order / attributes / columns / "
        "authorization / comment / tablespace kind and temporary flag as written; grouped, it sits exactly once in the bucket of its "
        "kind and the six documented buckets are present; the table reports the type names verbatim. E7 (O-line): a CREATE TYPE / "
        "CREATE TABLESPACE written with one property per line (26 property lines: INPUT, OUTPUT, ANALYZE, STORAGE, DATAFILE, SIZE ...) is "
        "handed to the grammar whole - no property line is skipped or taken for a new statement.")
    run_fragment(ck, ctx, "entities", tier=ck.tier)
    # ---- E7: an entity written with one property per line reaches the grammar whole
    from ..specs.lines import check_property_lines
    check_property_lines(ck, ctx)
    ck.assumptions += ["words are separated as pre_process_data intends",
                       "the letter case of OBJECT / AUTHORIZATION / BIGFILE is explored as written in upper case only (outside the keyword "
                       "list of C05)", "CREATE DATABASE IF NOT EXISTS has no production and is outside `supported`"]
