"""C01 - columns reproduced exactly, in order (DESIGN 4, C01)."""
import ast

from ..rules.fragments import run_fragment
from ..rules import state as S


def run(ck, ctx):
    m = ctx.model
    ck.level = "model_checking"
    ck.explanation = (
        "E3 x E4: fixed point of (core-column spec x abstractly interpreted lexer x fresh LALR tables) with abstract evaluation "
        "of every action on lock-step word values: for every CREATE TABLE [IF NOT EXISTS] [s.]t ( col {, col} ) with any number "
        "of columns and any number/order of the options NULL, NOT NULL, DEFAULT (number, string, NULL, word, call), PRIMARY KEY, "
        "UNIQUE, REFERENCES [s.]o[(c)] [ON DELETE a][ON UPDATE a], sizes (n)/(p,s), plain and quoted names, both keyword "
        "spellings: accepted (O-accept); no symbol spans two options or crosses a comma and every fold starts at an option / "
        "column begin (O-segment); the column produced is exactly {name, type, size and the six option keys} as written, each "
        "option changes exactly its own key, and the table's column list grows by exactly that column at the end (O-value). "
        "E5: the output layer changes the column list only by append / documented ALTER operations (T-ORDER).")
    run_fragment(ck, ctx, "table", label="core-column", tier=ck.tier, constraints=False, set_null=False)
    out_funcs = [f for f in m.all_funcs() if f.module.name.startswith("simple_ddl_parser.output")]
    actions = [f for f in S.parser_family_funcs(ctx)]
    S.t_order(ck, ctx, out_funcs + actions, {"self.columns", "['columns']"})
    ck.floor("T-ORDER", 3)
    ck.assumptions += ["words are separated as pre_process_data intends; the text of multi-word / transformed types and "
                       "multi-token defaults is not decided (DESIGN 4 C01, declines)",
                       "context-independence of a fold beyond its BFS-minimal context rests on the fold reading only p[1]"]
