"""C17 - CREATE SEQUENCE options (DESIGN 4, C17)."""
from ..rules.fragments import run_fragment
from ..rules import state as S


def run(ck, ctx):
    ck.level = "model_checking"
    ck.explanation = (
        "E3 x E4: fixed point of (sequence-statement spec x abstractly interpreted lexer x freshly generated LALR tables) with "
        "abstract evaluation of every semantic action on lock-step word values. For every sequence of the twelve option "
        "forms, in both keyword spellings, with positive / negative / 64-bit values: the statement is accepted, every option "
        "is folded on its own, and each fold adds exactly one key holding int(value) / False / True while schema and name "
        "stay as written. Isolation between statements is the per-statement flag reset (T-RESET, shared with C03).")
    # the flags the sequence statement touches (sequence mode, last token ...) must be reset before every statement
    S.t_reset_lexer(ck, ctx, only={"sequence", "last_token", "is_table", "last_par", "lp_open", "columns_def", "after_columns"})
    from ..specs.lines import check_reset_before_parse
    check_reset_before_parse(ck, ctx,
            "Parser.process_line: flag reset dominates process_statement()",
            "the sequence-mode flag must be cleared before every statement, on every path, or options leak into neighbours")
    ck.floor("T-RESET.lexer", 2)
    ex = run_fragment(ck, ctx, "sequence", tier=ck.tier)
    ck.assumptions += ["words are separated as pre_process_data intends (L1 behaviour is declined, DESIGN 8)",
                       "int() on a decimal literal is exact (CPython)"]
