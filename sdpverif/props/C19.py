"""C19 - file, dump and CLI entry points agree with the in-memory API (DESIGN 4, C19; narrow claim)."""
import ast

from ..cfg import guard_atoms
from ..core import AnalysisError
from ..effects import access_path
from ..rules import state as S


def _kw(call):
    return {k.arg: ast.unparse(k.value) for k in call.keywords if k.arg}


def _calls(f, name):
    return [n for n in ast.walk(f.node) if isinstance(n, ast.Call) and ast.unparse(n.func) == name]


class _Inline(ast.NodeTransformer):
    def __init__(self, env):
        self.env = env

    def visit_Assign(self, node):
        if len(node.targets) == 1 and isinstance(node.targets[0], ast.Name) and node.targets[0].id in self.env:
            return None             # the definition itself disappears: its value lives on at the use sites
        return self.generic_visit(node)

    def visit_Name(self, node):
        if isinstance(node.ctx, ast.Load) and node.id in self.env:
            import copy
            return self.visit(copy.deepcopy(self.env[node.id]))
        return node


def inline_locals(func_node):
    """a copy of the function in which every local that is assigned exactly once (to an expression, outside loops) is replaced
    by that expression at its uses - `x = f(a); return g(x)` and `return g(f(a))` then look the same to the pass-through rules"""
    import copy
    fn = copy.deepcopy(func_node)
    counts, vals = {}, {}
    for n in ast.walk(fn):
        if isinstance(n, ast.Assign) and len(n.targets) == 1 and isinstance(n.targets[0], ast.Name):
            counts[n.targets[0].id] = counts.get(n.targets[0].id, 0) + 1
            vals[n.targets[0].id] = n.value
        elif isinstance(n, (ast.For, ast.AugAssign, ast.With)):
            tg = n.target if not isinstance(n, ast.With) else None
            for x in ast.walk(tg) if tg is not None else []:
                if isinstance(x, ast.Name):
                    counts[x.id] = counts.get(x.id, 0) + 2
    params = {a.arg for a in fn.args.args + fn.args.kwonlyargs}
    env = {k: v for k, v in vals.items() if counts.get(k) == 1 and k not in params}
    return _Inline(env).visit(fn)


class _F:
    """a function with inlined locals, presented like srcmodel.Func to the helpers below"""

    def __init__(self, f):
        self.node, self.qual, self._f, self.params, self.module = inline_locals(f.node), f.qual, f, f.params, f.module

    def loc(self, node=None):
        return self._f.loc()


def run(ck, ctx):
    m = ctx.model
    ck.explanation = (
        "E1 + E5 (T-PASS, T-FILE). parse_from_file: the path and encoding reach open(), the file content is the parser's first "
        "argument, parser_settings are the constructor keywords, file_path and the remaining keywords reach run(), whose result is "
        "returned as is, and the function keeps no state. run(): files are written only under `if dump`, the object dumped is the "
        "result before the optional JSON encoding, the file name is '<dump_path>/<base name of file_path>_schema.json' written with "
        "json.dump. CLI: --no-dump / -t / -o are wired to dump / dump_path / output_mode with the right polarity and defaults, "
        "a file argument calls the API once, a directory argument once per accepted file, and the extension test looks at the "
        "last extension and accepts sql / ddl / hql / bql.")
    # ---- parse_from_file
    pf = _F(m.func("simple_ddl_parser.ddl_parser:parse_from_file"))
    params = pf.params
    ck.ob("T-PASS", "parse_from_file(file_path, encoding='utf-8', parser_settings=None, **kwargs)",
          params[:3] == ["file_path", "encoding", "parser_settings"] and pf.node.args.kwarg is not None, str(params), pf.loc())
    stateful = [n for n in ast.walk(pf.node) if isinstance(n, (ast.Global, ast.Nonlocal))]
    for n in ast.walk(pf.node):
        if isinstance(n, ast.Name) and n.id in pf.module.assigns and n.id not in ("List", "Dict", "Optional"):
            stateful.append(n)          # a module-level value consulted by the function: a cache or registry
        if isinstance(n, (ast.Attribute, ast.Subscript)) and isinstance(n.ctx, ast.Store) and not (
                isinstance(n.value, ast.Name) and n.value.id in ("self",)):
            stateful.append(n)
    ck.ob("T-PASS", "parse_from_file keeps no state between calls (no global, no module-level value, no attribute / item store)",
          not stateful, f"{[ast.unparse(x)[:40] for x in stateful][:3]}", pf.loc())
    opens = _calls(pf, "open")
    ck.ob("T-PASS", "one open() call", len(opens) == 1, "", pf.loc())
    for o in opens:
        args = [ast.unparse(a) for a in o.args]
        kw = _kw(o)
        mode = args[1] if len(args) > 1 else kw.get("mode", "'r'")
        ck.ob("T-PASS", "open(file_path, 'r', encoding=encoding)", args[:1] == ["file_path"] and mode in ("'r'", "'rt'")
              and kw.get("encoding") == "encoding", ast.unparse(o), pf.loc(o))
    ctor = _calls(pf, "DDLParser")
    ck.ob("T-PASS", "one DDLParser(...) construction", len(ctor) == 1, "", pf.loc())
    wv = None
    for w in [s for s in ast.walk(pf.node) if isinstance(s, ast.With)]:
        for it in w.items:
            if it.optional_vars is not None and any(x in opens for x in ast.walk(it.context_expr)):
                wv = ast.unparse(it.optional_vars)
    for c in ctor:
        args = [ast.unparse(a) for a in c.args]
        stars = [ast.unparse(k.value) for k in c.keywords if k.arg is None]
        ck.ob("T-PASS", "DDLParser(<file content>, **(parser_settings or {}))", args == [f"{wv}.read()"] and
              stars in (["parser_settings or {}"], ["(parser_settings or {})"]) and not _kw(c),
              f"{ast.unparse(c)[:80]}: the decoded file content must be the only positional argument and parser_settings the only "
              "keywords", pf.loc(c))
    runs = [n for n in ast.walk(pf.node) if isinstance(n, ast.Call) and isinstance(n.func, ast.Attribute) and n.func.attr == "run"]
    ck.ob("T-PASS", "one .run(...) call", len(runs) == 1, "", pf.loc())
    for r in runs:
        kw = _kw(r)
        stars = [ast.unparse(k.value) for k in r.keywords if k.arg is None]
        ck.ob("T-PASS", ".run(file_path=file_path, **kwargs) on the constructed parser", r.func.value in ctor and kw == {"file_path": "file_path"}
              and stars == ["kwargs"] and not r.args, ast.unparse(r)[:90], pf.loc(r))
        rets = [x for x in ast.walk(pf.node) if isinstance(x, ast.Return)]
        ck.ob("T-PASS", "the run() result is returned as is", len(rets) == 1 and rets[0].value is r,
              ast.unparse(rets[0])[:60] if rets else "no return", pf.loc())
    # ---- run(): dump branch
    run_f = m.parser_method("run")
    dumps = _calls(run_f, "dump_data_to_file")
    ck.ob("T-PASS", "run(): dump_data_to_file call sites", len(dumps) == 2, f"{len(dumps)}", run_f.loc())
    jd = [n for n in ast.walk(run_f.node) if isinstance(n, ast.Call) and ast.unparse(n.func) == "json.dumps"]
    for d in dumps:
        st = S.stmt_of(run_f, d)
        atoms = guard_atoms(run_f.node, st)
        ck.ob("T-FILE.guard", "dump_data_to_file under `if dump`", ("dump", True) in atoms, f"guards {atoms}", run_f.loc(d))
        if ("file_path", True) in atoms:
            args = [ast.unparse(a) for a in d.args]
            name_ok = args[:1] in (["os.path.basename(file_path).split('.')[0]"], ["os.path.splitext(os.path.basename(file_path))[0]"],
                                   ["os.path.basename(file_path).rsplit('.', 1)[0]"])
            ck.ob("T-PASS", "dump name = base name of file_path (directory part removed first)", name_ok,
                  f"name expression `{args[:1]}`", run_f.loc(d))
            ck.ob("T-PASS", "dump_data_to_file(<name>, dump_path, self.tables)", args[1:] == ["dump_path", "self.tables"], str(args), run_f.loc(d))
        for j in jd:
            ck.ob("T-PASS", "the dump happens before the optional JSON encoding of the result", d.lineno < j.lineno,
                  "the dumped object must be the result structure, not its JSON string", run_f.loc(d))
    last_tables = None
    for st in run_f.node.body:
        if isinstance(st, ast.Assign) and ast.unparse(st.targets[0]) == "self.tables":
            last_tables = st
    ddf = m.func("simple_ddl_parser.output.core:dump_data_to_file")
    p3 = ddf.params
    ck.ob("T-PASS", "dump_data_to_file(table_name, dump_path, data)", p3 == ["table_name", "dump_path", "data"], str(p3), ddf.loc())
    opens = _calls(ddf, "open")
    for o in opens:
        args = [ast.unparse(a) for a in o.args]
        name = args[0] if args else ""
        ok = name in ("'{}/{}_schema.json'.format(dump_path, table_name)", "f'{dump_path}/{table_name}_schema.json'",
                      "os.path.join(dump_path, f'{table_name}_schema.json')", "os.path.join(dump_path, '{}_schema.json'.format(table_name))")
        ck.ob("T-PASS", "file written is <dump_path>/<name>_schema.json", ok, name, ddf.loc(o))
        mode = args[1] if len(args) > 1 else _kw(o).get("mode", "'r'")
        ck.ob("T-PASS", "opened for writing (truncating)", mode in ("'w'", "'w+'", "'wt'"), mode, ddf.loc(o))
    jds = _calls(ddf, "json.dump")
    ck.ob("T-PASS", "one json.dump(data, <file>) call", len(jds) == 1 and [ast.unparse(a) for a in jds[0].args][:1] == ["data"]
          and set(_kw(jds[0])) <= {"indent", "ensure_ascii", "sort_keys", "separators"}, ast.unparse(jds[0])[:70] if jds else "", ddf.loc())
    mk = _calls(ddf, "os.makedirs")
    ck.ob("T-PASS", "a missing target directory is created", len(mk) == 1 and [ast.unparse(a) for a in mk[0].args][:1] == ["dump_path"], "", ddf.loc())
    # file effects (shared rule with C14)
    S.t_file(ck, ctx, {
        "dump_data_to_file": ("Parser.run", "dump", False),
        "set_logging_config": ("Parser.__init__", "log_file", True),
    })
    # ---- CLI
    cli = m.func("simple_ddl_parser.cli:cli")
    adds = [n for n in ast.walk(cli.node) if isinstance(n, ast.Call) and isinstance(n.func, ast.Attribute) and n.func.attr == "add_argument"]
    spec = {}
    for a in adds:
        flags = [x.value for x in a.args if isinstance(x, ast.Constant)]
        spec[tuple(flags)] = _kw(a)
    def find(flag):
        for fl, kw in spec.items():
            if flag in fl:
                return kw
        return None
    nd = find("--no-dump")
    ck.ob("T-CLI", "--no-dump is a store_true flag defaulting to False", nd is not None and nd.get("action") == "'store_true'" and nd.get("default", "False") == "False", str(nd), cli.loc())
    tg = find("--target")
    ck.ob("T-CLI", "-t / --target defaults to 'schemas'", tg is not None and tg.get("default") == "'schemas'" and find("-t") is tg, str(tg), cli.loc())
    om = find("--output-mode")
    ck.ob("T-CLI", "-o / --output-mode defaults to 'sql'", om is not None and om.get("default") == "'sql'" and find("-o") is om and "action" not in om, str(om), cli.loc())
    fp = find("ddl_file_path")
    ck.ob("T-CLI", "positional ddl_file_path", fp is not None, "", cli.loc())
    rff = m.func("simple_ddl_parser.cli:run_for_file")
    calls = _calls(rff, "parse_from_file")
    ck.ob("T-CLI", "run_for_file calls parse_from_file once", len(calls) == 1, "", rff.loc())
    for c in calls:
        kw = _kw(c)
        args = [ast.unparse(a) for a in c.args]
        ok = (args == ["args.ddl_file_path"] or kw.get("file_path") == "args.ddl_file_path") and kw.get("dump") == "not args.no_dump" \
            and kw.get("dump_path") == "args.target" and kw.get("output_mode") == "args.output_mode" and \
            set(kw) <= {"dump", "dump_path", "output_mode", "file_path"}
        ck.ob("T-CLI", "parse_from_file(args.ddl_file_path, dump=not args.no_dump, dump_path=args.target, output_mode=args.output_mode)", ok,
              ast.unparse(c)[:120], rff.loc(c))
        ck.ob("T-CLI", "the call is unconditional", not [a for a in guard_atoms(rff.node, S.stmt_of(rff, c))], "", rff.loc(c))
    mn = m.func("simple_ddl_parser.cli:main")
    rcalls = _calls(mn, "run_for_file")
    ck.ob("T-CLI", "main: one call for a file argument, one per file of a directory", len(rcalls) == 2, f"{len(rcalls)} call sites", mn.loc())
    for c in rcalls:
        st = S.stmt_of(mn, c)
        atoms = guard_atoms(mn.node, st)
        if ("os.path.isfile(args.ddl_file_path)", True) in atoms:
            ck.ob("T-CLI", "file argument: run_for_file(args) once", not any(a[0] == "'<loop>'" for a in atoms), str(atoms), mn.loc(c))
        else:
            loops = [n for n in ast.walk(mn.node) if isinstance(n, ast.For) and any(x is c for x in ast.walk(n))]
            ok = len(loops) == 1 and isinstance(loops[0].iter, ast.Name)
            ck.ob("T-CLI", "directory argument: run_for_file(args) once per listed file", ok, "", mn.loc(c))
            if ok:
                lv = loops[0].iter.id
                comp = [n for n in ast.walk(mn.node) if isinstance(n, ast.Assign) and ast.unparse(n.targets[0]) == lv]
                ok2 = len(comp) == 1 and isinstance(comp[0].value, ast.ListComp)
                if ok2:
                    lc = comp[0].value
                    g = lc.generators[0]
                    v = ast.unparse(g.target)
                    ok2 = ast.unparse(lc.elt) == f"os.path.join(args.ddl_file_path, {v})" and ast.unparse(g.iter) == "os.listdir(args.ddl_file_path)" \
                        and [ast.unparse(i) for i in g.ifs] == [f"correct_extension({v})"]
                ck.ob("T-CLI", "files = [join(dir, n) for n in os.listdir(dir) if correct_extension(n)]", ok2,
                      ast.unparse(comp[0].value)[:120] if comp else "", mn.loc())
                sets = [n for n in loops[0].body if isinstance(n, ast.Assign)]
                ck.ob("T-CLI", "each file becomes args.ddl_file_path", any(ast.unparse(s.targets[0]) == "args.ddl_file_path" and
                      ast.unparse(s.value) == ast.unparse(loops[0].target) for s in sets), "", mn.loc(loops[0]))
    ce = m.func("simple_ddl_parser.cli:correct_extension")
    exts = None
    cands = [n.value for n in ast.walk(ce.node) if isinstance(n, ast.Assign)] + list(ce.module.assigns.values())
    used = {n.id for n in ast.walk(ce.node) if isinstance(n, ast.Name)}
    for nm, v in ce.module.assigns.items():
        if nm not in used and v in cands:
            cands.remove(v)
    for v in cands:
        if isinstance(v, (ast.List, ast.Tuple, ast.Set)) and v.elts and all(isinstance(x, ast.Constant) and isinstance(x.value, str) for x in v.elts):
            vals = {x.value for x in v.elts}
            if {"sql", "ddl"} & {e.lstrip(".") for e in vals}:
                exts = vals
    ck.ob("T-CLI", "accepted extensions include sql, ddl, hql, bql", exts is not None and {"sql", "ddl", "hql", "bql"} <= {e.lstrip(".") for e in exts},
          str(exts), ce.loc())
    # ... evaluated abstractly on representative file names: accepted iff the LAST extension is one of sql / ddl / hql / bql
    from ..pyabs import Interp, Obj, PyRaise, LexUnknown
    cases = {"a.sql": True, "my.table.sql": True, "x.ddl": True, "y.hql": True, "z.bql": True, "UPPER.v2.hql": True,
             "README": False, "notes.txt": False, "a.sql.bak": False, "Makefile": False, "data.json": False, "LICENSE": False}
    for fname, want in cases.items():
        try:
            got = Interp(m, ctx.grammar.tokens_ns, Obj()).call_func(ce, [fname])
        except PyRaise as pr:
            got = f"raises {pr}"
        except LexUnknown as e:
            raise AnalysisError(f"correct_extension outside the interpreted subset: {e}")
        ck.ob("T-CLI", f"correct_extension({fname!r}) is {want}", bool(got) is want if isinstance(got, (bool, type(None))) else False,
              f"directory mode handles exactly the .sql / .ddl / .hql / .bql files: got {got!r}", ce.loc())
    src = ast.unparse(ce.node)
    first_dot = "[1]" in src and "split('.')" in src and "[-1]" not in src and "splitext" not in src and "rsplit" not in src
    ck.ob("T-CLI", "correct_extension:last-extension", not first_dot,
          "the extension test looks at the text after the FIRST dot (split('.')[1]): my.table.sql is skipped in directory mode",
          ce.loc())
    ck.assumptions += ["declined: encodings, file-system states, run-time equality of file content and result (I/O behaviour)",
                       "the dump name is derived from the base name of file_path; how a base name containing further dots is shortened is "
                       "not decided (the property's '<input base name>' is read as the library's documented naming)"]
