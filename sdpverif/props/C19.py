"""C19 - file, dump and CLI entry points agree with the in-memory API (DESIGN 4, C19; narrow claim)."""
import ast

from ..cfg import guard_atoms
from ..core import AnalysisError
from ..effects import access_path
from ..rules import state as S


def _kw(call):
    return {k.arg: ast.unparse(k.value) for k in call.keywords if k.arg}


def _calls(f, name):
    return [n for n in ast.walk(f.node) if isinstance(n, ast.Call) and ast.unparse(n.func) == name]


from ..rules.inline import inline_locals


class _F:
    """a function with inlined locals, presented like srcmodel.Func to the helpers below"""

    def __init__(self, f):
        self.node, self.qual, self._f, self.params, self.module = inline_locals(f.node), f.qual, f, f.params, f.module

    def loc(self, node=None):
        return self._f.loc()


def _entry(ck, ctx):
    """O-entry: the entry points evaluated abstractly with the outside world replaced by recorders (entryabs): which value
    flows where, however the functions are written"""
    import itertools
    from ..entryabs import evaluate, CONTENT, RESULT
    from ..pyabs import W, Obj, PyRaise, Raised, LexUnknown, NonUniform, deep_eq
    from ..objabs import run_tail, format_output, ShapeMismatch

    def eq(a, b):
        try:
            return deep_eq(a, b)
        except NonUniform:
            return False

    def w(*xs):
        return W([xs[i % len(xs)] for i in range(6)])
    path = w("a.sql", "dir/b.ddl", "x.y.hql", "rel-1.2/users.sql", "./u.sql", "../up/c.bql")
    target = w("schemas", "out", "build/json/v1", "/tmp/t", "a.b", "T")
    PF = "simple_ddl_parser.ddl_parser:parse_from_file"

    def ob(key, ok, detail, where):
        ck.ob("O-entry", key, ok, detail, where)
    try:
        # ---- parse_from_file
        encs = [("default", {}, "utf-8"), ("utf-16", {"encoding": "utf-16"}, "utf-16"), ("latin-1, positional", None, "latin-1")]
        settings = [("absent", {}, {}), ("None", {"parser_settings": None}, {}), ("empty", {"parser_settings": {}}, {}),
                    ("silent=False", {"parser_settings": {"silent": False}}, {"silent": False}),
                    ("normalize_names=True, silent=True", {"parser_settings": {"normalize_names": True, "silent": True}}, {"normalize_names": True, "silent": True}),
                    ("normalize_names=False", {"parser_settings": {"normalize_names": False}}, {"normalize_names": False})]
        extras = [("none", {}), ("dump", {"dump": True, "dump_path": target, "output_mode": "hql"}), ("dump=False", {"dump": False}),
                  ("group_by_type, json_dump", {"group_by_type": True, "json_dump": True}), ("output_mode", {"output_mode": "bigquery"})]
        n = 0
        problems = {}
        for (en, ek, enc), (sn, sk, sexp), (xn, xk) in itertools.product(encs, settings, extras):
            n += 1
            args = [path] if ek is not None else [path, "latin-1"]
            kwargs = dict(ek or {})
            kwargs.update(sk)
            kwargs.update(xk)
            res, log = evaluate(ctx, PF, args, kwargs)
            opens = [l for l in log if l[0] == "open"]
            ctors = [l for l in log if l[0] == "construct DDLParser"]
            runs = [l for l in log if l[0] == "DDLParser.run"]
            reads = [l for l in log if l[0] == "read"]
            case = f"encoding {en}, parser_settings {sn}, run arguments {xn}"
            if len(opens) != 1 or not eq(opens[0][1][0] if opens[0][1] else opens[0][2].get("file"), path):
                problems.setdefault("the file opened is file_path, once", case)
            elif (opens[0][1][1] if len(opens[0][1]) > 1 else opens[0][2].get("mode", "r")) not in ("r", "rt"):
                problems.setdefault("the file is opened for reading as text", case)
            elif opens[0][2].get("encoding", opens[0][1][3] if len(opens[0][1]) > 3 else None) != enc:
                problems.setdefault("the encoding reaches open()", f"{case}: open got encoding {opens[0][2].get('encoding')!r}")
            if len(reads) != 1:
                problems.setdefault("the file is read once", case)
            if len(ctors) != 1 or not (eq(ctors[0][1], [CONTENT]) or (not ctors[0][1] and eq(ctors[0][2].get("content"), CONTENT))):
                problems.setdefault("the decoded file content is the parser's first argument", case)
            elif not eq({k: v for k, v in ctors[0][2].items() if k != "content"}, sexp):
                problems.setdefault("parser_settings are exactly the constructor keywords",
                                    f"{case}: constructor keywords { {k: v for k, v in ctors[0][2].items() if k != 'content'} }, settings {sexp}")
            want_run = dict(xk)
            want_run["file_path"] = path
            if len(runs) != 1 or runs[0][1] or not eq(runs[0][2], want_run):
                problems.setdefault("file_path and the remaining keywords reach run()",
                                    f"{case}: run() got {runs[0][2] if runs else None}")
            if not (res is RESULT or eq(res, RESULT)):
                problems.setdefault("the result of run() is returned as is", case)
        for key in ("the file opened is file_path, once", "the file is opened for reading as text", "the encoding reaches open()",
                    "the file is read once", "the decoded file content is the parser's first argument",
                    "parser_settings are exactly the constructor keywords", "file_path and the remaining keywords reach run()",
                    "the result of run() is returned as is"):
            ob(f"parse_from_file: {key}", key not in problems, f"{n} combinations of encoding / parser_settings / run arguments" +
               ("" if key not in problems else f"; fails for: {problems[key]}"), "parse_from_file (evaluated abstractly)")
        # ---- cli.run_for_file
        RF = "simple_ddl_parser.cli:run_for_file"
        probs = {}
        n = 0
        for no_dump, v, mode in itertools.product((False, True), (False, True), ("sql", "hql")):
            n += 1
            a = Obj(ddl_file_path=path, no_dump=no_dump, target=target, output_mode=mode, v=v)
            res, log = evaluate(ctx, RF, [a], world={"intercept": ("parse_from_file",), "returns": {"parse_from_file": RESULT}})
            calls = [l for l in log if l[0] == "call parse_from_file"]
            case = f"--no-dump={no_dump} -v={v} -o {mode}"
            if len(calls) != 1:
                probs.setdefault("the API is called once per file", f"{case}: {len(calls)} calls")
                continue
            cargs, ckw = calls[0][1], dict(calls[0][2])
            fp = cargs[0] if cargs else ckw.pop("file_path", None)
            if not eq(fp, path) or len(cargs) > 1:
                probs.setdefault("the file path is the first argument", case)
            if ckw.get("dump", False) is not (not no_dump):
                probs.setdefault("--no-dump switches the dump off, its absence on", f"{case}: dump={ckw.get('dump')!r}")
            if not eq(ckw.get("dump_path", "schemas"), target):
                probs.setdefault("-t is the dump directory", f"{case}: dump_path={ckw.get('dump_path')!r}")
            if ckw.get("output_mode", "sql") != mode:
                probs.setdefault("-o is the output mode", f"{case}: output_mode={ckw.get('output_mode')!r}")
            if set(ckw) - {"dump", "dump_path", "output_mode"}:
                probs.setdefault("nothing else is passed", f"{case}: {sorted(set(ckw) - {'dump', 'dump_path', 'output_mode'})}")
            shown = [l for l in log if l[0] in ("pprint", "print")]
            if bool(shown) != bool(v or no_dump) or (shown and not eq(shown[0][1][0], RESULT)):
                probs.setdefault("the result is printed with -v or --no-dump (and only then)", case)
        for key in ("the API is called once per file", "the file path is the first argument", "--no-dump switches the dump off, its absence on",
                    "-t is the dump directory", "-o is the output mode", "nothing else is passed",
                    "the result is printed with -v or --no-dump (and only then)"):
            ob(f"sdp, one file: {key}", key not in probs, f"{n} flag combinations" + ("" if key not in probs else f"; fails for: {probs[key]}"),
               "cli.run_for_file (evaluated abstractly)")
        # ---- cli.main
        MN = "simple_ddl_parser.cli:main"
        names = ["a.sql", "b.txt", "c.ddl", "README", "d.tar.hql", "e.bql", "f.sql.bak", "g.hql"]
        accepted = ["a.sql", "c.ddl", "d.tar.hql", "e.bql", "g.hql"]
        dirp = w("ddl", "some/dir", "/abs/d", "x.y", "D", "d2")

        def world(a, **kw):
            seen = []
            wd = {"intercept": ("run_for_file", "cli"), "returns": {"cli": Obj(_kind="instance:ArgumentParser")}, "args": a,
                  "on_run_for_file": lambda it, ar, k: seen.append(ar[0].ddl_file_path if ar else None)}
            wd.update(kw)
            return wd, seen
        a = Obj(ddl_file_path=path, no_dump=False, target=target, output_mode="sql", v=False)
        wd, seen = world(a, exists=False)
        evaluate(ctx, MN, [], world=wd)
        ob("sdp: a path that does not exist parses nothing", not seen, f"{len(seen)} calls", "cli.main (evaluated abstractly)")
        wd, seen = world(a, exists=True, isfile=True)
        evaluate(ctx, MN, [], world=wd)
        ob("sdp <file>: the API is called once, for that file", len(seen) == 1 and eq(seen[0], path), f"calls for {seen!r}"[:200],
           "cli.main (evaluated abstractly)")
        a = Obj(ddl_file_path=dirp, no_dump=False, target=target, output_mode="sql", v=False)
        wd, seen = world(a, exists=True, isfile=False, listdir=names)
        evaluate(ctx, MN, [], world=wd)
        want = [W([f"{d.rstrip('/')}/{nm}" for d in dirp.ex]) for nm in accepted]
        ob("sdp <directory>: once per .sql / .ddl / .hql / .bql file of the directory, in listing order, with its path",
           len(seen) == len(want) and all(eq(x, y) for x, y in zip(seen, want)), f"called for {[getattr(x, 'ex', [x])[0] for x in seen]!r}"[:300],
           "cli.main (evaluated abstractly)")
        # ---- dump_data_to_file
        DD = "simple_ddl_parser.output.core:dump_data_to_file"
        nm = w("a", "b_1", "Orders", "x", "my.table", "T")
        for isdir in (False, True):
            res, log = evaluate(ctx, DD, [nm, target, RESULT], world={"isdir": isdir})
            mk = [l for l in log if l[0] in ("os.makedirs",)]
            op = [l for l in log if l[0] == "open"]
            jd = [l for l in log if l[0] == "json.dump"]
            wantf = W([f"{t}/{n_}_schema.json" for t, n_ in zip(target.ex, nm.ex)])
            if not isdir:
                plain_mkdir = [l for l in log if l[0] == "os.mkdir"]
                ob("dump: a missing target directory is created (with its parents)", len(mk) == 1 and eq(mk[0][1][0], target) and not plain_mkdir,
                   f"{[l[0] for l in log]}", "dump_data_to_file (evaluated abstractly)")
            ob(f"dump: the file written is <target>/<name>_schema.json (target {'exists' if isdir else 'missing'})",
               len(op) == 1 and eq(op[0][1][0], wantf) and (op[0][1][1] if len(op[0][1]) > 1 else op[0][2].get("mode")) in ("w", "w+", "wt"),
               f"open{tuple(op[0][1]) if op else ()}"[:200], "dump_data_to_file (evaluated abstractly)")
            ob(f"dump: the data is written once with json.dump (target {'exists' if isdir else 'missing'})",
               len(jd) == 1 and eq(jd[0][1][0], RESULT) and set(jd[0][2]) <= {"indent", "ensure_ascii", "sort_keys", "separators"},
               f"{[(l[0], l[2]) for l in jd]}"[:200], "dump_data_to_file (evaluated abstractly)")
        # ---- Parser.run: what is dumped, under which name, and when
        flat = [{"schema": None, "sequence_name": w("s1", "Seq", "q_2"), "increment": 1}, {"schema_name": w("sc", "Sch", "s_5")}]
        for grouped in (False, True):
            want = format_output(ctx, flat, "sql", grouped)
            got, dumps = run_tail(ctx, flat, group_by_type=grouped, dump=False, dump_path=target, file_path=path)
            ob(f"run(dump=False, group_by_type={grouped}) writes nothing", not dumps and eq(got, want), f"{len(dumps)} dump(s)", "Parser.run (evaluated abstractly)")
            for jdump in (False, True):
                got, dumps = run_tail(ctx, flat, group_by_type=grouped, dump=True, dump_path=target, file_path=path, json_dump=jdump)
                base = W([p_.split("/")[-1] for p_ in path.ex])
                ok = len(dumps) == 1 and len(dumps[0][0]) == 3 and eq(dumps[0][0][1], target) and eq(dumps[0][0][2], want)
                name = dumps[0][0][0] if ok else None
                # the documented name: the base name of the input (directory removed) up to its extension
                ok_name = ok and all(isinstance(x, str) and b.startswith(x) and x and "/" not in x for x, b in zip(getattr(name, "ex", [name] * 6), base.ex))
                from ..objabs import abstract_json_dumps
                ob(f"run(group_by_type={grouped}, json_dump={jdump}) returns the result" + (" encoded by json.dumps" if jdump else ""),
                   eq(got, abstract_json_dumps(want) if jdump else want), f"{got!r}"[:200], "Parser.run (evaluated abstractly)")
                ob(f"run(dump=True, file_path=..., group_by_type={grouped}, json_dump={jdump}): one dump of the result structure into dump_path",
                   ok, f"dumps {[(type(a_).__name__) for d_ in dumps for a_ in d_[0]]}"[:200], "Parser.run (evaluated abstractly)")
                ob(f"run(dump=True, group_by_type={grouped}, json_dump={jdump}): the dump is named after the base name of file_path",
                   ok_name, f"name {getattr(name, 'ex', name)!r} for paths {path.ex!r}"[:300], "Parser.run (evaluated abstractly)")
    except (PyRaise, Raised) as e:
        ob("the entry points do not raise on the scenarios", False, f"{e}", "entry points (evaluated abstractly)")
    except (LexUnknown, NonUniform, ShapeMismatch) as e:
        raise AnalysisError(f"entry points outside the interpreted subset: {e}")


def run(ck, ctx):
    m = ctx.model
    ck.explanation = (
        "E1 + E5 (T-PASS, T-FILE). parse_from_file: the path and encoding reach open(), the file content is the parser's first "
        "argument, parser_settings are the constructor keywords, file_path and the remaining keywords reach run(), whose result is "
        "returned as is, and the function keeps no state. run(): files are written only under `if dump`, the object dumped is the "
        "result before the optional JSON encoding, the file name is '<dump_path>/<base name of file_path>_schema.json' written with "
        "json.dump. CLI: --no-dump / -t / -o are wired to dump / dump_path / output_mode with the right polarity and defaults, "
        "a file argument calls the API once, a directory argument once per accepted file, and the extension test looks at the "
        "last extension and accepts sql / ddl / hql / bql.")
    # ---- parse_from_file: statelessness (syntactic), everything else by abstract evaluation (O-entry)
    pf = _F(m.func("simple_ddl_parser.ddl_parser:parse_from_file"))
    stateful = [n for n in ast.walk(pf.node) if isinstance(n, (ast.Global, ast.Nonlocal))]
    for n in ast.walk(pf.node):
        if isinstance(n, ast.Name) and n.id in pf.module.assigns and n.id not in ("List", "Dict", "Optional"):
            stateful.append(n)          # a module-level value consulted by the function: a cache or registry
        if isinstance(n, (ast.Attribute, ast.Subscript)) and isinstance(n.ctx, ast.Store) and not (
                isinstance(n.value, ast.Name) and n.value.id in ("self",)):
            stateful.append(n)
    # ... and neither do the module-level helpers it calls (a parser / result cache keyed by anything is state between calls)
    helpers = [f for f in ctx.callgraph.reachable([m.func("simple_ddl_parser.ddl_parser:parse_from_file")])
               if not f.cls and f.module.name in ("simple_ddl_parser.ddl_parser", "simple_ddl_parser.cli") and f.name != "parse_from_file"]
    for hf in helpers:
        for n in ast.walk(hf.node):
            if isinstance(n, (ast.Global, ast.Nonlocal)):
                stateful.append(n)
            if isinstance(n, ast.Name) and n.id in hf.module.assigns and isinstance(
                    hf.module.assigns[n.id], (ast.Dict, ast.List, ast.Set, ast.Call, ast.DictComp, ast.ListComp)):
                stateful.append(n)
    ck.ob("T-PASS", "parse_from_file keeps no state between calls (no global, no module-level value, no attribute / item store)",
          not stateful, f"{[ast.unparse(x)[:40] for x in stateful][:3]}", pf.loc())
    _entry(ck, ctx)
    # file effects (shared rule with C14)
    S.t_file(ck, ctx, {
        "dump_data_to_file": ("Parser.run", "dump", False),
        "set_logging_config": ("Parser.__init__", "log_file", True),
    })
    # ---- CLI
    cli = m.func("simple_ddl_parser.cli:cli")
    adds = [n for n in ast.walk(cli.node) if isinstance(n, ast.Call) and isinstance(n.func, ast.Attribute) and n.func.attr == "add_argument"]
    spec = {}
    for a in adds:
        flags = [x.value for x in a.args if isinstance(x, ast.Constant)]
        spec[tuple(flags)] = _kw(a)
    def find(flag):
        for fl, kw in spec.items():
            if flag in fl:
                return kw
        return None
    nd = find("--no-dump")
    ck.ob("T-CLI", "--no-dump is a store_true flag defaulting to False", nd is not None and nd.get("action") == "'store_true'" and nd.get("default", "False") == "False", str(nd), cli.loc())
    tg = find("--target")
    ck.ob("T-CLI", "-t / --target defaults to 'schemas'", tg is not None and tg.get("default") == "'schemas'" and find("-t") is tg, str(tg), cli.loc())
    om = find("--output-mode")
    ck.ob("T-CLI", "-o / --output-mode defaults to 'sql'", om is not None and om.get("default") == "'sql'" and find("-o") is om and "action" not in om, str(om), cli.loc())
    fp = find("ddl_file_path")
    ck.ob("T-CLI", "positional ddl_file_path", fp is not None, "", cli.loc())
    ce = m.func("simple_ddl_parser.cli:correct_extension")
    exts = None
    cands = [n.value for n in ast.walk(ce.node) if isinstance(n, ast.Assign)] + list(ce.module.assigns.values())
    used = {n.id for n in ast.walk(ce.node) if isinstance(n, ast.Name)}
    for nm, v in ce.module.assigns.items():
        if nm not in used and v in cands:
            cands.remove(v)
    for v in cands:
        if isinstance(v, (ast.List, ast.Tuple, ast.Set)) and v.elts and all(isinstance(x, ast.Constant) and isinstance(x.value, str) for x in v.elts):
            vals = {x.value for x in v.elts}
            if {"sql", "ddl"} & {e.lstrip(".") for e in vals}:
                exts = vals
    ck.ob("T-CLI", "accepted extensions include sql, ddl, hql, bql", exts is not None and {"sql", "ddl", "hql", "bql"} <= {e.lstrip(".") for e in exts},
          str(exts), ce.loc())
    # ... evaluated abstractly on representative file names: accepted iff the LAST extension is one of sql / ddl / hql / bql
    from ..pyabs import Interp, Obj, PyRaise, LexUnknown
    cases = {"a.sql": True, "my.table.sql": True, "x.ddl": True, "y.hql": True, "z.bql": True, "UPPER.v2.hql": True,
             "README": False, "notes.txt": False, "a.sql.bak": False, "Makefile": False, "data.json": False, "LICENSE": False}
    for fname, want in cases.items():
        try:
            got = Interp(m, ctx.grammar.tokens_ns, Obj()).call_func(ce, [fname])
        except PyRaise as pr:
            got = f"raises {pr}"
        except LexUnknown as e:
            raise AnalysisError(f"correct_extension outside the interpreted subset: {e}")
        ck.ob("T-CLI", f"correct_extension({fname!r}) is {want}", bool(got) is want if isinstance(got, (bool, type(None))) else False,
              f"directory mode handles exactly the .sql / .ddl / .hql / .bql files: got {got!r}", ce.loc())
    ck.assumptions += ["declined: encodings, file-system states, run-time equality of file content and result (I/O behaviour)",
                       "the dump name is derived from the base name of file_path; how a base name containing further dots is shortened is "
                       "not decided (the property's '<input base name>' is read as the library's documented naming)"]
