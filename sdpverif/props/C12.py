"""C12 - documented shape, JSON-serialisable (DESIGN 4, C12)."""
import ast

from ..cfg import guard_atoms
from ..core import AnalysisError
from ..dcmodel import DCModel, BASE_MOD, DIALECTS_MOD
from ..effects import access_path
from ..rules import state as S
from ..rules.shape import key_effects, must_keys
from . import C10

REQUIRED_TABLE = {"table_name": None, "schema": None, "primary_key": None, "columns": "list", "alter": "dict", "checks": "list",
                  "index": "list", "partitioned_by": "list", "tablespace": None}
OWNER = {"hql": "hql", "mysql": "mysql", "oracle": "oracle", "redshift": "redshift", "snowflake": "snowflake", "mssql": "mssql",
         "bigquery": "bigquery", "postgres": "postgres", "spark": "spark_sql", "db2": "ibm_db2"}
REQUIRED_COLUMN = {"name", "type", "size", "references", "unique", "nullable", "default", "check"}
OPTION_KEYS = {"references", "unique", "primary_key", "nullable", "default", "check"}
# reviewed deletions of a required-looking key on something that is not a column entry
NODEL_EXCEPTIONS = {
    ("BaseData.normalize_ref_columns_in_final_output", "col_ref", "name"):
        "col_ref is an entry of ref_columns (a reference record), not a column; its `name` only says which column it belongs to",
}


def run(ck, ctx):
    m = ctx.model
    dc = ctx._get("dcmodel", lambda: DCModel(m))
    ck.explanation = (
        "E1 + dataclass-field model + E5 must-assign / key-effect rules. Table skeleton: in each of the 15 mode classes the nine "
        "documented keys are fields without exclusion metadata and with container-typed defaults, primary_key is bound to a list "
        "on every path of populate_keys, to_dict emits every attribute passing the filter (BigQuery: dataset in place of schema). "
        "Column skeleton: the column literal carries name / type / size, p_defcolumn must-assigns the six option keys on every "
        "path, only dicts having name and type are appended to `columns`, nothing downstream deletes a required column key, "
        "`unique` / `nullable` are only ever stored as booleans. JSON: no set / frozenset / bytes value and no class instance flows "
        "into a result, the formatter appends dicts (to_dict() results or the parse-result dict), json_dump returns json.dumps of "
        "exactly the object otherwise returned.")
    base_fields = dc.dc_fields((BASE_MOD, "BaseData"))
    # ---- table skeleton per mode
    for mode in sorted(dc.dialect_by_name):
        name, mro, fields = dc.mode_class(mode)
        for key, shape in REQUIRED_TABLE.items():
            fkey = "dataset" if (mode == "bigquery" and key == "schema") else key
            fi = fields.get(fkey)
            if fi is None:
                ck.ob("T-SHAPE.table", f"{mode}: `{fkey}` is a field", False, f"class {name} lacks the documented key", "")
                continue
            excl = [k for k in fi.metadata if k.startswith("exclude")]
            modes = fi.metadata.get("output_modes")
            ok = not excl and (modes is None or mode in modes) and "alias" not in fi.metadata
            ck.ob("T-SHAPE.table", f"{mode}: `{fkey}` is always emitted", ok,
                  f"{fi.owner}.{fkey} metadata {fi.metadata}: the documented key could be missing from a table entry", f"{fi.owner}.{fkey}")
            if shape:
                ck.ob("T-SHAPE.table", f"{mode}: `{fkey}` defaults to an empty {shape}", fi.default_shape() == shape,
                      f"default is {fi.default_shape()}", f"{fi.owner}.{fkey}")
    ck.floor("T-SHAPE.table", 15 * 9)
    # primary_key is a list on every path
    pk = m.func(f"{BASE_MOD}:BaseData.populate_keys")
    src = ast.unparse(pk.node)
    first_if = [s for s in pk.node.body if isinstance(s, ast.If)]
    ok = bool(first_if) and ast.unparse(first_if[0].test) == "not self.primary_key" and \
        any(S.is_self_call("get_pk_from_columns_and_constraints")(x) for b in first_if[0].body for x in ast.walk(b))
    ck.ob("T-SHAPE.pk", "populate_keys: an empty / missing primary_key is recomputed", ok,
          "primary_key defaults to None; it must be replaced by a list before the entry is emitted", pk.loc())
    g = m.func(f"{BASE_MOD}:BaseData.get_pk_from_columns_and_constraints")
    stores = [n for n in ast.walk(g.node) if isinstance(n, ast.Assign) and any(access_path(t) == "self.primary_key" for t in n.targets if isinstance(t, ast.Attribute))]
    ok = len(stores) == 1 and isinstance(stores[0].value, ast.Name) and stores[0] is g.node.body[-1]
    if ok:
        v = stores[0].value.id
        binds = [n for n in ast.walk(g.node) if isinstance(n, ast.Assign) and any(isinstance(t, ast.Name) and t.id == v for t in n.targets)]
        ok = len(binds) == 1 and isinstance(binds[0].value, ast.List)
    ck.ob("T-SHAPE.pk", "get_pk_from_columns_and_constraints binds self.primary_key to a locally built list on every path", ok, "", g.loc())
    post = m.func(f"{BASE_MOD}:BaseData.__post_init__")
    ck.ob("T-SHAPE.pk", "__post_init__ runs populate_keys unconditionally", any(
        isinstance(s, ast.Expr) and S.is_self_call("populate_keys")(s.value) for s in post.node.body), "", post.loc())
    # to_dict / filter (shared with C10)
    C10._check_filter(ck, ctx)
    # ---- column skeleton
    sb = m.parser_method("set_base_column_propery")
    lits = [n for n in ast.walk(sb.node) if isinstance(n, ast.Dict)]
    ok = any({k.value for k in d.keys if isinstance(k, ast.Constant)} >= {"name", "type", "size"} for d in lits)
    ck.ob("T-SHAPE.column", "the column literal carries name, type and size", ok, "", sb.loc())
    dfc = m.parser_method("p_defcolumn")
    mk = must_keys(dfc.node, "p[0]")
    for k in sorted(OPTION_KEYS):
        ck.ob("T-SHAPE.column", f"p_defcolumn assigns `{k}` on every path", k in mk,
              f"must-assigned keys of p[0]: {sorted(mk)}: a column without `{k}` breaks the documented column shape "
              "(and the key collection of the output layer)", dfc.loc())
    pet = m.parser_method("p_expression_table")
    apps = [n for n in ast.walk(pet.node) if isinstance(n, ast.Call) and isinstance(n.func, ast.Attribute) and n.func.attr == "append"
            and ast.unparse(n.func.value) == "p[0]['columns']"]
    ck.ob("T-SHAPE.column", "p_expression_table appends to columns at exactly one site", len(apps) == 1, "", pet.loc())
    for a in apps:
        atoms = guard_atoms(pet.node, S.stmt_of(pet, a))
        arg = ast.unparse(a.args[0])
        ok = (f"'type' in {arg}", True) in atoms and (f"'name' in {arg}", True) in atoms
        ck.ob("T-SHAPE.column", "only dicts having `name` and `type` are appended to columns", ok, f"guards: {atoms}", pet.loc(a))
    # nothing deletes a required column key
    n_del = 0
    for f in m.all_funcs():
        for ke in key_effects(f.node):
            if ke.op in ("del", "pop") and ke.key in REQUIRED_COLUMN:
                exc = NODEL_EXCEPTIONS.get((f.qual, ke.recv, ke.key))
                n_del += 1
                ck.ob("T-KEYS-NODEL", f"{f.qual}: {ke.op} {ke.recv}[{ke.key!r}]", exc is not None,
                      f"reviewed: {exc}" if exc else "a required column key is removed", f.loc(ke.node))
            if ke.op == "clear" and ("column" in (ke.recv or "")):
                ck.ob("T-KEYS-NODEL", f"{f.qual}: {ke.recv}.clear()", False, "a column entry is emptied", f.loc(ke.node))
    ck.ob("T-KEYS-NODEL", "package scanned for deletions of required column keys", True, f"{n_del} site(s)", "")
    # booleans
    n_bool = 0
    for f in m.all_funcs():
        for ke in key_effects(f.node):
            if ke.op == "store" and ke.key in ("unique", "nullable") and ke.stmt is not None and (
                    "col" in (ke.recv or "") or ke.recv == "p[0]" and f.name == "p_defcolumn"):
                v = ke.stmt.value
                n_bool += 1
                ck.ob("T-SHAPE.bool", f"{f.qual}: {ke.recv}[{ke.key!r}] = {ast.unparse(v)[:50]}", _boolish(v),
                      "`unique` / `nullable` of a column must be booleans", f.loc(ke.node))
    ck.floor("T-SHAPE.bool", 6)
    gcp = m.parser_method("get_column_properties")
    seeds = {ast.unparse(n.targets[0]): n.value for n in gcp.node.body if isinstance(n, ast.Assign) and isinstance(n.targets[0], ast.Name)}
    for nm in ("unique", "nullable", "pk"):
        v = seeds.get(nm)
        ck.ob("T-SHAPE.bool", f"get_column_properties: {nm} starts as a boolean constant", isinstance(v, ast.Constant) and isinstance(v.value, bool), "", gcp.loc())
    for n in ast.walk(gcp.node):
        if isinstance(n, ast.Assign) and isinstance(n.targets[0], ast.Name) and n.targets[0].id in ("unique", "nullable", "pk"):
            ck.ob("T-SHAPE.bool", f"get_column_properties: {n.targets[0].id} = {ast.unparse(n.value)}",
                  isinstance(n.value, ast.Constant) and isinstance(n.value.value, bool), "", gcp.loc(n))
    # ---- JSON
    scope = [f for f in m.all_funcs() if f.module.name.startswith("simple_ddl_parser.output") or
             (f.cls and m.in_parser_family((f.module.name, f.cls)))]
    for f in scope:
        parents = {}
        for p in ast.walk(f.node):
            for c in ast.iter_child_nodes(p):
                parents[id(c)] = p
        for n in ast.walk(f.node):
            bad = None
            if isinstance(n, (ast.Set, ast.SetComp)):
                bad = "set"
            elif isinstance(n, ast.Call) and isinstance(n.func, ast.Name) and n.func.id in ("set", "frozenset", "bytes", "bytearray", "complex"):
                bad = n.func.id
            elif isinstance(n, ast.Constant) and isinstance(n.value, bytes):
                bad = "bytes literal"
            elif isinstance(n, ast.Call) and isinstance(n.func, ast.Attribute) and n.func.attr == "encode" and f.qual != "Parser.__init__":
                bad = "str.encode()"
            if not bad:
                continue
            par = parents.get(id(n))
            local_only = isinstance(par, ast.Assign) and all(isinstance(t, ast.Name) for t in par.targets)
            member = isinstance(par, ast.Compare)
            ck.ob("T-JSON", f"{f.qual}: {bad} value `{ast.unparse(n)[:40]}`", local_only or member,
                  "a value that json cannot encode must not be stored into a result (local sets used for membership are fine; "
                  "their uses are checked by T-SETORD)", f.loc(n))
    S.t_setord(ck, ctx, scope)
    ck.ob("T-JSON", "package scanned for non-JSON values", True, f"{len(scope)} functions", "")
    psd = m.func("simple_ddl_parser.output.core:Output.process_statement_data")
    ret = psd.node.body[-1]
    ok = isinstance(ret, ast.Return) and isinstance(ret.value, ast.Name)
    if ok:
        binds = [n for n in ast.walk(psd.node) if isinstance(n, ast.Assign) and any(isinstance(t, ast.Name) and t.id == ret.value.id for t in n.targets)]
        param = [p for p in psd.params if p != "self"][0]
        ok = bool(binds) and all(ast.unparse(b.value) in (param,) or (isinstance(b.value, ast.Call) and ast.unparse(b.value.func).endswith(".to_dict"))
                                 for b in binds)
    ck.ob("T-JSON", "Output.process_statement_data returns a dict (to_dict() of the table object, or the parse-result dict)", ok,
          "a table object itself must never be placed in the result", psd.loc())
    fmt = m.func("simple_ddl_parser.output.core:Output.format")
    apps = [n for n in ast.walk(fmt.node) if isinstance(n, ast.Call) and isinstance(n.func, ast.Attribute) and n.func.attr == "append"
            and access_path(n.func.value) == "self.final_result"]
    for a in apps:
        arg = a.args[0]
        ok = isinstance(arg, ast.Name) and any(isinstance(b, ast.Assign) and any(isinstance(t, ast.Name) and t.id == arg.id for t in b.targets)
                                                and S.is_self_call("process_statement_data")(b.value) for b in ast.walk(fmt.node))
        ck.ob("T-JSON", "Output.format appends process_statement_data(...) results", ok, ast.unparse(a)[:70], fmt.loc(a))
    # ---- json_dump
    run_f = m.parser_method("run")
    dumps = [n for n in ast.walk(run_f.node) if isinstance(n, ast.Call) and ast.unparse(n.func) == "json.dumps"]
    ck.ob("T-JSONDUMP", "run() calls json.dumps once", len(dumps) == 1, "", run_f.loc())
    for d in dumps:
        st = S.stmt_of(run_f, d)
        atoms = guard_atoms(run_f.node, st)
        kw = {k.arg for k in d.keywords}
        ok = [ast.unparse(a) for a in d.args] == ["self.tables"] and kw <= {"indent", "ensure_ascii", "separators", "sort_keys"} \
            and isinstance(st, ast.Assign) and ast.unparse(st.targets[0]) == "self.tables" and st.value is d and ("json_dump", True) in atoms \
            and all(a[0] == "json_dump" or "dialect_by_name" in a[0] for a in atoms)
        ck.ob("T-JSONDUMP", "if json_dump: self.tables = json.dumps(self.tables)", ok,
              f"found `{ast.unparse(st)[:80]}` under {atoms}: the encoding must be of exactly the result object, with no default= / skipkeys "
              "that would hide an unencodable value", run_f.loc(d))
        last = run_f.node.body[-1]
        ck.ob("T-JSONDUMP", "run() returns self.tables right after", isinstance(last, ast.Return) and ast.unparse(last.value) == "self.tables"
              and run_f.node.body[-2] is S.stmt_of(run_f, st) or run_f.node.body[-2] is _top(run_f, st), "", run_f.loc(last))
    # ---- the final output of the fixed points' tables has the documented shape (output layer evaluated abstractly)
    from ..rules.fragments import run_fragments
    from ..specs.clauses import GROUPS
    jobs = [dict(module="table", label="constraints", only_rules={"O-shape", "O-final"},
                 build_kw=dict(tier=ck.tier, constraints=True, set_null=False, final=("shape",), final_modes=["sql", "hql", "bigquery", "mssql", "oracle", "redshift"]))]
    jobs += [dict(module="clauses", only_rules={"O-shape", "O-final"},
                  build_kw=dict(group=g, tier=ck.tier, final=("shape",), final_modes=["sql", OWNER[g]])) for g in GROUPS]
    jobs += [dict(module="entities", only_rules={"O-final"}, build_kw=dict(tier=ck.tier))]      # incl. DROP TABLE: still a full table entry
    run_fragments(ck, ctx, jobs)
    # ---- the shape after SEVERAL ALTER statements on one table (ADD column, RENAME, DROP, FOREIGN KEY / UNIQUE on the new names)
    from ..specs.alter import check_sequences
    check_sequences(ck, ctx, rule="O-shape", extra_modes=())
    ck.assumptions += ["json.dumps encodes dict / list / tuple / str / int / float / bool / None (CPython)",
                       "declined: `primary_key lists names of that table's columns` (value-level)",
                       "reviewed: prepare_alter_columns can append a reference-only column record for an ALTER naming a column the table "
                       "does not have (ill-formed DDL, outside `supported, well-formed`)"]


def _top(f, st):
    for s in f.node.body:
        if any(x is st for x in ast.walk(s)):
            return s
    return None


def _boolish(v):
    if isinstance(v, ast.Constant):
        return isinstance(v.value, bool)
    if isinstance(v, ast.UnaryOp) and isinstance(v.op, ast.Not):
        return True
    if isinstance(v, ast.Compare):
        return True
    if isinstance(v, ast.BoolOp):
        return all(_boolish(x) for x in v.values)
    if isinstance(v, ast.IfExp):
        return _boolish(v.body) and _boolish(v.orelse)
    if isinstance(v, ast.Name):
        return v.id in ("unique", "nullable", "pk", "index")
    if isinstance(v, ast.Call) and isinstance(v.func, ast.Attribute) and v.func.attr == "get" and len(v.args) == 2:
        return _boolish(v.args[1])
    return False
