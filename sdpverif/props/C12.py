"""C12 - documented shape, JSON-serialisable (DESIGN 4, C12)."""
import ast

from ..cfg import guard_atoms
from ..core import AnalysisError
from ..dcmodel import DCModel, BASE_MOD, DIALECTS_MOD
from ..effects import access_path
from ..rules import state as S
from ..rules.shape import key_effects, must_keys
from . import C10

REQUIRED_TABLE = {"table_name": None, "schema": None, "primary_key": None, "columns": "list", "alter": "dict", "checks": "list",
                  "index": "list", "partitioned_by": "list", "tablespace": None}
OWNER = {"hql": "hql", "mysql": "mysql", "oracle": "oracle", "redshift": "redshift", "snowflake": "snowflake", "mssql": "mssql",
         "bigquery": "bigquery", "postgres": "postgres", "spark": "spark_sql", "db2": "ibm_db2"}
REQUIRED_COLUMN = {"name", "type", "size", "references", "unique", "nullable", "default", "check"}
OPTION_KEYS = {"references", "unique", "primary_key", "nullable", "default", "check"}
# reviewed deletions of a required-looking key on something that is not a column entry
NODEL_EXCEPTIONS = {
    ("BaseData.normalize_ref_columns_in_final_output", "col_ref", "name"):
        "col_ref is an entry of ref_columns (a reference record), not a column; its `name` only says which column it belongs to",
}


def run(ck, ctx):
    m = ctx.model
    dc = ctx._get("dcmodel", lambda: DCModel(m))
    ck.explanation = (
        "E1 + dataclass-field model + E5 must-assign / key-effect rules. Table skeleton: in each of the 15 mode classes the nine "
        "documented keys are fields without exclusion metadata and with container-typed defaults, primary_key is bound to a list "
        "on every path of populate_keys, to_dict emits every attribute passing the filter (BigQuery: dataset in place of schema). "
        "Column skeleton: the column literal carries name / type / size, p_defcolumn must-assigns the six option keys on every "
        "path, only dicts having name and type are appended to `columns`, nothing downstream deletes a required column key, "
        "`unique` / `nullable` are only ever stored as booleans. JSON: no set / frozenset / bytes value and no class instance flows "
        "into a result, the formatter appends dicts (to_dict() results or the parse-result dict), json_dump returns json.dumps of "
        "exactly the object otherwise returned.")
    base_fields = dc.dc_fields((BASE_MOD, "BaseData"))
    # ---- table skeleton per mode
    for mode in sorted(dc.dialect_by_name):
        name, mro, fields = dc.mode_class(mode)
        for key, shape in REQUIRED_TABLE.items():
            fkey = "dataset" if (mode == "bigquery" and key == "schema") else key
            fi = fields.get(fkey)
            if fi is None:
                ck.ob("T-SHAPE.table", f"{mode}: `{fkey}` is a field", False, f"class {name} lacks the documented key", "")
                continue
            excl = [k for k in fi.metadata if k.startswith("exclude")]
            modes = fi.metadata.get("output_modes")
            ok = not excl and (modes is None or mode in modes) and "alias" not in fi.metadata
            ck.ob("T-SHAPE.table", f"{mode}: `{fkey}` is always emitted", ok,
                  f"{fi.owner}.{fkey} metadata {fi.metadata}: the documented key could be missing from a table entry", f"{fi.owner}.{fkey}")
            if shape:
                ck.ob("T-SHAPE.table", f"{mode}: `{fkey}` defaults to an empty {shape}", fi.default_shape() == shape,
                      f"default is {fi.default_shape()}", f"{fi.owner}.{fkey}")
    ck.floor("T-SHAPE.table", 15 * 9)
    # primary_key is a list whatever the statement provides (table objects built and emitted by the abstractly evaluated output layer)
    _check_pk_list(ck, ctx, dc)
    # to_dict / filter (shared with C10)
    C10._check_filter(ck, ctx)
    # ---- column skeleton
    # (that every column entry carries name / type / size and that only column dicts reach `columns` is decided on the final output of
    # the explored statements - O-shape below; here: the option keys are must-assigned on EVERY path of p_defcolumn)
    dfc = m.parser_method("p_defcolumn")
    mk = must_keys(dfc.node, "p[0]")
    for k in sorted(OPTION_KEYS):
        ck.ob("T-SHAPE.column", f"p_defcolumn assigns `{k}` on every path", k in mk,
              f"must-assigned keys of p[0]: {sorted(mk)}: a column without `{k}` breaks the documented column shape "
              "(and the key collection of the output layer)", dfc.loc())
    # nothing deletes a required column key
    n_del = 0
    for f in m.all_funcs():
        for ke in key_effects(f.node):
            if ke.op in ("del", "pop") and ke.key in REQUIRED_COLUMN:
                exc = NODEL_EXCEPTIONS.get((f.qual, ke.recv, ke.key))
                n_del += 1
                ck.ob("T-KEYS-NODEL", f"{f.qual}: {ke.op} {ke.recv}[{ke.key!r}]", exc is not None,
                      f"reviewed: {exc}" if exc else "a required column key is removed", f.loc(ke.node))
            if ke.op == "clear" and ("column" in (ke.recv or "")):
                ck.ob("T-KEYS-NODEL", f"{f.qual}: {ke.recv}.clear()", False, "a column entry is emptied", f.loc(ke.node))
    ck.ob("T-KEYS-NODEL", "package scanned for deletions of required column keys", True, f"{n_del} site(s)", "")
    # booleans
    n_bool = 0
    for f in m.all_funcs():
        for ke in key_effects(f.node):
            if ke.op == "store" and ke.key in ("unique", "nullable") and ke.stmt is not None and (
                    "col" in (ke.recv or "") or ke.recv == "p[0]" and f.name == "p_defcolumn"):
                v = ke.stmt.value
                n_bool += 1
                ck.ob("T-SHAPE.bool", f"{f.qual}: {ke.recv}[{ke.key!r}] = {ast.unparse(v)[:50]}", _boolish(v),
                      "`unique` / `nullable` of a column must be booleans", f.loc(ke.node))
    ck.floor("T-SHAPE.bool", 6)
    gcp = m.parser_method("get_column_properties")
    for n in ast.walk(gcp.node):
        if isinstance(n, ast.Assign) and isinstance(n.targets[0], ast.Name) and n.targets[0].id in ("unique", "nullable", "pk"):
            ck.ob("T-SHAPE.bool", f"get_column_properties: {n.targets[0].id} = {ast.unparse(n.value)[:40]}", _boolish(n.value),
                  "`unique` / `nullable` / `pk` flow into the column entry: they must be boolean-valued", gcp.loc(n))
    # ---- JSON
    scope = [f for f in m.all_funcs() if f.module.name.startswith("simple_ddl_parser.output") or
             (f.cls and m.in_parser_family((f.module.name, f.cls)))]
    for f in scope:
        parents = {}
        for p in ast.walk(f.node):
            for c in ast.iter_child_nodes(p):
                parents[id(c)] = p
        for n in ast.walk(f.node):
            bad = None
            if isinstance(n, (ast.Set, ast.SetComp)):
                bad = "set"
            elif isinstance(n, ast.Call) and isinstance(n.func, ast.Name) and n.func.id in ("set", "frozenset", "bytes", "bytearray", "complex"):
                bad = n.func.id
            elif isinstance(n, ast.Constant) and isinstance(n.value, bytes):
                bad = "bytes literal"
            elif isinstance(n, ast.Call) and isinstance(n.func, ast.Attribute) and n.func.attr == "encode" and f.qual != "Parser.__init__":
                bad = "str.encode()"
            if not bad:
                continue
            par = parents.get(id(n))
            local_only = isinstance(par, ast.Assign) and all(isinstance(t, ast.Name) for t in par.targets)
            member = isinstance(par, ast.Compare)
            ck.ob("T-JSON", f"{f.qual}: {bad} value `{ast.unparse(n)[:40]}`", local_only or member,
                  "a value that json cannot encode must not be stored into a result (local sets used for membership are fine; "
                  "their uses are checked by T-SETORD)", f.loc(n))
    S.t_setord(ck, ctx, scope)
    ck.ob("T-JSON", "package scanned for non-JSON values", True, f"{len(scope)} functions", "")
    # (that the formatter puts dicts - never table objects - into the result is decided on the final output: O-shape below)
    # ---- json_dump: run() evaluated abstractly on flat results of every kind returns exactly the JSON encoding of what it returns
    # without the flag; the encoder is called without options that would hide an unencodable value
    _check_json_dump(ck, ctx)
    # ---- the final output of the fixed points' tables has the documented shape (output layer evaluated abstractly)
    from ..rules.fragments import run_fragments
    from ..specs.clauses import GROUPS
    jobs = [dict(module="table", label="constraints", only_rules={"O-shape", "O-final"},
                 build_kw=dict(tier=ck.tier, constraints=True, set_null=False, final=("shape",), final_modes=["sql", "hql", "bigquery", "mssql", "oracle", "redshift"]))]
    jobs += [dict(module="clauses", only_rules={"O-shape", "O-final"},
                  build_kw=dict(group=g, tier=ck.tier, final=("shape",), final_modes=["sql", OWNER[g]])) for g in GROUPS]
    jobs += [dict(module="entities", only_rules={"O-final"}, build_kw=dict(tier=ck.tier))]      # incl. DROP TABLE: still a full table entry
    run_fragments(ck, ctx, jobs)
    # ---- the shape after SEVERAL ALTER statements on one table (ADD column, RENAME, DROP, FOREIGN KEY / UNIQUE on the new names)
    from ..specs.alter import check_sequences
    check_sequences(ck, ctx, rule="O-shape", extra_modes=())
    ck.assumptions += ["json.dumps encodes dict / list / tuple / str / int / float / bool / None (CPython)",
                       "declined: `primary_key lists names of that table's columns` (value-level)",
                       "reviewed: prepare_alter_columns can append a reference-only column record for an ALTER naming a column the table "
                       "does not have (ill-formed DDL, outside `supported, well-formed`)"]


def _check_pk_list(ck, ctx, dc):
    """for every mode class: a table built without primary_key / with None (with and without a column declared PRIMARY KEY inline) or
    with the list of a table-level clause is emitted with `primary_key` bound to a list of exactly those columns - however
    populate_keys and its helpers are written"""
    from ..objabs import ObjInterp
    from ..pyabs import PyRaise, LexUnknown, NonUniform
    m = ctx.model
    n = 0

    def col(name, pk):
        return {"name": name, "type": "int", "size": None, "references": None, "unique": False, "primary_key": pk, "nullable": not pk,
                "default": None, "check": None}
    for mode in sorted(dc.dialect_by_name):
        it = ObjInterp(m, ctx.grammar.tokens_ns, dc)
        td = it.clsd(("simple_ddl_parser.output.table_data", "TableData"))
        # (what the grammar actions hand over: no primary_key, None, or the non-empty list of a table-level PRIMARY KEY clause)
        for given in ("absent", None, ["a"]):
            for cols, want in (([], []), ([col("a", False), col("b", True)], ["b"])):
                if given == ["a"]:
                    if not cols:
                        continue
                    cols, want = [col("a", False), col("b", False)], ["a"]
                kwargs = {"output_mode": mode, "table_name": "t", "columns": [dict(c) for c in cols], "init_data": {"table_name": "t"}}
                if given != "absent":
                    kwargs["primary_key"] = given if given is None else list(given)
                try:
                    cls = it.call_func(it.lookup(td, "get_dialect_class"), [{"output_mode": mode}], {}, self_obj=td)
                    inst = it.construct_inst(cls, [], kwargs)
                    out = it.call_func(it.lookup(inst.cls, "to_dict"), [], {}, self_obj=inst)
                    got = out.get("primary_key", "<missing>") if isinstance(out, dict) else "<not a dict>"
                    ok, detail = isinstance(got, list) and got == want, f"primary_key is {got!r}, expected {want!r}"
                except PyRaise as pr:
                    ok, detail = False, f"raises {type(pr.exc).__name__}: {pr.exc}"
                except (LexUnknown, NonUniform) as e:
                    raise AnalysisError(f"table construction outside the interpreted subset (mode {mode}): {e}")
                n += 1
                if not ok:
                    ck.ob("T-SHAPE.pk", f"{mode}: primary_key {'not given' if given == 'absent' else repr(given)}, {len(cols)} columns", False,
                          "primary_key defaults to None; it must be a list (of the key columns) before the entry is emitted; " + detail,
                          "BaseData.__post_init__ / populate_keys (evaluated abstractly)")
    ck.ob("T-SHAPE.pk", f"all {n} (mode, given primary_key, columns) combinations", True,
          "the emitted table entry has primary_key bound to a list holding the inline key columns", "BaseData.__post_init__ / populate_keys (evaluated abstractly)")


def _check_json_dump(ck, ctx):
    import copy
    from ..objabs import run_tail, abstract_json_dumps, ShapeMismatch
    from ..pyabs import PyRaise, LexUnknown, NonUniform, deep_eq
    from ..pyabs import W
    m = ctx.model

    def w(*xs):
        return W(list(xs) + list(xs)[: 6 - len(xs)])

    def table(name):
        return {"table_name": name, "schema": None, "primary_key": None, "index": [], "partitioned_by": [], "tablespace": None, "checks": [],
                "columns": [{"name": w("a", "Col", "c_1"), "type": w("int", "TEXT", "num_9"), "size": None, "references": None, "unique": False,
                             "primary_key": False, "nullable": True, "default": None, "check": None}]}
    ents = {
        "table": table(w("t", "Orders", "x_1")),
        "sequence": {"schema": None, "sequence_name": w("s1", "Seq", "q_2"), "increment": 1},
        "type": {"schema": w("a", "B", "c_1"), "type_name": w("ty", "Mood", "t_3"), "base_type": "ENUM", "properties": {"values": [w("'x'", "'It'", "'z z'")]}},
        "domain": {"schema": None, "domain_name": w("d", "Dom", "d_4"), "base_type": "int", "properties": {}},
        "schema": {"schema_name": w("sc", "Sch", "s_5")},
        "property": {"name": w("p", "Prop", "p_8"), "value": w("on", "1", "x")},
    }
    flats = {"empty": [], "one table": [ents["table"]], "every kind": list(ents.values()),
             "two tables and a sequence": [ents["table"], table(w("u", "Items", "y_2")), ents["sequence"]]}
    n = 0
    for name, flat in flats.items():
        for grouped in (False, True):
            for mode in ("sql", "bigquery", "hql"):
                try:
                    plain, _d = run_tail(ctx, copy.deepcopy(flat), group_by_type=grouped, output_mode=mode)
                    dumped, _d = run_tail(ctx, copy.deepcopy(flat), group_by_type=grouped, output_mode=mode, json_dump=True)
                    want = abstract_json_dumps(plain)
                    try:
                        ok = deep_eq(dumped, want)
                    except NonUniform:
                        ok = False
                    detail = "" if ok else f"json_dump=True returns {dumped!r:.200}, json.dumps of the plain result is {want!r:.200}"
                except PyRaise as pr:
                    ok, detail = False, f"raises {type(pr.exc).__name__}: {pr.exc}"
                except (LexUnknown, NonUniform, ShapeMismatch) as e:
                    raise AnalysisError(f"Parser.run outside the interpreted subset ({name}): {e}")
                n += 1
                ck.ob("T-JSONDUMP", f"run(json_dump=True, group_by_type={grouped}, output_mode={mode!r}) on: {name}", ok,
                      "json_dump=True returns exactly the JSON encoding of the result returned without it" + ("" if ok else "; " + detail),
                      "Parser.run (evaluated abstractly)")
    run_f = m.parser_method("run")
    sites = 0
    for f in [run_f] + [g for g in m.all_funcs() if g.module.name in ("simple_ddl_parser.parser", "simple_ddl_parser.output.core") and g is not run_f]:
        for d in ast.walk(f.node):
            if isinstance(d, ast.Call) and ast.unparse(d.func) in ("json.dumps", "json.dump", "dumps", "dump"):
                sites += 1
                kw = {k.arg for k in d.keywords}
                ck.ob("T-JSONDUMP", f"{f.qual}: {ast.unparse(d.func)}(...) keyword arguments", kw <= {"indent", "ensure_ascii", "separators", "sort_keys", "fp", "obj"},
                      f"keywords {sorted(str(k) for k in kw)}: no default= / skipkeys / cls / ** that would hide or change an unencodable value", f.loc(d))
    if not sites:
        raise AnalysisError("anchor vanished: no json.dumps / json.dump call in parser.py / output/core.py")


def _top(f, st):
    for s in f.node.body:
        if any(x is st for x in ast.walk(s)):
            return s
    return None


def _boolish(v):
    if isinstance(v, ast.Constant):
        return isinstance(v.value, bool)
    if isinstance(v, ast.UnaryOp) and isinstance(v.op, ast.Not):
        return True
    if isinstance(v, ast.Compare):
        return True
    if isinstance(v, ast.BoolOp):
        return all(_boolish(x) for x in v.values)
    if isinstance(v, ast.IfExp):
        return _boolish(v.body) and _boolish(v.orelse)
    if isinstance(v, ast.Name):
        return v.id in ("unique", "nullable", "pk", "index")
    if isinstance(v, ast.Call) and isinstance(v.func, ast.Attribute) and v.func.attr == "get" and len(v.args) == 2:
        return _boolish(v.args[1])
    return False
