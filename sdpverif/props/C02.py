"""C02 - keys, uniqueness, checks and foreign keys land on the right columns (DESIGN 4, C02)."""
from ..rules.fragments import run_fragment


def run(ck, ctx):
    ck.level = "model_checking"
    ck.explanation = (
        "E3 x E4: fixed point of the core-column fragment extended with table-level PRIMARY KEY / UNIQUE / CONSTRAINT n ... / "
        "CHECK / FOREIGN KEY ... REFERENCES declarations (1..2 columns each, any position after the first column, any number) "
        "and ON DELETE / ON UPDATE actions including SET NULL. O-value: every declaration adds exactly its own entry "
        "(primary_key list, constraints[type] entry under its name with its exact column list, checks entry, per-column "
        "reference entries with referenced schema / table / column and actions as written), flags exactly the named column "
        "for a single-column UNIQUE and no column for a multi-column one, and touches nothing else. O-keys (output layer evaluated "
        "abstractly on a spread of the distinct table shapes the fixed point produces): the reported primary_key is the declared key "
        "(table-level clause, else inline flags then named constraints, in order), every key column is NOT NULL, unique flags are "
        "exactly inline UNIQUE or a single-column UNIQUE clause, table-level FOREIGN KEY clauses sit on their own columns, CHECKs are "
        "reported once.")
    run_fragment(ck, ctx, "table", label="constraints", tier=ck.tier, constraints=True, set_null=True, final=("keys",))
    ck.assumptions += ["words are separated as pre_process_data intends", "CHECK expression content is not decided"]
