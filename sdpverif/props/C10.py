"""C10 - output_mode only filters presentation (DESIGN 4, C10)."""
import ast

from ..cfg import guard_atoms
from ..core import AnalysisError
from ..dcmodel import DCModel, DIALECTS_MOD, BASE_MOD
from ..effects import access_path
from ..rules import state as S
from ..rules.shape import key_effects

# common content of a table entry (property statement) and of a column entry
COMMON_TABLE = {"table_name", "schema", "columns", "primary_key", "checks", "index", "alter", "partitioned_by", "partition_by",
                "constraints", "tablespace"}
COMMON_COLUMN = {"name", "type", "size", "references", "unique", "nullable", "default", "check"}
# the 15 documented modes
MODES = {"sql", "redshift", "spark_sql", "mysql", "bigquery", "mssql", "databricks", "sqlite", "vertics", "ibm_db2", "postgres",
         "oracle", "hql", "snowflake", "athena"}
# reviewed exceptions: (function, operation, key) -> reason
MODE_EXCEPTIONS = {
    ("BigQuery.prepare_ref_statement", "del", "schema"): "documented rename schema -> dataset inside references (BigQuery mode)",
    ("update_bigquery_output", "del", "schema"): "documented rename schema -> dataset for non-table entities (BigQuery mode)",
    ("TableData.pre_load_mods", "del", "schema"): "documented rename schema -> dataset of the table entry (BigQuery mode)",
    ("Output.clean_up_index_statement", "del", "clustered"): "index entries keep `clustered` in MSSQL mode only (pinned by tests/test_indexes.py)",
}
HOOK_NAMES = {"post_process", "prepare_ref_statement", "to_dict", "__post_init__"}


def run(ck, ctx):
    m, cg = ctx.model, ctx.callgraph
    dc = ctx._get("dcmodel", lambda: DCModel(m))
    ck.explanation = (
        "E1 + dataclass-field model + E5. (T-FLAGFLOW) the parser and everything below parse_data never reads output_mode, which "
        "reaches only the mode validation and the Output constructor - so the mode cannot change what was parsed; (T-MODE.fields) "
        "for each of the 15 modes the table class is assembled symbolically (C3 MRO of the synthetic <Dialect>Dialect class, "
        "dataclass field overlay, @dialect / add_dialects metadata) and every common field keeps its BaseData definition and is "
        "not hidden by an output_modes list, every dialect-specific field carries an output_modes list of valid mode names; "
        "(T-MODE.filter) filter_out_output drops a field exactly under the four metadata rules; (T-MODE.partition) pre_load_mods "
        "splits the parse result exhaustively and disjointly into declared fields and table_properties; (T-MODE.hooks) code that "
        "runs only in some modes (overrides of the BaseData hooks in dialect classes, helpers they call, branches comparing the "
        "mode with a literal) writes / deletes no common table field or common column attribute other than the documented "
        "schema->dataset rename, and the in-place reference hook receives a per-column copy. (O-mode) Output.format is evaluated "
        "abstractly (object-capable interpreter) on a spread of the distinct tables produced by the columns+constraints fixed point in "
        "all 15 modes, and on the tables of the ten clause groups in the default, the owning and an unrelated mode: no mode raises, "
        "every common field equals the default mode's, dialect keys are at top level only in documented modes.")
    # ---- the mode table
    got = set(dc.dialect_by_name)
    ck.ob("T-MODE.table", "dialect_by_name = the 15 documented modes", got == MODES,
          f"missing {sorted(MODES - got)}, extra {sorted(got - MODES)}", f"{dc.dmod.path}")
    # ---- T-FLAGFLOW: the parse never sees the mode
    fam = S.parser_family_funcs(ctx)
    n_reads = 0
    for f, node in S.readers_of(ctx, "output_mode", fam):
        if isinstance(node, ast.Constant) and not S._const_is_key_use(f, node):
            continue
        n_reads += 1
        ok = f.qual == "Parser.run"
        ck.ob("T-FLAGFLOW.output_mode", f"output_mode read in {f.qual}", ok,
              "the parser (lexer rules, actions, line machine) must not consult the output mode: a mode may only filter presentation",
              f.loc(node))
    # what run() does with the mode - validate it, hand it to the formatter, return the formatter's result - is decided by evaluating it
    _check_run_modes(ck, ctx, dc)
    S.t_dom(ck, ctx, "run",
            lambda n: isinstance(n, ast.If) and "output_mode" in ast.unparse(n.test) and any(isinstance(x, ast.Raise) for x in ast.walk(n)),
            S.is_self_call("parse_data"), "Parser.run: mode validation dominates parse_data()",
            "an unknown mode is rejected before anything is parsed; a known mode never raises here")
    # ---- no process-wide state in the formatter (a cache keyed without the mode makes one mode's presentation leak into another)
    S.t_noglobal(ck, ctx, "C10")
    S.t_class_defaults(ck, ctx)
    # ---- T-MODE.fields
    base_fields = dc.dc_fields((BASE_MOD, "BaseData"))
    for mode in sorted(dc.dialect_by_name):
        name, mro, fields = dc.mode_class(mode)
        ck.count("mode_classes")
        ck.count("mode_class_fields", len(fields))
        for cf in sorted(COMMON_TABLE):
            fi = fields.get(cf)
            if fi is None:
                ck.ob("T-MODE.fields", f"{mode}: common field `{cf}` exists", False, f"class {name} has no field {cf}", "")
                continue
            b = base_fields[cf]
            modes = fi.metadata.get("output_modes")
            visible = modes is None or mode in modes
            same_excl = {k: v for k, v in fi.metadata.items() if k.startswith("exclude")} == \
                        {k: v for k, v in b.metadata.items() if k.startswith("exclude")}
            same_alias = fi.metadata.get("alias") == b.metadata.get("alias")
            ck.ob("T-MODE.fields", f"{mode}: common field `{cf}` is presented as in the default mode", visible and same_excl and same_alias,
                  f"defined by {fi.owner} with metadata {fi.metadata} (BaseData: {b.metadata}): the field would be hidden, renamed or "
                  f"filtered differently in mode {mode}", f"{fi.owner}.{cf}")
        if mode == "bigquery":
            ds = fields.get("dataset")
            ck.ob("T-MODE.fields", "bigquery: `dataset` replaces `schema` unconditionally", ds is not None and not
                  any(k.startswith("exclude") for k in ds.metadata) and "bigquery" in (ds.metadata.get("output_modes") or ["bigquery"]),
                  str(ds), "BigQuery.dataset")
    for key, fields in dc.own_fields.items():
        if key[0] != DIALECTS_MOD:
            continue
        for fi in fields:
            modes = fi.metadata.get("output_modes")
            ok = isinstance(modes, list) and bool(modes) and set(modes) <= MODES
            ck.ob("T-MODE.specific", f"{fi.owner}.{fi.name} carries a list of valid output modes", ok,
                  f"metadata {fi.metadata}: a dialect-specific field without a (valid) output_modes list is shown at top level in "
                  "modes it is not documented for", f"{fi.owner}.{fi.name}")
            if fi.name in COMMON_TABLE and not (fi.owner == "PostgreSQL" and fi.name == "partition_by"):
                ck.ob("T-MODE.specific", f"{fi.owner}.{fi.name} does not re-declare a common field", False,
                      "a dialect class re-declares a common field: its default / filtering differs from the default mode", f"{fi.owner}.{fi.name}")
    ck.floor("T-MODE.fields", 15 * len(COMMON_TABLE))
    ck.floor("T-MODE.specific", 40)
    # ---- the @dialect decorator and get_dialect_class are what the model assumes
    _check_decorator(ck, ctx, dc)
    # ---- T-MODE.filter
    _check_filter(ck, ctx)
    # ---- T-MODE.partition
    _check_partition(ck, ctx)
    # ---- T-MODE.hooks
    _check_hooks(ck, ctx, dc)
    # ---- the output layer evaluated abstractly in every mode on the tables of the fixed points
    from ..rules.fragments import run_fragments
    from ..specs.clauses import GROUPS
    jobs = [dict(module="table", label="constraints", only_rules={"O-mode", "O-final"},
                 build_kw=dict(tier=ck.tier, constraints=True, set_null=False, final=("modes",)))]
    jobs += [dict(module="clauses", only_rules={"O-mode", "O-final"}, build_kw=dict(group=g, tier=ck.tier, final=("modes",))) for g in GROUPS]
    run_fragments(ck, ctx, jobs)
    # ---- scripts with several ALTER / CREATE INDEX statements on one table, formatted in five modes: no mode turns the script into an
    # error, columns and index of the target equal the default mode's
    from ..specs.alter import check_sequences
    check_sequences(ck, ctx, rule="O-mode")
    ck.assumptions += ["dataclasses' field-collection rule (reverse MRO overlay) and Field.metadata semantics as in CPython 3.12",
                       "declined: deep equality of values across modes at run time; it follows from non-interference (T-FLAGFLOW) plus "
                       "the mode-specific code touching only non-common keys (T-MODE.hooks)"]


def _check_run_modes(ck, ctx, dc):
    """Parser.run evaluated abstractly (parse_data replaced by a given parser output) in every mode: it returns exactly what the
    formatter, constructed with that mode, returns for that parser output - however run() is written"""
    import copy
    from ..objabs import run_tail, format_output, ShapeMismatch
    from ..pyabs import W, PyRaise, Raised, LexUnknown, NonUniform, deep_eq

    def w(*xs):
        return W(list(xs) + list(xs)[: 6 - len(xs)])
    po = [{"table_name": w("t", "Orders", "x_1"), "schema": w("s", "Sales", "s_1"), "primary_key": None, "index": [], "partitioned_by": [], "tablespace": None,
           "checks": [], "stored_as": w("ORC", "parquet", "x"), "location": w("'/a'", "'/B/c'", "'x'"),
           "columns": [{"name": w("a", "Col", "c_1"), "type": w("int", "TEXT", "num_9"), "size": None, "references": None, "unique": False,
                        "primary_key": False, "nullable": True, "default": None, "check": None}]},
          {"schema": None, "sequence_name": w("s1", "Seq", "q_2"), "increment": 1}]
    for mode in sorted(dc.dialect_by_name):
        for grouped in (False, True):
            try:
                want = format_output(ctx, copy.deepcopy(po), mode, grouped)
                got, _d = run_tail(ctx, copy.deepcopy(po), output_mode=mode, group_by_type=grouped)
                try:
                    ok = deep_eq(got, want) and type(got) is type(want)
                except NonUniform:
                    ok = False
                detail = "" if ok else f"run() returns {got!r:.200}, the formatter {want!r:.200}"
            except (PyRaise, Raised) as e:
                ok, detail = False, f"raises {e}"
            except (LexUnknown, NonUniform, ShapeMismatch) as e:
                raise AnalysisError(f"Parser.run outside the interpreted subset (mode {mode}): {e}")
            ck.ob("T-FLAGFLOW.output_mode", f"run(output_mode={mode!r}, group_by_type={grouped}) returns the formatter's result for that mode", ok,
                  "in run() the mode is validated and handed to Output(...); the result is the formatter's" + ("" if ok else "; " + detail),
                  "Parser.run (evaluated abstractly)")


def _parent(root, node):
    for p in ast.walk(root):
        for c in ast.iter_child_nodes(p):
            if c is node:
                return p
    return None


def _check_decorator(ck, ctx, dc):
    """the @dialect(name) decorator evaluated (E3 interpreter) on every class it decorates - with the Field objects of the class
    body as abstract objects - and compared with what the dataclass-field model (dcmodel) assumes: __d_name__, and per field the
    output_modes list (an existing list extended, otherwise [name]); non-Field members untouched; however the decorator is written"""
    from ..pyabs import Interp, Obj, PyRaise, Raised, LexUnknown, NonUniform
    m = ctx.model
    f = dc.dmod.funcs.get("dialect")
    if f is None:
        raise AnalysisError("anchor vanished: the dialect() decorator")

    class _Dec(Interp):
        def builtin(self, name, args, kwargs):
            if name == "isinstance" and len(args) == 2 and isinstance(args[1], tuple) and args[1][:1] == ("ext",):
                if args[1][1] == "dataclasses.Field":
                    return isinstance(args[0], Obj) and getattr(args[0], "_kind", None) == "Field"
                raise LexUnknown(f"isinstance against {args[1][1]}")
            return super().builtin(name, args, kwargs)

    n = 0
    for key, c in m.classes.items():
        if not c.module.name.startswith("simple_ddl_parser.output"):
            continue
        decs = [(nm, call) for nm, call in dc._decorators(c) if nm == "dialect"]
        if not decs:
            continue
        (nm, call), = decs
        it = _Dec(m, ctx.grammar.tokens_ns, Obj())
        env = {"__module__": c.module}
        args = [it.ev(a_, env) for a_ in call.args]
        kwargs = {k.arg: it.ev(k.value, env) for k in call.keywords}
        # the class body as the decorator sees it: Field objects as the field() calls leave them, one method, one plain value
        before = {}
        cls_obj = Obj()
        for st in c.node.body:
            if isinstance(st, ast.AnnAssign) and isinstance(st.target, ast.Name):
                fi = dc._field(c, st)
                if fi.from_field_call:
                    md = {k_: (list(v_) if isinstance(v_, list) else v_) for k_, v_ in fi.metadata.items()}
                    before[fi.name] = md
                    setattr(cls_obj, fi.name, Obj(_kind="Field", metadata=md, default=None, default_factory=None))
        cls_obj.some_method = ("func", None)
        cls_obj.some_value = "v"
        try:
            wrapper = it.call_func(f, args, kwargs)
            if not (isinstance(wrapper, tuple) and wrapper[:1] == ("closure",)):
                raise LexUnknown(f"dialect(...) returns {wrapper!r}")
            res = it.call_closure(wrapper[1], wrapper[2], [cls_obj], {})
        except (PyRaise, Raised) as e:
            ck.ob("T-MODE.decorator", f"dialect() on {c.name}", False, f"the decorator raises: {e}", f.loc())
            continue
        except (LexUnknown, NonUniform) as e:
            raise AnalysisError(f"the dialect() decorator is outside the interpreted subset: {e}")
        want_name = dc.d_name[key]
        ok = res is cls_obj and getattr(cls_obj, "__d_name__", None) == want_name
        detail = "" if ok else f"returns {res!r}, __d_name__ = {getattr(cls_obj, '__d_name__', None)!r} (model: {want_name!r})"
        own = {fi.name: fi for fi in dc.own_fields[key]}
        for fname, md0 in before.items():
            fo = getattr(cls_obj, fname, None)
            got = getattr(fo, "metadata", None) if isinstance(fo, Obj) else None
            exp = dict(own[fname].metadata)
            if not (isinstance(got, dict) and {k_: (list(v_) if isinstance(v_, list) else v_) for k_, v_ in got.items()} == exp):
                ok, detail = False, f"field {fname}: metadata after the decorator {got!r}, the dataclass-field model assumes {exp!r}"
                break
        if ok and (cls_obj.some_method != ("func", None) or cls_obj.some_value != "v"):
            ok, detail = False, "a member that is not a Field object is changed"
        n += 1
        ck.ob("T-MODE.decorator", f"dialect() evaluated on {c.name}: __d_name__ and output_modes of {len(before)} fields", ok,
              detail or "as the dataclass-field model assumes", f.loc())
    if n < 5:
        raise AnalysisError(f"only {n} classes decorated with @dialect found")


def _check_filter(ck, ctx):
    """filter_out_output / to_dict evaluated abstractly (objabs) for every mode class, every field, provided and not provided,
    empty and non-empty, against the four documented metadata rules - however the two functions are written"""
    from ..objabs import ObjInterp
    from ..pyabs import PyRaise, LexUnknown, NonUniform
    m = ctx.model
    dc = ctx._get("dcmodel", lambda: DCModel(m))
    n = 0
    for mode in sorted(dc.dialect_by_name):
        if len([o for o in ck.obligations if not o.ok and o.rule == "T-MODE.filter"]) > 12:
            break           # enough witnesses
        _name, mro, fields = dc.mode_class(mode)
        it = ObjInterp(m, ctx.grammar.tokens_ns, dc)
        td = it.clsd(("simple_ddl_parser.output.table_data", "TableData"))
        try:
            cls = it.call_func(it.lookup(td, "get_dialect_class"), [{"output_mode": mode}], {}, self_obj=td)
            for provided in (True, False):
                kwargs = {"output_mode": mode, "table_name": "t", "columns": [], "init_data": {}}
                if provided:
                    for fn, fi in fields.items():
                        if fn in ("init_data", "output_mode", "columns", "table_name"):
                            continue
                        shape = fi.default_shape()
                        if fn in ("unique", "unique_statement", "ref_columns", "references", "constraints", "primary_key"):
                            kwargs[fn] = {} if shape == "dict" else []        # consumed by the key post-processing: keep them empty
                        else:
                            kwargs[fn] = {"k": 1} if shape == "dict" else (["x"] if shape == "list" else "v")
                        kwargs["init_data"][fn] = kwargs[fn]
                    kwargs["init_data"]["table_name"] = "t"
                    kwargs["primary_key"] = []
                inst = it.construct_inst(cls, [], dict(kwargs))
                out = it.call_func(it.lookup(inst.cls, "to_dict"), [], {}, self_obj=inst)
                for fn, fi in fields.items():
                    md = fi.metadata
                    val = inst.attrs.get(fn)
                    hide = md.get("exclude_always") is True
                    if not hide:
                        hide = (md.get("exclude_if_not_provided") is True and fn not in inst.attrs.get("init_data", {})) or \
                               (md.get("exclude_if_empty") is True and not val) or \
                               (isinstance(md.get("output_modes"), list) and mode not in md["output_modes"])
                    if mode == "bigquery" and fn == "schema":
                        hide = True
                    got = it.call_func(it.lookup(inst.cls, "filter_out_output"), [fn], {}, self_obj=inst)
                    key = md.get("alias", fn)
                    n += 1
                    if got is not (not hide) and not (mode == "bigquery" and fn == "schema"):
                        ck.ob("T-MODE.filter", f"{mode}: field `{fn}` ({'provided' if provided else 'not provided'}) shown={got}", False,
                              f"the documented rules (metadata {md}) say shown={not hide}", "BaseData.filter_out_output")
                    if (key in out) != (not hide):
                        ck.ob("T-MODE.filter", f"{mode}: to_dict {'emits' if key in out else 'omits'} `{key}` ({'provided' if provided else 'not provided'})", False,
                              f"the documented rules (metadata {md}) say shown={not hide}", "to_dict")
                    elif key in out and out[key] is not val and out[key] != val:
                        ck.ob("T-MODE.filter", f"{mode}: to_dict changes the value of `{key}`", False, f"{out[key]!r} vs {val!r}", "to_dict")
        except PyRaise as pr:
            ck.ob("T-MODE.filter", f"{mode}: building / emitting a table object raises", False, f"{type(pr.exc).__name__}: {pr.exc}", "TableData / to_dict")
        except (LexUnknown, NonUniform) as e:
            raise AnalysisError(f"output filter outside the interpreted subset (mode {mode}): {e}")
    ck.ob("T-MODE.filter", f"all {n} (mode, field, provided) combinations", True,
          "a field is shown unless exclude_always / exclude_if_not_provided and absent / exclude_if_empty and empty / output_modes excludes the mode",
          "BaseData.filter_out_output, to_dict (evaluated abstractly)")
    ck.count("filter_combinations_evaluated", n)


def _same_atoms(a, b):
    return sorted(a) == sorted(b)


def _check_partition(ck, ctx):
    """TableData.get_dialect_class / pre_load_mods evaluated abstractly (objabs) for every mode: the class the factory builds has
    exactly the fields of the dataclass-field model, and the parse result is split exhaustively and disjointly into declared
    fields and table_properties with values and letter-case folding as documented - however the two functions are written"""
    from ..objabs import ObjInterp, ClsD
    from ..pyabs import PyRaise, LexUnknown, NonUniform
    m = ctx.model
    dc = ctx._get("dcmodel", lambda: DCModel(m))
    key = ("simple_ddl_parser.output.table_data", "TableData")
    if key not in m.classes:
        raise AnalysisError("anchor vanished: class TableData")
    for mode in sorted(dc.dialect_by_name):
        it = ObjInterp(m, ctx.grammar.tokens_ns, dc)
        td = it.clsd(key)
        try:
            main_cls = it.call_func(it.lookup(td, "get_dialect_class"), [{"output_mode": mode}], {}, self_obj=td)
            _n, _mro, fields = dc.mode_class(mode)
            got_fields = list(main_cls.fields) if isinstance(main_cls, ClsD) and main_cls.fields is not None else None
            ck.ob("T-MODE.class", f"{mode}: the table class built by get_dialect_class has the modelled fields", got_fields == list(fields),
                  f"factory gives {got_fields and len(got_fields)} fields, the dataclass-field model {len(fields)}", "TableData.get_dialect_class")
            if got_fields is None:
                continue
            kwargs = {"output_mode": mode, "Unknown_Key": "u1", "STORED_as_x": "u2"}
            for n, fi in fields.items():
                if n in ("init_data", "table_properties", "output_mode", "dataset") or "alias" in fi.metadata:
                    continue
                kwargs[n if n != "tablespace" else "TABLESPACE"] = f"v:{n}"
            alias = {fi.metadata["alias"]: n for n, fi in fields.items() if "alias" in fi.metadata}
            for a in alias:
                kwargs[a] = f"v:alias:{a}"
            src = dict(kwargs)
            res = it.call_func(it.lookup(td, "pre_load_mods"), [main_cls, kwargs], {}, self_obj=td)
        except PyRaise as pr:
            ck.ob("T-MODE.partition", f"{mode}: pre_load_mods raises", False, f"{type(pr.exc).__name__}: {pr.exc}", "TableData.pre_load_mods")
            continue
        except (LexUnknown, NonUniform) as e:
            raise AnalysisError(f"TableData.pre_load_mods outside the interpreted subset: {e}")
        problem = None
        if not isinstance(res, dict) or not isinstance(res.get("table_properties"), dict) or not isinstance(res.get("init_data"), dict):
            problem = f"result is not the kwargs dict with table_properties / init_data: {str(res)[:120]}"
        else:
            props = res["table_properties"]
            for k, v in src.items():
                lk = alias.get(k, k).lower() if k not in alias else alias[k]
                if mode == "bigquery" and k == "schema":
                    lk = "dataset"
                is_field = lk in fields
                at_top = lk in res and lk not in ("table_properties", "init_data")
                in_props = lk in props
                if is_field and not (at_top and not in_props and res[lk] == v):
                    problem = f"declared field `{lk}` (from key {k!r}) is not passed to the class exactly once with its value"
                if not is_field and not (in_props and not at_top and props[lk] == v):
                    problem = f"undeclared key {k!r} is not kept under table_properties[{lk!r}] with its value"
                if problem:
                    break
            if problem is None:
                extra = [k for k in res if k not in ("table_properties", "init_data") and k not in fields]
                if extra:
                    problem = f"keys that are not fields are passed to the class: {extra}"
            if problem is None and set(res["init_data"]) != (set(res) - {"table_properties", "init_data"}) | set(props):
                problem = "init_data is not the union of the declared fields and the table properties that were provided"
        ck.ob("T-MODE.partition", f"{mode}: the parse result is split into declared fields and table_properties, exhaustively and disjointly",
              problem is None, problem or "every key exactly once, values preserved, keys lower-cased, aliases resolved", "TableData.pre_load_mods")


def _mode_specific_functions(ctx, dc):
    """overrides of the BaseData hooks in classes of output/dialects.py, every method they call on self, and module functions
    registered per mode"""
    m, cg = ctx.model, ctx.callgraph
    out = []
    for key, c in m.classes.items():
        if key[0] != DIALECTS_MOD:
            continue
        for name, f in c.methods.items():
            out.append(f)          # every method of a dialect class runs only in the modes using that class
    for name, f in dc.dmod.funcs.items():
        if name.startswith("update_") and name.endswith("_output"):
            out.append(f)
    return out


def _check_hooks(ck, ctx, dc):
    m = ctx.model
    funcs = _mode_specific_functions(ctx, dc)
    ck.count("mode_specific_functions", len(funcs))
    n = 0
    for f in funcs:
        if f.name == "to_dict" or f.name == "dialect" or f.name == "add_dialects":
            continue
        for ke in key_effects(f.node):
            if ke.op == "setattr":
                if ke.recv == "self":
                    n += 1
                    ck.ob("T-MODE.hooks", f"{f.qual}: self.{ke.key} = ...", ke.key not in COMMON_TABLE,
                          "mode-specific code re-binds a common table field", f.loc(ke.node))
                continue
            key = ke.key
            bad = False
            why = ""
            if ke.op in ("update-dynamic", "clear"):
                bad, why = True, f"{ke.op} on {ke.recv}: the keys touched are not known statically"
            elif key in COMMON_COLUMN or key in COMMON_TABLE:
                bad, why = True, f"{ke.op} of common key {key!r} on {ke.recv}"
            exc = MODE_EXCEPTIONS.get((f.qual, "del" if ke.op in ("del", "pop") else ke.op, key))
            n += 1
            ck.ob("T-MODE.hooks", f"{f.qual}: {ke.op} {ke.recv}[{key!r}]", (not bad) or exc is not None,
                  (f"reviewed exception: {exc}" if exc else why) or "touches only dialect-specific keys", f.loc(ke.node))
    # branches on a literal mode outside the dialect classes
    lit_sites = 0
    for f in m.all_funcs():
        if not f.module.name.startswith("simple_ddl_parser.output") and f.qual != "Parser.run":
            continue
        if f.module.name == DIALECTS_MOD and f.cls:
            continue
        for n_if in ast.walk(f.node):
            if not isinstance(n_if, ast.If):
                continue
            t = ast.unparse(n_if.test)
            if "output_mode" not in t or not any(isinstance(x, ast.Constant) and isinstance(x.value, str) and x.value in MODES for x in ast.walk(n_if.test)):
                continue
            lit_sites += 1
            sub = ast.Module(body=n_if.body + n_if.orelse, type_ignores=[])
            for ke in key_effects(sub):
                if ke.op == "setattr":
                    ok = not (ke.recv == "self" and ke.key in COMMON_TABLE)
                    ck.ob("T-MODE.literal", f"{f.qual}: under `{t}`: {ke.recv}.{ke.key} = ...", ok, "", f.loc(ke.node))
                    continue
                op = "del" if ke.op in ("del", "pop") else ke.op
                bad = ke.op in ("update-dynamic", "clear") or ke.key in COMMON_COLUMN or ke.key in COMMON_TABLE
                exc = MODE_EXCEPTIONS.get((f.qual, op, ke.key))
                if op == "store" and ke.key == "dataset" and f.qual == "TableData.pre_load_mods":
                    bad = False
                ck.ob("T-MODE.literal", f"{f.qual}: under `{t}`: {ke.op} {ke.recv}[{ke.key!r}]", (not bad) or exc is not None,
                      f"reviewed exception: {exc}" if exc else "a branch taken only in some modes changes common content", f.loc(ke.node))
            for x in ast.walk(sub):
                if isinstance(x, ast.Raise):
                    ck.ob("T-MODE.literal", f"{f.qual}: raise under `{t}`", False,
                          "a mode must never turn a successful parse into an error", f.loc(x))
    ck.floor("T-MODE.hooks", 6)
    ck.ob("T-MODE.literal", f"{lit_sites} literal-mode branches scanned", lit_sites >= 3,
          "Output.__init__ (schema_key), clean_up_index_statement (mssql), pre_load_mods (bigquery), get_dialect_class (sql)", "")
    # the BigQuery rename of the table entry happens exactly once and only renames
    plm = m.func("simple_ddl_parser.output.table_data:TableData.pre_load_mods")
    kes = key_effects(plm.node)
    stores = [ke for ke in kes if ke.op in ("store", "update") and ke.key == "dataset"]
    drops = [ke for ke in kes if ke.op in ("del", "pop") and ke.key == "schema"]

    def _reads_schema(ke):
        v = getattr(ke.stmt, "value", None) if ke.stmt is not None else ke.node
        return v is not None and any(isinstance(c, ast.Constant) and c.value == "schema" for c in ast.walk(v))
    ck.ob("T-MODE.rename", "pre_load_mods: the value under 'schema' moves to 'dataset' and 'schema' is removed (one receiver) under bigquery",
          any(st.recv == dr.recv and _reads_schema(st) for st in stores for dr in drops),
          "key effects of the function: a store of 'dataset' whose value reads 'schema', and a del / pop of 'schema', on the same dict "
          "(the resulting output is judged per mode by O-mode)", plm.loc())
    # in-place hook on a per-column copy
    bd = m.func(f"{BASE_MOD}:BaseData.create_alter_column_references")
    calls = [n for n in ast.walk(bd.node) if S.is_self_call("prepare_ref_statement")(n)]
    if not calls:
        raise AnalysisError("anchor vanished: prepare_ref_statement call in create_alter_column_references")
    for call in calls:
        arg = ast.unparse(call.args[0]) if call.args else "?"
        fresh = False
        for st in bd.node.body:
            if st is S.stmt_of(bd, call):
                break
            if isinstance(st, ast.Assign) and ast.unparse(st.targets[0]) == arg and isinstance(st.value, ast.Call) \
                    and ast.unparse(st.value.func) in ("deepcopy", "copy.deepcopy"):
                fresh = True
        ck.ob("T-MODE.shared-arg", f"BaseData.create_alter_column_references:prepare_ref_statement({'ref_statement' if not fresh and arg == 'ref_statement' else arg})",
              fresh, "the mode hook mutates its argument in place (BigQuery deletes `schema`): it must receive the per-column deep copy, "
              "not the references dict shared by all columns of the statement", bd.loc(call))
    # overridden hooks keep BaseData's processing: CommonDialectsFieldsMixin.__post_init__ calls super().__post_init__() first
    mix = m.func(f"{DIALECTS_MOD}:CommonDialectsFieldsMixin.__post_init__")
    chained = [st for st in mix.node.body if isinstance(st, ast.Expr) and isinstance(st.value, ast.Call)
               and isinstance(st.value.func, ast.Attribute) and st.value.func.attr == "__post_init__"
               and (ast.unparse(st.value.func.value).startswith("super(") or ast.unparse(st.value.func.value) in ("BaseData", "Dialect"))]
    ck.ob("T-MODE.hooks", "CommonDialectsFieldsMixin.__post_init__ runs BaseData.__post_init__ unconditionally",
          bool(chained), "key collection / unique propagation must run in every mode (a top-level call of the inherited __post_init__)", mix.loc())
    for key, c in m.classes.items():
        if key[0] != DIALECTS_MOD:
            continue
        for hook in ("set_unique_columns", "populate_keys", "normalize_ref_columns_in_final_output", "filter_out_output",
                     "get_pk_from_columns_and_constraints", "remove_pk_from_columns", "add_unique_columns", "set_column_unique_param",
                     "append_statement_information_to_table", "prepare_alter_columns", "get_alias_if_exists"):
            if hook in c.methods:
                ck.ob("T-MODE.hooks", f"{c.name} overrides common processing step {hook}", False,
                      "a mode-specific override of common post-processing changes common content in that mode", c.methods[hook].loc())
