"""C09 - parameterised and nested types stay whole (DESIGN 4, C09)."""
from ..rules import state as S
from ..rules.fragments import run_fragment


def run(ck, ctx):
    ck.level = "model_checking"
    ck.explanation = (
        "E3 x E4, fragment *types*: between a plain column and a following plain column, a column whose type is any of: plain, (n), "
        "(p,s), (max), (n CHAR), (*,s), a [] suffix word, two words (optionally sized), schema.type, or an angle-bracket type given as "
        "the word sequence it has after comma spacing - opening words with one or two `<`, element words, inner commas, mixed words "
        "(`b:ARRAY<INT>`, `b:ARRAY<INT>>`), closing words with one or two `>`, bare `>` / `>>` - in every admissible order up to "
        "nesting depth 3 (quick) / 6 (thorough), followed by any sequence of NOT NULL / DEFAULT n / COMMENT 's'. O-accept; O-segment; "
        "O-value: the column is reported once, under its name, with ONE type string containing every word of the type in order with "
        "balanced brackets (spacing not decided) and the size as given; the options land on that column; the table's column list is "
        "exactly [previous, this, next]. Inner commas are typed COMMAT and the nesting counter returns to 0 (otherwise the following "
        "column separator would be mis-typed - which the fixed point would show). E5: the counter and the CHECK flag that disables "
        "bracket handling are reset before every statement on every route to the parser.")
    S.t_reset_lexer(ck, ctx, only={"lt_open", "check", "lp_open", "columns_def", "after_columns", "last_token", "last_par", "is_table"})
    ck.floor("T-RESET.lexer", 6)
    from ..specs.lines import check_reset_before_parse
    check_reset_before_parse(ck, ctx,
            "Parser.process_line: flag reset dominates process_statement()",
            "the bracket counter and the CHECK flag must not survive into the next statement")
    ex = run_fragment(ck, ctx, "types", tier=ck.tier)
    ck.assumptions += ["words are separated as pre_process_data intends (commas spaced, angle brackets not)",
                       "the exact text of the type string (spacing inside <...>) is not decided"]
