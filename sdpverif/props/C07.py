"""C07 - literals exactly as written (narrow claim; DESIGN 4, C07)."""
import ast

from ..cfg import guard_atoms
from ..core import AnalysisError
from ..rules import state as S
from ..rules import case as K
from ..rules.fragments import run_fragments
from ..specs.clauses import GROUPS

TRANSFORMS = {"split", "rsplit", "replace", "strip", "lstrip", "rstrip", "upper", "lower", "title", "capitalize", "swapcase", "partition"}
STRING_SYMS = {"STRING", "STRING_BASE", "id_or_string"}


def run(ck, ctx):
    m, gm = ctx.model, ctx.grammar
    ck.level = "model_checking"
    ck.explanation = (
        "Narrow, code-shaped claim. (1) Purely numeric defaults become integers: the int() conversion in the DEFAULT action is "
        "control-dependent on exactly `default.isnumeric()` (no further condition), and the core-column fixed point evaluates it on "
        "numbers including 0 and leading zeros. (2) String tokens: the literal positions of the fragments - DEFAULT 's', COMMENT "
        "'s', ENUM values, schema comments, string-valued dialect options (LOCATION, TBLPROPERTIES, COMMENT =, WITH TAG, OPTIONS ...) "
        "with exemplars that contain blanks, ` = `, ` . `, slashes and dots - are evaluated abstractly through lexer, grammar "
        "actions and (for entities) the output layer and must come back with exactly the characters written (O-value / O-final). "
        "(3) T-FLOW.string: no action applies a splitting / replacing / re-casing string method directly to a production position "
        "that can hold a string literal. NOT decided: everything the line pre-processor (pre_process_data, process_in_comment, the "
        "quote-parity tricks) does to the characters of a literal - commas, parentheses, comment markers, semicolons, non-ASCII "
        "letters inside literals - that is run-time string rewriting by regexes.")
    # (1)
    pd = m.parser_method("p_default")
    conv = [n for n in ast.walk(pd.node) if isinstance(n, ast.Assign) and isinstance(n.value, ast.Call)
            and isinstance(n.value.func, ast.Name) and n.value.func.id == "int"]
    if not conv:
        # the conversion was moved (a helper, another expression form): nothing structural to say - the values themselves are decided
        # below, by the core-column fixed point on numbers incl. 0, leading zeros and long numbers (O-value / O-uniform)
        ck.note("T-NUMERIC: no `x = int(x)` statement in p_default; the numeric defaults are decided by the core-column fixed point alone")
    for n in conv:
        atoms = guard_atoms(pd.node, n)
        tgt = ast.unparse(n.targets[0])
        # (the values themselves - 0, leading zeros, long numbers - are decided by the core-column fixed point; here: the conversion is
        # of the default itself and hangs on a test of the default's own text, whatever predicate is used)
        ok = bool(atoms) and all(tgt in a for a, _pol in atoms) and bool(n.value.args) and ast.unparse(n.value.args[0]) == tgt
        ck.ob("T-NUMERIC", f"BaseSQL.p_default: {ast.unparse(n)} under a test of {tgt} only", ok,
              f"guards found: {atoms}: a purely numeric default must be reported as the integer of the same value, whatever its "
              "length or leading zeros", pd.loc(n))
    # (2) fragments with literal positions
    jobs = [dict(module="table", label="core-column", only_rules={"O-value", "O-uniform"}, build_kw=dict(tier=ck.tier, constraints=False, set_null=False))]
    jobs += [dict(module="clauses", only_rules={"O-value", "O-uniform"}, build_kw=dict(group=g, tier=ck.tier)) for g in GROUPS]
    jobs += [dict(module="entities", only_rules={"O-final"}, build_kw=dict(tier=ck.tier))]
    run_fragments(ck, ctx, jobs)
    # string-token lexer rules leave the value untouched
    for rule in ("t_STRING_BASE", "t_DQ_STRING"):
        f = m.parser_method(rule)
        stores = [n for n in ast.walk(f.node) if isinstance(n, ast.Assign) and any(
            isinstance(t, ast.Attribute) and t.attr == "value" for t in n.targets)]
        calls = [n for n in ast.walk(f.node) if S.is_self_call("capitalize_tokens")(n)]
        ck.ob("T-STRTOKEN", f"{f.qual} does not modify the token value", not stores and not calls,
              "the characters between and including the quotes are the literal", f.loc())
    # (3) T-FLOW.string
    methods = m.parser_methods()
    n_sites = 0
    for name, f in methods.items():
        if not name.startswith("p_") or name == "p_error" or name not in gm.func_of:
            continue
        alts = gm.alternatives(name)
        plists = K.plist_vars(f)
        for node in ast.walk(f.node):
            if not (isinstance(node, ast.Call) and isinstance(node.func, ast.Attribute) and node.func.attr in TRANSFORMS):
                continue
            recv = node.func.value
            if not (isinstance(recv, ast.Subscript) and isinstance(recv.value, ast.Name) and recv.value.id in plists):
                continue
            try:
                idx = ast.literal_eval(recv.slice)
            except Exception:
                continue
            if not isinstance(idx, int):
                continue
            st = S.stmt_of(f, node)
            atoms = guard_atoms(f.node, st) if st is not None else []
            pl = plists[recv.value.id]
            hit = None
            for lhs, rhs in K.feasible(alts, atoms, plists):
                sym = K.symbols_at(rhs, pl, idx)
                if sym in STRING_SYMS:
                    hit = (lhs, rhs, sym)
                    break
            n_sites += 1
            if node.func.attr in ("upper", "lower") and isinstance(_parent(f.node, node), ast.Compare):
                continue            # normalising for a comparison does not change the reported value
            ck.ob("T-FLOW.string", f"{f.qual}: {ast.unparse(node)[:60]}", hit is None,
                  (f"in `{hit[0]} -> {' '.join(hit[1])}` this position holds a string literal ({hit[2]}): `.{node.func.attr}()` rewrites "
                   "the characters of the literal" if hit else "the position never holds a string literal"), f.loc(node))
    ck.count("string_method_sites_on_production_positions", n_sites)
    # ---- E7: the characters of a literal through the line pre-processing (pre_process_data, line formation, line machine)
    from ..specs import lines as L
    L.check_literals(ck, ctx)
    ck.floor("O-literal", 20)
    ck.assumptions += ["the pre-processing of literals is decided at class level (E7): 25 classes of literal content (one feature each: blanks, "
                       "comma, parentheses, equals, semicolon, comment markers, hash, keywords, statement words, non-ASCII, doubled quote, "
                       "double quotes, dot, colon / slash, tab, digits) in four positions; combinations of features and other positions are "
                       "not explored",
                       "after the pre-processing a whole quoted literal is one word for the lexer (decided by the fragments above)"]


def _parent(root, node):
    for p in ast.walk(root):
        for c in ast.iter_child_nodes(p):
            if c is node:
                return p
    return None
