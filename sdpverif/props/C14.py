"""C14 - run() deterministic, repeatable, side-effect free (DESIGN 4, C14)."""
import ast

from ..rules import state as S
from ..effects import access_path, MUTATORS


def run(ck, ctx):
    m = ctx.model
    ck.explanation = (
        "E1 + E5: interprocedural read-before-write analysis of the Parser object from run() (T-RESET b): no attribute "
        "changed during a run is read or mutated in place before it is assigned in the same run; objects that escape "
        "into the result are bound to fresh objects (T-FRESH); Output / table objects are constructed per run; no "
        "mutable class-level default in the output classes; set-typed values are used order-insensitively (T-SETORD, "
        "hash-seed independence); file-creating calls sit only under the dump / log_file guards (T-FILE); the entry "
        "points do not mutate their arguments; no process-global state (T-NOGLOBAL).")
    written, exposed = S.t_reset_parser(ck, ctx)
    ck.floor("T-RESET.parser", 8)
    S.t_fresh_escaping(ck, ctx)
    ck.floor("T-FRESH", 2)
    # Output constructed inside run(), not cached on self
    run_f = m.parser_method("run")
    ctor = [n for n in ast.walk(run_f.node) if isinstance(n, ast.Call) and isinstance(n.func, ast.Name) and n.func.id == "Output"]
    ck.ob("T-FRESH.output", "Parser.run constructs Output(...) per call", len(ctor) >= 1,
          "the formatter (and its table registry) must be created anew by every run()", run_f.loc())
    for f in S.parser_family_funcs(ctx):
        for n in ast.walk(f.node):
            if isinstance(n, ast.Assign) and isinstance(n.value, ast.Call) and isinstance(n.value.func, ast.Name) \
                    and n.value.func.id in ("Output", "TableData"):
                ck.ob("T-FRESH.output", f"{f.qual}: {ast.unparse(n.targets[0])} = {n.value.func.id}(...)", False,
                      "formatter / table object cached on the parser object", f.loc(n))
    out_init = m.func("simple_ddl_parser.output.core:Output.__init__")
    for attr in ("final_result", "tables_dict"):
        ok = any(isinstance(n, ast.Assign) and any(access_path(t) == f"self.{attr}" for t in n.targets if isinstance(t, ast.Attribute))
                 and ((isinstance(n.value, (ast.List, ast.Dict)) and not (getattr(n.value, "elts", None) or getattr(n.value, "keys", None)))
                      or (isinstance(n.value, ast.Call) and isinstance(n.value.func, ast.Name) and n.value.func.id in ("list", "dict", "OrderedDict", "defaultdict")
                          and not n.value.args and not n.value.keywords))
                 for n in ast.walk(out_init.node))
        ck.ob("T-FRESH.output", f"Output.__init__: self.{attr} starts empty", ok,
              "per-run accumulator must start from an empty literal", out_init.loc())
    S.t_class_defaults(ck, ctx)
    ck.floor("T-SHARED-DEFAULT", 20)
    # the lexer object is long-lived: its flags must be reset on every route to the parser, or a statement aborted in one
    # run() leaves them dirty for the first statement of the next run()
    S.t_reset_lexer(ck, ctx)
    from ..specs.lines import check_reset_before_parse
    check_reset_before_parse(ck, ctx,
            "Parser.process_line: flag reset dominates process_statement()",
            "every path that parses a statement must first put the lexer into its start state")
    S.t_noglobal(ck, ctx, "C14")
    # a module-level container of mutable objects must not flow into a parse result (it would be shared by every run / object)
    S.t_alias(ck, ctx, list(S.run_reachable(ctx)))
    # hash-seed independence
    n = S.t_setord(ck, ctx, [f for f in m.all_funcs()])
    ck.ob("T-SETORD", f"package scanned for order-sensitive uses of set values ({n} set uses)", True, "", "")
    tokens_set_tables(ck, ctx)
    # files
    S.t_file(ck, ctx, {
        "dump_data_to_file": ("Parser.run", "dump", False),
        "set_logging_config": ("Parser.__init__", "log_file", True),
    })
    ck.floor("T-FILE", 3)
    ck.floor("T-FILE.guard", 3)
    # arguments are not mutated
    for fid in ("simple_ddl_parser.parser:Parser.__init__", "simple_ddl_parser.parser:Parser.run",
                "simple_ddl_parser.ddl_parser:parse_from_file"):
        f = m.func(fid)
        params = [p for p in f.params if p not in ("self",)]
        va = f.node.args.vararg.arg if f.node.args.vararg else None
        kw = f.node.args.kwarg.arg if f.node.args.kwarg else None
        params += [x for x in (va, kw) if x]
        bad = []
        for n in ast.walk(f.node):
            if isinstance(n, ast.Call) and isinstance(n.func, ast.Attribute) and n.func.attr in MUTATORS \
                    and isinstance(n.func.value, ast.Name) and n.func.value.id in params:
                bad.append(n)
            if isinstance(n, (ast.Assign, ast.Delete)):
                for t in (n.targets):
                    if isinstance(t, ast.Subscript) and isinstance(t.value, ast.Name) and t.value.id in params:
                        bad.append(n)
        ck.ob("T-ARGS", f"{f.qual} does not mutate its arguments", not bad,
              "; ".join(ast.unparse(b)[:60] for b in bad), f.loc(bad[0]) if bad else f.loc())
    ck.assumptions += ["PLY is deterministic and keeps no state between parse() calls other than the lexer object reset by "
                       "the per-statement flag reset (C03)", "json / dataclasses / int are deterministic",
                       "PLY may rewrite simple_ddl_parser/parsetab.py inside the package directory when the cache is stale (C20); "
                       "that is not the working or dump directory"]


def tokens_set_tables(ck, ctx):
    """tokens.py builds its keyword tables from set literals; every use of those tables in the package must be
    order-insensitive (.get / membership), and the token tuple is consumed by PLY, which sorts it."""
    m = ctx.model
    tm = m.modules["simple_ddl_parser.tokens"]
    set_derived = set()
    for st in tm.tree.body:
        if isinstance(st, ast.Assign) and isinstance(st.targets[0], ast.Name):
            nm = st.targets[0].id
            if isinstance(st.value, (ast.Set, ast.SetComp)):
                set_derived.add(nm)
            elif isinstance(st.value, ast.DictComp) and isinstance(st.value.generators[0].iter, ast.Name) \
                    and st.value.generators[0].iter.id in set_derived:
                set_derived.add(nm)
            elif isinstance(st.value, ast.Call) and isinstance(st.value.func, ast.Name) and st.value.func.id in ("tuple", "list") \
                    and st.value.args and isinstance(st.value.args[0], (ast.Set, ast.SetComp)):
                set_derived.add(nm)
    for f in m.all_funcs():
        parents = {}
        for p in ast.walk(f.node):
            for c in ast.iter_child_nodes(p):
                parents[id(c)] = p
        for n in ast.walk(f.node):
            if isinstance(n, ast.Attribute) and n.attr in set_derived and isinstance(n.value, ast.Name):
                r = m.resolve_symbol(f.module, n.value.id)
                if not (r and r[0] == "module" and r[1] == "simple_ddl_parser.tokens"):
                    continue
                par = parents.get(id(n))
                ok = (isinstance(par, ast.Attribute) and par.attr == "get") or isinstance(par, ast.Compare)
                ck.ob("T-SETORD.tokens", f"{f.qual}:tok.{n.attr} used by {type(par).__name__}"
                      + (f".{par.attr}" if isinstance(par, ast.Attribute) else ""), ok,
                      "keyword tables are built from sets: only .get()/membership are independent of the hash seed",
                      f.loc(n))
    # the token tuple: only use is the class attribute DDLParser.tokens (PLY sorts it: ParserReflect.get_tokens / lex)
    for c in m.classes.values():
        for name, (_a, val, node) in c.attrs.items():
            if val is not None and isinstance(val, ast.Attribute) and val.attr == "tokens":
                ck.ob("T-SETORD.tokens", f"{c.name}.{name} = tok.tokens (consumed by PLY, which sorts)", name == "tokens",
                      "the unordered token tuple may only be handed to PLY", f"{c.module.path}:{node.lineno}")
