"""C16 - silent skips, silent=False raises DDLParserError (DESIGN 4, C16)."""
import ast

from ..core import AnalysisError
from ..cfg import guard_atoms
from ..rules import state as S


def run(ck, ctx):
    m = ctx.model
    ck.explanation = (
        "E1 + E5: T-RAISEGATE over every raise statement reachable from run() (including the t_*/p_* methods PLY calls): "
        "allowed only in the two places the properties require (unknown output_mode; ALTER/INDEX on an unknown table) or "
        "control-dependent on `not self.silent`; T-FLAGFLOW: `silent` is read only to gate a raise, so results cannot differ "
        "when nothing is raised; exception class table; the unknown-mode test dominates parsing and names the valid modes; "
        "p_error raises DDLParserError and does nothing else. E3 x E4 (O-accept / O-raise): on every derivation of the core-column, "
        "sequence and dialect-clause fragments the parser always has an action, the lexer never meets an unknown symbol and no "
        "semantic action raises - so supported DDL of these fragments reaches neither error hook, whatever `silent` is.")
    n = S.t_raisegate(ck, ctx, {
        "Parser.run": "unknown output_mode must raise SimpleDDLParserException (C16)",
        "Output.get_table_from_tables_data": "ALTER / CREATE INDEX naming an undefined table must raise (C04)",
    })
    ck.floor("T-RAISEGATE", 3)
    # `silent` is used only as `if not self.silent: raise ...` (so results cannot differ when nothing is raised)
    nread = 0
    for f, node in S.readers_of(ctx, "silent", list(m.all_funcs())):
        if not isinstance(node, (ast.Attribute, ast.Name)):
            continue
        if f.qual == "Parser.__init__":
            continue           # the constructor stores the setting
        nread += 1
        # who may read the flag: the two PLY error hooks (what they do with it is decided by evaluating them: O-silent)
        ok = f.name in ("p_error", "t_error", "parse_statement")
        ck.ob("T-FLAGFLOW.silent", f"{f.qual}: silent is read by an error hook / the statement driver only", ok,
              "`silent` selects between raising and skipping in the error hooks; read anywhere else it could select between two results",
              f.loc(node))
    ck.floor("T-FLAGFLOW.silent", 1)
    init = m.parser_method("__init__")
    from ..linemodel import LineMachine
    stores = [n for g in LineMachine(ctx).init_funcs for n in ast.walk(g.node) if isinstance(n, ast.Assign) and any(
        isinstance(t, ast.Attribute) and t.attr == "silent" for t in n.targets)]
    ck.ob("T-FLAGFLOW.silent", "the constructor stores the silent setting", len(stores) >= 1, "", init.loc())
    # exception classes
    err = m.classes.get(("simple_ddl_parser.ddl_parser", "DDLParserError"))
    base = ("simple_ddl_parser.exception", "SimpleDDLParserException")
    if err is None or base not in m.classes:
        raise AnalysisError("anchor vanished: DDLParserError / SimpleDDLParserException")
    ck.ob("T-EXC", "DDLParserError subclasses SimpleDDLParserException", base in m.mro(err.key),
          "documented exception hierarchy", f"{err.module.path}:{err.node.lineno}")
    bases = [ast.unparse(b) for b in m.classes[base].node.bases]
    ck.ob("T-EXC", "SimpleDDLParserException subclasses Exception", bases == ["Exception"], str(bases),
          f"{m.classes[base].module.path}:{m.classes[base].node.lineno}")
    # (what p_error / t_error raise, that p_error tolerates p=None and that neither has another effect is decided by evaluating the hooks:
    # O-silent, check_error_hooks)
    # unknown output_mode: run() evaluated abstractly
    _check_unknown_mode(ck, ctx)
    run_f = m.parser_method("run")
    # dialect_by_name is the table of output/dialects.py
    r = m.resolve_symbol(run_f.module, "dialect_by_name")
    ck.ob("T-MODE-CHECK", "dialect_by_name resolves to output/dialects.py", bool(r) and r[0] == "value" and r[1].name == "simple_ddl_parser.output.dialects",
          str(r), run_f.loc())
    # supported DDL never reaches the error hooks: no missing parser action, no unknown symbol, no raising action on any
    # derivation of the core fragments (the fragments with recorded known findings are judged by their own properties)
    from ..rules.fragments import run_fragments
    from ..specs.clauses import GROUPS
    jobs = [dict(module="table", label="core-column", only_rules={"O-accept", "O-raise"}, build_kw=dict(tier=ck.tier, constraints=False, set_null=False)),
            dict(module="sequence", only_rules={"O-accept", "O-raise"}, build_kw=dict(tier=ck.tier))]
    jobs += [dict(module="clauses", only_rules={"O-accept", "O-raise"}, build_kw=dict(group=g, tier=ck.tier)) for g in GROUPS if g != "oracle"]
    run_fragments(ck, ctx, jobs)
    # ---- E7: the line pre-processing itself never raises (whatever the line)
    from ..specs.lines import check_no_raise, check_silent, check_error_hooks
    check_no_raise(ck, ctx)
    ck.floor("O-noraise", 40)
    # ---- silent mode, semantically: the statement driver with the LALR call stubbed, and the two PLY error hooks
    check_silent(ck, ctx)
    check_error_hooks(ck, ctx)
    ck.floor("O-silent", 12)
    ck.assumptions += ["PLY calls p_error exactly when an action-table entry is missing and t_error exactly when no lexer rule matches",
                       "exceptions thrown by actions on malformed values (int('abc'), KeyError) are declined (DESIGN 4 C16)"]


def _check_unknown_mode(ck, ctx):
    """Parser.run evaluated abstractly (objabs) with parse_data replaced by a recorder: for a mode that is not in dialect_by_name it
    raises the package's SimpleDDLParserException, naming every valid mode, before anything is parsed; for every valid mode it does not"""
    from ..objabs import run_tail, ShapeMismatch
    from ..dcmodel import DCModel
    from ..pyabs import PyRaise, Raised, LexUnknown, NonUniform
    m = ctx.model
    dc = ctx._get("dcmodel", lambda: DCModel(m))
    valid = sorted(dc.dialect_by_name)
    import copy
    table = {"table_name": "t", "schema": None, "primary_key": None, "index": [], "partitioned_by": [], "tablespace": None, "checks": [],
             "columns": [{"name": "a", "type": "int", "size": None, "references": None, "unique": False, "primary_key": False, "nullable": True,
                          "default": None, "check": None}]}
    # whatever the script yields: nothing, entities that are not tables, a table (the mode is validated, not merely looked up where a
    # table happens to need its dialect class)
    scripts = {"nothing parsed": [], "a sequence only": [{"schema": None, "sequence_name": "sq", "increment": 1}],
               "a type and a schema": [{"schema": None, "type_name": "ty", "base_type": "ENUM", "properties": {"values": ["'a'"]}}, {"schema_name": "sc"}],
               "a table": [table]}
    for mode, script in [(mo, sc) for mo in ("no_such_mode", "SQL", "", "postgresql") for sc in scripts]:
        if mode in valid:
            continue
        detail = ""
        try:
            res, _d = run_tail(ctx, copy.deepcopy(scripts[script]), output_mode=mode)
            ok, detail = False, f"returns {res!r:.100}"
        except Raised as r:
            rs = m.resolve_symbol(r.module, r.cls_name) if r.module is not None else None
            names = [k[1] for k in m.mro(rs[1])] if rs and rs[0] == "class" else [r.cls_name]
            ok = "SimpleDDLParserException" in names
            if not ok:
                detail = f"raises {r.cls_name}"
            elif getattr(r, "ctor_args", None) is None:
                raise AnalysisError(f"the message of `{r.text}` is outside the interpreted subset")
            else:
                msg = " ".join(str(a) for a in r.ctor_args)
                missing = [v for v in valid if v not in msg]
                ok = not missing
                detail = f"the message {msg!r:.200} does not name the valid mode(s) {missing}" if missing else ""
        except PyRaise as pr:
            ok, detail = False, f"raises {type(pr.exc).__name__}: {pr.exc}"
        except (LexUnknown, NonUniform, ShapeMismatch) as e:
            raise AnalysisError(f"Parser.run outside the interpreted subset (output_mode={mode!r}): {e}")
        ck.ob("T-MODE-CHECK", f"run(output_mode={mode!r}) raises SimpleDDLParserException naming the valid modes (script yields: {script})", ok,
              "an unknown output_mode raises SimpleDDLParserException naming the valid modes" + ("" if ok else "; " + detail), "Parser.run (evaluated abstractly)")
    bad = []
    for mode in valid:
        try:
            run_tail(ctx, [], output_mode=mode)
        except (Raised, PyRaise) as e:
            bad.append(f"{mode}: {e}")
        except (LexUnknown, NonUniform, ShapeMismatch) as e:
            raise AnalysisError(f"Parser.run outside the interpreted subset (output_mode={mode!r}): {e}")
    ck.ob("T-MODE-CHECK", f"run() accepts each of the {len(valid)} documented modes", not bad, "; ".join(bad)[:300], "Parser.run (evaluated abstractly)")
