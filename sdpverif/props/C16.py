"""C16 - silent skips, silent=False raises DDLParserError (DESIGN 4, C16)."""
import ast

from ..core import AnalysisError
from ..cfg import guard_atoms
from ..rules import state as S


def run(ck, ctx):
    m = ctx.model
    ck.explanation = (
        "E1 + E5: T-RAISEGATE over every raise statement reachable from run() (including the t_*/p_* methods PLY calls): "
        "allowed only in the two places the properties require (unknown output_mode; ALTER/INDEX on an unknown table) or "
        "control-dependent on `not self.silent`; T-FLAGFLOW: `silent` is read only to gate a raise, so results cannot differ "
        "when nothing is raised; exception class table; the unknown-mode test dominates parsing and names the valid modes; "
        "p_error raises DDLParserError and does nothing else. E3 x E4 (O-accept / O-raise): on every derivation of the core-column, "
        "sequence and dialect-clause fragments the parser always has an action, the lexer never meets an unknown symbol and no "
        "semantic action raises - so supported DDL of these fragments reaches neither error hook, whatever `silent` is.")
    n = S.t_raisegate(ck, ctx, {
        "Parser.run": "unknown output_mode must raise SimpleDDLParserException (C16)",
        "Output.get_table_from_tables_data": "ALTER / CREATE INDEX naming an undefined table must raise (C04)",
    })
    ck.floor("T-RAISEGATE", 3)
    # `silent` is used only as `if not self.silent: raise ...` (so results cannot differ when nothing is raised)
    nread = 0
    for f, node in S.readers_of(ctx, "silent", list(m.all_funcs())):
        if not isinstance(node, (ast.Attribute, ast.Name)):
            continue
        if f.qual == "Parser.__init__":
            continue           # the constructor stores the setting
        nread += 1
        ok = False
        for st in ast.walk(f.node):
            if isinstance(st, ast.If) and any(x is node for x in ast.walk(st.test)):
                atoms = st.test
                is_not_silent = (isinstance(atoms, ast.UnaryOp) and isinstance(atoms.op, ast.Not)
                                 and ast.unparse(atoms.operand) == "self.silent")
                ok = is_not_silent and all(isinstance(b, ast.Raise) for b in st.body) and not st.orelse
        ck.ob("T-FLAGFLOW.silent", f"{f.qual}: silent only guards a raise", ok,
              "`silent` may only appear as `if not self.silent: raise ...`; used in any other way it could select "
              "between two results", f.loc(node))
    ck.floor("T-FLAGFLOW.silent", 1)
    init = m.parser_method("__init__")
    stores = [n for n in ast.walk(init.node) if isinstance(n, ast.Assign) and any(
        isinstance(t, ast.Attribute) and t.attr == "silent" for t in n.targets)]
    ck.ob("T-FLAGFLOW.silent", "Parser.__init__ stores the silent setting", len(stores) == 1, "", init.loc())
    # exception classes
    err = m.classes.get(("simple_ddl_parser.ddl_parser", "DDLParserError"))
    base = ("simple_ddl_parser.exception", "SimpleDDLParserException")
    if err is None or base not in m.classes:
        raise AnalysisError("anchor vanished: DDLParserError / SimpleDDLParserException")
    ck.ob("T-EXC", "DDLParserError subclasses SimpleDDLParserException", base in m.mro(err.key),
          "documented exception hierarchy", f"{err.module.path}:{err.node.lineno}")
    bases = [ast.unparse(b) for b in m.classes[base].node.bases]
    ck.ob("T-EXC", "SimpleDDLParserException subclasses Exception", bases == ["Exception"], str(bases),
          f"{m.classes[base].module.path}:{m.classes[base].node.lineno}")
    # p_error / t_error raise DDLParserError
    for hook in ("p_error", "t_error"):
        f = m.parser_method(hook)
        raises = [n for n in ast.walk(f.node) if isinstance(n, ast.Raise)]
        ok = bool(raises) and all(isinstance(r.exc, ast.Call) and isinstance(r.exc.func, ast.Name)
                                  and r.exc.func.id == "DDLParserError" for r in raises)
        ck.ob("T-EXC", f"{f.qual} raises DDLParserError", ok, "silent=False must surface DDLParserError", f.loc())
        other = [s for s in f.node.body if not isinstance(s, (ast.If, ast.Raise)) and not (isinstance(s, ast.Expr) and isinstance(s.value, ast.Constant))]
        ck.ob("T-EXC", f"{f.qual} has no other effect", not other,
              "the error hook must not alter parser state (results with silent=True/False must agree)", f.loc())
    # PLY calls p_error(None) at end of input: the hook must not dereference its argument unguarded
    pe = m.parser_method("p_error")
    pname = [p for p in pe.params if p != "self"][0]
    for n in ast.walk(pe.node):
        if isinstance(n, (ast.Attribute, ast.Subscript)) and isinstance(n.value, ast.Name) and n.value.id == pname:
            atoms = guard_atoms(pe.node, S.stmt_of(pe, n))
            guarded = any(a in atoms for a in ((pname, True), (f"{pname} is not None", True), (f"{pname} is None", False),
                                               (f"not {pname}", False)))
            ck.ob("T-EXC", f"p_error: `{ast.unparse(n)}` is guarded against p=None", guarded,
                  "PLY calls p_error(None) when the input ends inside a statement: an unguarded attribute access raises "
                  "AttributeError instead of DDLParserError (silent=False) / instead of skipping (silent=True)", pe.loc(n))
    # unknown output_mode
    run_f = m.parser_method("run")
    raises = [n for n in ast.walk(run_f.node) if isinstance(n, ast.Raise)]
    ck.ob("T-MODE-CHECK", "run raises on unknown output_mode", len(raises) == 1, f"{len(raises)} raise statements in run()", run_f.loc())
    for r in raises:
        atoms = guard_atoms(run_f.node, r)
        ck.ob("T-MODE-CHECK", "raise guarded by `output_mode not in dialect_by_name`",
              atoms == [("output_mode not in dialect_by_name", True)] or atoms == [("output_mode in dialect_by_name", False)],
              f"guards: {atoms}", run_f.loc(r))
        exc = r.exc
        ok = isinstance(exc, ast.Call) and isinstance(exc.func, ast.Name) and exc.func.id == "SimpleDDLParserException"
        ck.ob("T-MODE-CHECK", "exception class is SimpleDDLParserException", ok, ast.unparse(exc)[:80] if exc else "", run_f.loc(r))
        names = {n.id for n in ast.walk(exc) if isinstance(n, ast.Name)} if exc else set()
        ck.ob("T-MODE-CHECK", "message is built from dialect_by_name (names the valid modes)", "dialect_by_name" in names,
              "", run_f.loc(r))
    S.t_dom(ck, ctx, "run",
            lambda n: isinstance(n, ast.If) and "dialect_by_name" in ast.unparse(n.test) and "output_mode" in ast.unparse(n.test),
            S.is_self_call("parse_data"), "Parser.run: mode validation dominates parse_data()",
            "an unknown mode must be rejected before anything is parsed")
    # dialect_by_name is the table of output/dialects.py
    r = m.resolve_symbol(run_f.module, "dialect_by_name")
    ck.ob("T-MODE-CHECK", "dialect_by_name resolves to output/dialects.py", bool(r) and r[0] == "value" and r[1].name == "simple_ddl_parser.output.dialects",
          str(r), run_f.loc())
    # supported DDL never reaches the error hooks: no missing parser action, no unknown symbol, no raising action on any
    # derivation of the core fragments (the fragments with recorded known findings are judged by their own properties)
    from ..rules.fragments import run_fragments
    from ..specs.clauses import GROUPS
    jobs = [dict(module="table", label="core-column", only_rules={"O-accept", "O-raise"}, build_kw=dict(tier=ck.tier, constraints=False, set_null=False)),
            dict(module="sequence", only_rules={"O-accept", "O-raise"}, build_kw=dict(tier=ck.tier))]
    jobs += [dict(module="clauses", only_rules={"O-accept", "O-raise"}, build_kw=dict(group=g, tier=ck.tier)) for g in GROUPS if g != "oracle"]
    run_fragments(ck, ctx, jobs)
    # ---- E7: the line pre-processing itself never raises (whatever the line)
    from ..specs.lines import check_no_raise, check_silent, check_error_hooks
    check_no_raise(ck, ctx)
    ck.floor("O-noraise", 40)
    # ---- silent mode, semantically: the statement driver with the LALR call stubbed, and the two PLY error hooks
    check_silent(ck, ctx)
    check_error_hooks(ck, ctx)
    ck.floor("O-silent", 12)
    ck.assumptions += ["PLY calls p_error exactly when an action-table entry is missing and t_error exactly when no lexer rule matches",
                       "exceptions thrown by actions on malformed values (int('abc'), KeyError) are declined (DESIGN 4 C16)"]
