"""C04 - ALTER TABLE / CREATE INDEX change exactly the table they name, as declared (DESIGN 4, C04)."""
import ast

from ..cfg import guard_atoms
from ..core import AnalysisError
from ..effects import access_path
from ..rules import state as S
from ..rules.fragments import run_fragment


def run(ck, ctx):
    m = ctx.model
    ck.level = "model_checking"
    ck.explanation = (
        "E3 x E4 x output layer. Script: three tables sharing one name (s1.t, s2.t, t), each parsed by a single-path fixed point. "
        "Every ALTER TABLE form (ADD [CONSTRAINT n] PRIMARY KEY / UNIQUE / FOREIGN KEY ... REFERENCES [ON DELETE] / CHECK / DEFAULT v "
        "FOR c, ADD column, DROP COLUMN, RENAME COLUMN, MODIFY [COLUMN], ALTER COLUMN) and CREATE [UNIQUE] INDEX i ON t (c [ASC|DESC], "
        "...) is explored with the target written as in the CREATE, in other letter case, double-quoted, bracketed, back-ticked, "
        "unqualified, and as a name no table has. On acceptance Output.format is evaluated abstractly (object-capable interpreter) on "
        "[t1, t2, t3, statement]; O-final: exactly the named table changes, the change is the declared one (column list, flagged "
        "column, default, alter section records the declaration, index entry with name / uniqueness / ordered columns / direction), "
        "and an undefined target raises. E5: the registry is keyed only by get_table_id, which normalises both components; a failed "
        "look-up raises on every path.")
    run_fragment(ck, ctx, "alter", tier=ck.tier)
    # ---- registry discipline
    core = [f for f in m.all_funcs() if f.module.name == "simple_ddl_parser.output.core"]
    n = 0
    for f in core:
        for node in ast.walk(f.node):
            key = None
            if isinstance(node, ast.Subscript) and access_path(node.value) == "self.tables_dict":
                key = node.slice
            elif isinstance(node, ast.Call) and isinstance(node.func, ast.Attribute) and node.func.attr in ("get", "pop", "setdefault") \
                    and access_path(node.func.value) == "self.tables_dict" and node.args:
                key = node.args[0]
            if key is None:
                continue
            n += 1
            ok = _is_table_id(f, key)
            ck.ob("T-NORM.registry", f"{f.qual}: self.tables_dict[{ast.unparse(key)[:50]}]", ok,
                  "the table registry must be addressed only through get_table_id(schema, table), which normalises quoting and case of "
                  "both components; any other key makes ALTER / INDEX miss or hit the wrong table", f.loc(node))
    ck.floor("T-NORM.registry", 2)
    _check_table_id(ck, ctx)
    # (that a failed look-up raises and never falls back to another table is decided semantically: O-final explores targets that no
    # table matches - unqualified and schema-qualified - and requires the abstractly evaluated formatter to raise)
    # (that ALTER / CREATE INDEX look up the statement's own schema and table is decided on the final output: O-final explores every way
    # of writing the target, same-named tables in two schemas and targets no table matches)
    ck.assumptions += ["words are separated as pre_process_data intends",
                       "the alter section is checked to record the declared names / values (its exact layout is not pinned by the property)",
                       "quick tier: every way of writing the target x three representative actions, every action x the plainly written "
                       "targets; thorough tier: the full product"]


def _check_table_id(ck, ctx):
    """get_table_id evaluated (E3 interpreter) on pairs of (schema, table) spellings: two spellings of one name - delimited in any of
    the three styles or plain, in any letter case - give the same id, different names give different ids, and a missing schema never
    equals a given one; however the function and normalize_name are written"""
    from ..pyabs import Interp, Obj, PyRaise, LexUnknown, NonUniform
    m = ctx.model
    gti = m.func("simple_ddl_parser.utils:get_table_id")
    same = [("users", "Users"), ("users", '"users"'), ("users", "`USERS`"), ("users", "[Users]"), ('"Order Items"', "`order items`"),
            ("t_1", '"T_1"')]
    differ = [("users", "user"), ("users", "users2"), ("a_b", "ab"), ('"a b"', "ab")]
    schemas = [(None, None), ("dbo", "DBO"), ("dbo", "[dbo]"), ('"My Schema"', "`my schema`")]

    def call(schema, table):
        try:
            return Interp(m, ctx.grammar.tokens_ns, Obj()).call_func(gti, [schema, table])
        except PyRaise as pr:
            return ("raises", type(pr.exc).__name__)
        except (LexUnknown, NonUniform) as e:
            raise AnalysisError(f"get_table_id outside the interpreted subset: {e}")
    n = 0
    for s1, s2 in schemas:
        for a, b in same:
            n += 1
            ia, ib = call(s1, a), call(s2, b)
            ck.ob("T-NORM.registry", f"get_table_id({s1!r}, {a!r}) == get_table_id({s2!r}, {b!r})", ia == ib and not (isinstance(ia, tuple) and ia[:1] == ("raises",)),
                  f"two spellings of one table must address one registry entry: {ia!r} vs {ib!r}", gti.loc())
        for a, b in differ:
            n += 1
            ia, ib = call(s1, a), call(s2, b)
            ck.ob("T-NORM.registry", f"get_table_id({s1!r}, {a!r}) != get_table_id({s2!r}, {b!r})", ia != ib,
                  f"different table names must not share a registry entry: {ia!r} vs {ib!r}", gti.loc())
    for a, _b in same[:3]:
        n += 1
        ia, ib = call(None, a), call("dbo", a)
        ck.ob("T-NORM.registry", f"get_table_id(None, {a!r}) != get_table_id('dbo', {a!r})", ia != ib,
              f"a table without schema and a table of the same name in a schema are different tables: {ia!r} vs {ib!r}", gti.loc())
        ia, ib = call("dbo", a), call("app", a)
        ck.ob("T-NORM.registry", f"get_table_id('dbo', {a!r}) != get_table_id('app', {a!r})", ia != ib,
              f"equally named tables of two schemas are different tables: {ia!r} vs {ib!r}", gti.loc())


def _is_table_id(f, key):
    if isinstance(key, ast.Call) and ast.unparse(key.func) == "get_table_id":
        return True
    if isinstance(key, ast.Name):
        binds = [n for n in ast.walk(f.node) if isinstance(n, ast.Assign) and any(isinstance(t, ast.Name) and t.id == key.id for t in n.targets)]
        return bool(binds) and all(isinstance(b.value, ast.Call) and ast.unparse(b.value.func) == "get_table_id" for b in binds)
    return False
