"""C08 - comments never change what is parsed (decided at line-class level by E7; see DESIGN 9.8)."""
import ast
import collections
import copy

from ..core import AnalysisError
from ..linemodel import LineMachine, same, REGISTERS
from ..pyabs import W, PyRaise, Raised, LexUnknown, NonUniform
from ..deriv import _short, _project, _zip, _ShapeMismatch

CODE_REGS = ("statement", "set_line", "set_was_in_line", "tables")


from ..specs.lines import w, CODE as _CODE, ALLOWED as _ALLOWED, OUTSIDE

CODE = collections.OrderedDict(_CODE)
ALLOWED = dict(_ALLOWED)


# comment texts: quote-free, with SQL keywords, commas, parentheses, semicolons (as the property stipulates)
TEXTS = collections.OrderedDict([
    ("plain", w(" some note", " id of the user", " TODO check", " x")),
    ("sql-like", w(" CREATE TABLE zz  ( q1 int , q2 int )  ;", " drop it ;", " ALTER TABLE tt ADD cc  ( 1 ) ", " p , q  ( r )  ; d")),
    # the other comment marker inside the text: `--` inside /* */ (banner lines), `#` anywhere
    ("dashes", w(" ---- section ----", " see -- below", " p -- q ;", " # -- #")),
    # nothing after the marker: a bare `--`, `#`, `/*` ... `*/`
    ("empty", w("", "", "", "")),
])
# thorough tier: more kinds of comment text
TEXTS_THOROUGH = collections.OrderedDict([
    ("equals", w(" x=1", " a = b", " k=v ; z", " ( p=q ) ")),
    ("statement-words", w(" SET a = 1 ;", " GO", " USE db ;", " INSERT INTO tt VALUES  ( 1 )  ;")),
    ("statement-words-2", w(" set", " DROP TABLE tt ;", " create", " DELETE FROM tt ;")),
    ("long", w(" one two three four five six seven eight nine ten", " a , b , c , d , e , f , g", "  (  (  (  )  )  ) ", " ; ; ;")),
    ("unbalanced", w("  ( ", "  )  ) ", " a  ( b", " )  ; ( ")),
])
CODE_THOROUGH = collections.OrderedDict([
    ("column=", w("a int DEFAULT=1 , ", "id varchar ( 10 )  DEFAULT='x' , ", "k int=2 , ")),
    ("open-like", w("CREATE TABLE t2 LIKE t1  ( ", "CREATE EXTERNAL TABLE e  ( ", "create or replace table r  ( ")),
    ("drop;", w("DROP TABLE t ;", "drop table if exists s.t ;", "DROP SEQUENCE sq ;")),
    ("alter-open", w("ALTER TABLE t", "alter table s.t", "ALTER TABLE ONLY t")),
    ("alter-tail;", w("ADD CONSTRAINT c UNIQUE  ( a )  ;", "add foreign key  ( a )  references u  ( b )  ;", "ADD c int ;")),
])
# lines inside a multi-line block comment that begin with a word the line machine reacts to in code
INSIDE = collections.OrderedDict([
    ("skip-words", w("use bigint if possible", "Insert order matters ;", "delete after review", "GO", "grant all on x", "USE x ;")),
    ("set-words", w("SET a = 1 ;", "set x", "Set k = v ;")),
])
# only for `--` / `#` comments: block-comment markers inside the text
MARKER_TEXTS = collections.OrderedDict([
    ("*/ then /*", w(" see */ and /* ", " old */ x /* new", " r */ /* s")),
    ("/* */", w(" /* old */", " was /* x , y */ here", " /* ; */")),
    ("*/", w(" was */", " */", " p , q */ r")),
    ("/*", w(" /* todo", " /* ( x", " p ; /* q")),
])


def decorate(kind, line, text):
    if kind == "none":
        return line
    if kind == "--":
        return W([a + " --" + t for a, t in zip(line.ex, text.ex)])
    if kind == "/**/":
        return W([a + " /*" + t + " */" for a, t in zip(line.ex, text.ex)])
    if kind == "/**/ --":       # two trailing comments on one line: a closed block comment, then a dash comment
        return W([a + " /*" + t + " */ --" + t for a, t in zip(line.ex, text.ex)])
    raise AnalysisError(kind)


def comment_only(kind, text):
    return {"--": W(["--" + t for t in text.ex]), "#": W(["#" + t for t in text.ex]),
            "/**/": W(["/*" + t + " */" for t in text.ex]), "  --": W(["   --" + t for t in text.ex]),
            "  /**/": W(["    /*" + t + " */" for t in text.ex]), "  #": W(["  #" + t for t in text.ex]),
            "  /*": W(["    /*" + t for t in text.ex]), "  */": W(["   " + t + " */" for t in text.ex]),
            "/*": W(["/*" + t for t in text.ex]), "*/": W([t + " */" for t in text.ex]), "*/bare": W(["*/"] * 6),
            "inside": W([t.strip() for t in text.ex])}[kind]


def stmt_class(v):
    if v is None:
        return "none"
    ex = v.ex if isinstance(v, W) else (v,)
    kinds = {("balanced" if x.count("(") == x.count(")") else "open") if x else "empty" for x in ex}
    if len(kinds) != 1:
        raise AnalysisError(f"statement register not uniform over the exemplars: {kinds}")
    return kinds.pop()


def _words(v):
    if v is None:
        return None
    return tuple(min(len(x.split()), 4) for x in (v.ex if isinstance(v, W) else (v,)))


def ident(s, s2):
    return (_words(s["set_line"]), _words(s2["set_line"]), stmt_class(s["statement"]), stmt_class(s2["statement"]), s["set_line"] is None, s2["set_line"] is None,
            s["set_was_in_line"], s2["set_was_in_line"], s2["multi_line_comment"], min(len(s2["block_comments"]), 2),
            s["multi_line_comment"], min(len(s["block_comments"]), 2))


def show_lines(path):
    return " | ".join(f"{a!r} / {b!r}" for a, b in path[-6:])


def _self_attr(n, names):
    return isinstance(n, ast.Attribute) and isinstance(n.value, ast.Name) and n.value.id == "self" and n.attr in names


def check_abstraction(ck, ctx):
    """T-ABS: the joint-state identity keeps, of the text registers, only what the machine can observe - whether the pending
    statement is empty and whether its parentheses balance, whether a SET line is pending and how many words it has, whether
    block_comments is empty.  That is justified only while every read of these registers in the parser classes has one of the
    forms below; any other read makes the fixed point unsound and is an analysis error, not a pass."""
    forms = {"statement": set(), "set_line": set(), "block_comments": set(), "comments": set()}
    n_reads = 0
    for f in ctx.model.parser_methods().values():
        parents = {}
        for n in ast.walk(f.node):
            for c in ast.iter_child_nodes(n):
                parents[c] = n
        for n in ast.walk(f.node):
            if not (_self_attr(n, forms) and isinstance(n.ctx, ast.Load)):
                continue
            n_reads += 1
            reg, par = n.attr, parents.get(n)
            gp = parents.get(par)
            form = None
            if isinstance(par, (ast.If, ast.IfExp, ast.While)) and par.test is n or isinstance(par, ast.BoolOp) or \
                    isinstance(par, ast.UnaryOp) and isinstance(par.op, ast.Not):
                form = "truth test"
            elif isinstance(par, ast.Call) and isinstance(par.func, ast.Name) and par.func.id == "bool" and len(par.args) == 1:
                form = "truth test"
            elif isinstance(par, ast.Compare) and len(par.ops) == 1 and isinstance(par.ops[0], (ast.Is, ast.IsNot)):
                form = "is None test"
            elif isinstance(par, ast.Attribute) and isinstance(gp, ast.Call) and gp.func is par:
                meth = par.attr
                if reg == "statement" and meth == "count" and len(gp.args) == 1 and isinstance(gp.args[0], ast.Constant) \
                        and gp.args[0].value in ("(", ")"):
                    form = "count of a parenthesis"
                elif reg == "set_line" and meth == "split" and not gp.args:
                    form = "split into words"
                elif reg in ("block_comments", "comments") and meth in ("append", "pop"):
                    form = meth
            elif reg == "statement" and isinstance(par, ast.Subscript) and isinstance(par.slice, ast.Slice) and par.slice.lower is None \
                    and ast.unparse(par.slice.upper or ast.Constant(0)) == "-1":
                form = "all but the last character"
            elif reg == "set_line" and isinstance(par, ast.Subscript) and par.value is n and not isinstance(par.slice, ast.Slice) \
                    and isinstance(par.slice, (ast.Constant, ast.UnaryOp)):
                form = "selection of one word (after split)"
            elif reg == "statement" and isinstance(par, ast.Call) and isinstance(par.func, ast.Attribute) and par.func.attr == "parse":
                form = "handed to the LALR parser"
            elif reg == "comments" and isinstance(par, ast.Dict):
                form = "reported under the comments key"
            if form is None:
                raise AnalysisError(f"T-ABS: {f.loc(n)} reads self.{reg} in a form the state abstraction of the line model does not cover "
                                    f"({ast.unparse(par)[:80]!r}); the C08 fixed point is not justified for this source")
            forms[reg].add(form)
    if n_reads < 8:
        raise AnalysisError(f"T-ABS: only {n_reads} reads of the line-machine registers found (anchor vanished?)")
    ck.count("register_reads_classified", n_reads)
    return forms


SCRIPTS = collections.OrderedDict([
    ("two tables and a sequence", [
        "CREATE TABLE t (\n  a int,\n  b varchar(10) NOT NULL\n);\nCREATE SEQUENCE sq START WITH 1;\nCREATE TABLE u (\n  x int\n);\n",
        "create table s.Users (\n  id bigint,\n  name text(5) NULL\n);\ncreate sequence s2 increment by 2;\ncreate table v (\n  k text\n);\n",
        "CREATE TABLE IF NOT EXISTS x_1 (\n  k int,\n  v char(1) NOT NULL\n);\nCREATE SEQUENCE s.q MINVALUE 1;\nCREATE TABLE w (\n  z int\n);\n"]),
    ("SET, skipped statements, ALTER over two lines, no final newline", [
        "SET hive.x = 1;\nUSE db;\nCREATE TABLE t (a int);\nALTER TABLE t\n  ADD UNIQUE (a);\nGO\nCREATE TABLE u (x int)",
        "set a = b;\nGRANT ALL ON t TO u;\ncreate table Tb (id int);\nalter table Tb\n  add primary key (id);\ngo\ncreate table v (k text)",
        "SET k2=9;\nINSERT INTO t VALUES (1);\nCREATE TABLE s.q (z int);\nALTER TABLE s.q\n  ADD CHECK (z > 0);\nGO\nCREATE TABLE w (y int)"]),
])


def check_scripts(ck, ctx, lm):
    """O-script: parse_data as a whole (its own line loop, the `more lines follow` argument, the code after the loop) evaluated
    abstractly on exemplar scripts: a comment of each form inserted at every line position - and the same comment at a position and
    again at the end - leaves the statements handed to the grammar and the returned entities unchanged"""
    n = 0
    forms = [("--", lambda t: ["--" + t]), ("#", lambda t: ["#" + t]), ("/* */", lambda t: ["/*" + t + " */"]),
             ("block over three lines", lambda t: ["/*" + t, " CREATE TABLE zz (q1 int); GO", t + " */"])]
    texts = [" some note", " drop it; ( a , b )", ""]

    def ents(res):
        return [x for x in res if not (isinstance(x, dict) and "comments" in x)] if isinstance(res, list) else res

    for sname, scripts in SCRIPTS.items():
        ref_h, ref_r = lm.run_script(W([scripts[i % 3] for i in range(6)]))
        ref_r = ents(ref_r)
        n_lines = scripts[0].count("\n") + 1
        for fname, mk in forms:
            bad = None
            for text in texts:
                for pos in range(n_lines + 1):
                    for twice in (False, True):
                        n += 1
                        variants = []
                        for sc in scripts:
                            ls = sc.split("\n")
                            ins = mk(text)
                            out = ls[:pos] + ins + ls[pos:]
                            if twice:
                                out = out + ins if out[-1] != "" else out[:-1] + ins
                            variants.append("\n".join(out))
                        try:
                            h, r = lm.run_script(W([variants[i % 3] for i in range(6)]))
                            ok = same(list(h), list(ref_h)) and same(ents(r), ref_r)
                            detail = "" if ok else f"statements {_short(h)!r}, entities {_short(ents(r))!r} instead of {_short(ref_h)!r}, {_short(ref_r)!r}"
                        except (PyRaise, Raised) as e:
                            ok, detail = False, f"raises {e}"
                        except NonUniform as e:
                            ok, detail = False, f"the exemplar scripts are treated differently: {e}"
                        if not ok and bad is None:
                            bad = (detail, repr(variants[0])[:260])
            ck.ob("O-script", f"`{fname}` comment inserted at every line position ({sname})", bad is None,
                  "the statements handed to the grammar and the returned entities must not change" + ("" if bad is None else "; " + bad[0]),
                  "Parser.parse_data (evaluated abstractly as a whole)", witness=None if bad is None else bad[1])
    ck.count("script_level_insertions", n)


def run(ck, ctx):
    if ck.tier == "thorough":
        for k, v in TEXTS_THOROUGH.items():
            TEXTS.setdefault(k, v)
        for k, v in CODE_THOROUGH.items():
            CODE.setdefault(k, v)
        ALLOWED["open"] = ALLOWED["open"] + ("column=",)
        for k in ("none", "empty", "balanced"):
            ALLOWED[k] = ALLOWED[k] + ("open-like", "drop;", "alter-open")
        ALLOWED["balanced"] = ALLOWED["balanced"] + ("alter-tail;",)
    check_abstraction(ck, ctx)
    ck.level = "model_checking"
    ck.explanation = (
        "E7: Parser.process_line and everything it calls (comment detection, inline comment stripping, skip words, SET handling, "
        "statement assembly) is evaluated abstractly on line classes - lock-step exemplar lines written as they look after "
        "pre_process_data - with the call of the LALR parser intercepted (the statement text handed to it is recorded). Relational "
        "fixed point over pairs (machine state of a script, machine state of the same script with comments added): from every "
        "reachable pair, every code-line class with no / a trailing `--` / a trailing `/* */` comment (plain and SQL-like comment "
        "text with keywords, commas, parentheses, semicolons), every whole-line comment (`--`, indented `--`, `#`, `/* */`) and every "
        "multi-line block comment (opening line, SQL-like lines inside, closing line) is applied. O-comment: the statements handed to "
        "the parser and the code registers (pending statement, SET registers, results) are the same in both runs, a comment-only "
        "line hands nothing to the parser and changes no code register, the machine leaves block-comment mode at the closing line, "
        "and what is appended to `comments` contains no code of the line. NOT decided: what pre_process_data (whole-script regex "
        "spacing, quote parity) does before the lines are formed.")
    lm = LineMachine(ctx)
    s0 = lm.initial()
    findings = {}

    group = [None]

    def bad(symptom, detail, path):
        # one finding per move group (the construct: which comment form, which kind of text); the first symptom is the detail
        if group[0] not in findings:
            findings[group[0]] = (f"{symptom}: {detail}" if detail else symptom, show_lines(path))

    start = (s0, s0, [])
    seen = {ident(s0, s0)}
    queue = collections.deque([start])
    n_states = n_trans = 0

    def step(state, line, more=True):
        return lm.step(state, line, more)

    def step_robust(state, line, more=True):
        """(statements, new state, per-exemplar results or None).  When the exemplars are not handled in lock step, they are
        evaluated one by one and zipped with the `comments` register left out (it is write-only - T-ABS - and is judged per
        exemplar by the caller)"""
        try:
            parsed, new = lm.step(state, line, more)
            return parsed, new, None
        except NonUniform as nu:
            each = lm.step_each(state, line, more)
            try:
                parsed = _zip([e[0] for e in each])
                new = _zip([dict(e[1], comments=[]) for e in each])
            except _ShapeMismatch:
                return None, None, each
            return parsed, new, each

    BLANK = W([""] * 6)

    def flush(st):
        """a SET statement is reported when the NEXT line arrives, whatever that line is: two states that differ only in whether
        the pending SET has been reported yet are the same state - compare them after a blank line (which does nothing else)"""
        if st["set_line"] is None:
            return st
        try:
            parsed, nxt = lm.step(st, BLANK if _is_abstract(st) else "", True)
        except NonUniform:
            return st
        return nxt if not parsed else st

    def _is_abstract(st):
        from ..deriv import _leaves
        for _ in _leaves([st]):
            return True
        return False

    def entities(res):
        return [x for x in res if not (isinstance(x, dict) and "comments" in x)] if isinstance(res, list) else res

    def compare(tag, kind_desc, s_new, s2_new, parsed, parsed2, path, comment_texts, code_line, more=True):
        ok = True
        if not same(parsed, parsed2):
            bad(f"{tag}: the statements handed to the parser differ ({kind_desc})",
                f"without the comment {_short(parsed)!r}, with it {_short(parsed2)!r}", path)
            ok = False
        if not more:
            # end of the script: what parse_data returns (the comments entry aside)
            r1, r2 = entities(lm.finish(s_new)), entities(lm.finish(s2_new))
            if not same(r1, r2):
                bad(f"{tag}: the result of the script differs ({kind_desc})", f"without the comment {_short(r1)!r}, with it {_short(r2)!r}", path)
                ok = False
            return ok
        f1, f2 = flush(s_new), flush(s2_new)
        for r in CODE_REGS:
            if not same(f1[r], f2[r]):
                bad(f"{tag}: register `{r}` differs after the line ({kind_desc})",
                    f"without the comment {_short(s_new[r])!r}, with it {_short(s2_new[r])!r}", path)
                ok = False
        return ok

    def check_comments(tag, kind_desc, before, after, text, path):
        """whatever is appended to `comments` is taken from the comment text (markers aside) - nothing that was code"""
        if not same(after["comments"][:len(before["comments"])], before["comments"]):
            bad(f"{tag}: items already in `comments` are changed or reordered ({kind_desc})", "", path)
        new_items = after["comments"][len(before["comments"]):]
        for it in new_items:
            for i in range(6):
                x = it.ex[i] if isinstance(it, W) else it
                t = (text.ex[i] if isinstance(text, W) else text) if text is not None else None
                core = x.strip() if isinstance(x, str) else ""
                if core.endswith("*/"):
                    core = core[:-2].strip()
                # blanks aside: the pre-processor spaces `=`, commas and parentheses in comments as it does in code
                if t is None or not isinstance(x, str) or "".join(core.split()) not in "".join(t.split()):
                    bad(f"{tag}: what is reported as comment is not the comment text ({kind_desc})",
                        f"comments gets {x!r}; the comment written is {t!r}", path)
                    return

    while queue:
        s, s2, path = queue.popleft()
        n_states += 1
        if n_states > 4000:
            raise AnalysisError("C08: more than 4000 joint machine states")
        moves = []
        # (a) a code line, undecorated in the plain script, decorated or not in the commented one
        allowed = ALLOWED[stmt_class(s["statement"])]
        for cname, cline in CODE.items():
            if cname not in allowed:
                continue
            moves.append(("code", cname, "none", "-", cline, cline, None))
            for dk in ("--", "/**/"):
                texts = list(TEXTS.items()) + (list(MARKER_TEXTS.items()) if dk == "--" else [])
                for tname, text in texts:
                    moves.append(("code", cname, dk, tname, cline, decorate(dk, cline, text), text))
            for tname, text in TEXTS.items():
                both = W([t + " */ --" + t for t in text.ex])           # what is written as comment on that line
                moves.append(("code", cname, "/**/ --", tname, cline, decorate("/**/ --", cline, text), both))
        # (b) a comment-only line in the commented script
        for ck_ in ("--", "  --", "#", "  #", "/**/", "  /**/"):
            texts = list(TEXTS.items()) + (list(MARKER_TEXTS.items()) if "/" not in ck_ else [])
            for tname, text in texts:
                moves.append(("comment", ck_, ck_, tname, None, comment_only(ck_, text), text))
        # (c) a block comment spanning lines (opening line at the margin or indented)
        for opener in ("/*", "  /*"):
            for tname, text in TEXTS.items():
                moves.append(("block", "/* ... */", opener, tname, None, None, text))
        # (d) the commented script ends with a comment (the plain script ends with the code line before it)
        for ck_ in ("--", "#", "/**/", "/* */ over two lines"):
            moves.append(("end", ck_, ck_, "plain", None, None, TEXTS["plain"]))
        for mv in moves:
            kind, cname, dk, tname, cline, dline, text = mv
            n_trans += 1
            desc = f"{cname} + {dk} {tname}" if kind == "code" else f"{kind} {dk} {tname}"
            if kind == "code":
                group[0] = (f"code line followed by a `{dk}` comment ({tname} text)" if dk != "none" else "code lines without comments")
                if cname == "literal--" and dk != "none":
                    group[0] = f"code line with `--` inside a string literal, followed by a `{dk}` comment"
            elif kind == "comment":
                group[0] = f"whole-line `{dk.strip()}` comment{' (indented)' if dk.startswith(' ') else ''} ({tname} text)"
            elif kind == "block":
                group[0] = f"block comment over several lines, opening line {'indented' if dk.startswith(' ') else 'at the margin'}"
            else:
                group[0] = f"script ending with a {cname} comment"
            try:
                if kind == "code":
                    for more in (True, False):
                        p2 = path + [(_short(cline), _short(dline))]
                        tag = "code line" + ("" if more else " (last line of the script)")
                        parsed, s_new = step(s, cline, more)
                        parsed2, s2_new, each = step_robust(s2, dline, more)
                        if each is not None:
                            # not handled in lock step: judge exemplar by exemplar
                            ok = True
                            for i, (pp2, ss2) in enumerate(each):
                                if not compare(tag, desc, _project(s_new, i), ss2, _project(parsed, i), pp2, p2, text, cline, more):
                                    ok = False
                                check_comments(tag, desc, _project(copy.deepcopy(s2), i), ss2, _project(text, i), p2)
                            if ok and parsed2 is None:
                                raise AnalysisError(f"line class ({desc}) is not handled in lock step although no code register differs")
                        else:
                            ok = compare(tag, desc, s_new, s2_new, parsed, parsed2, p2, text, cline, more)
                            check_comments(tag, desc, s2, s2_new, text, p2)
                        if more and ok:
                            idn = ident(s_new, s2_new)
                            if idn not in seen:
                                seen.add(idn)
                                queue.append((dict(s_new, comments=[]), dict(s2_new, comments=[]), p2))
                elif kind == "comment":
                    def one_comment(st2, ln, txt):
                        parsed2, st2_new = step(st2, ln, True)
                        p2 = path + [("(no line)", _short(ln))]
                        ok = True
                        if parsed2:
                            bad(f"comment-only line hands a statement to the parser ({desc})", f"{_short(parsed2)!r}", p2)
                            ok = False
                        fa, fb = flush(st2), flush(st2_new)
                        for r in CODE_REGS:
                            if not same(fa[r], fb[r]):
                                bad(f"comment-only line changes register `{r}` ({desc})", f"{_short(st2[r])!r} -> {_short(st2_new[r])!r}", p2)
                                ok = False
                        check_comments("comment-only line", desc, st2, st2_new, txt, p2)
                        if st2_new["multi_line_comment"]:
                            bad(f"a one-line comment leaves the machine in block-comment mode ({desc})", "", p2)
                            ok = False
                        return ok, st2_new, p2
                    try:
                        ok, s2_new, p2 = one_comment(s2, dline, text)
                    except NonUniform as nu:
                        res = [one_comment(_project(copy.deepcopy(s2), i), _project(dline, i), _project(text, i)) for i in range(6)]
                        if not all(r[0] for r in res):
                            continue
                        try:
                            ok, s2_new, p2 = True, _zip([dict(r[1], comments=[]) for r in res]), res[0][2]
                        except _ShapeMismatch:
                            raise AnalysisError(f"line class ({desc}) is not handled in lock step although no code register differs: {nu}")
                    if ok:
                        idn = ident(s, s2_new)
                        if idn not in seen:
                            seen.add(idn)
                            queue.append((s, dict(s2_new, comments=[]), p2))
                elif kind == "end":
                    tail = [comment_only("/*", text), comment_only("*/", TEXTS["sql-like"])] if dk.startswith("/* ") else [comment_only(dk, text)]
                    for c2name, c2 in CODE.items():
                        if c2name not in allowed:
                            continue
                        try:
                            parsed, s_new = step(s, c2, False)
                            cur = s2
                            parsed2 = []
                            for k, ln in enumerate([c2] + tail):
                                pp, cur = step(cur, ln, k < len(tail))
                                parsed2 = parsed2 + list(pp)
                        except NonUniform as nu:
                            raise AnalysisError(f"line class ({c2name}, then {desc}) is not handled uniformly: {nu}")
                        p2 = path + [(_short(c2), _short(c2))] + [("(end of script)", _short(ln)) for ln in tail]
                        if not same(list(parsed), parsed2):
                            bad(f"the statements handed to the parser differ when the script ends with a comment ({c2name}, then {desc})",
                                f"without the comment {_short(parsed)!r}, with it {_short(parsed2)!r}", p2)
                        r1, r2 = entities(lm.finish(s_new)), entities(lm.finish(cur))
                        if not same(r1, r2):
                            bad(f"the result of the script differs when it ends with a comment ({c2name}, then {desc})",
                                f"without the comment {_short(r1)!r}, with it {_short(r2)!r}", p2)
                else:
                    seq = [(comment_only(dk, text), text), (comment_only("inside", TEXTS["sql-like"]), TEXTS["sql-like"]),
                           (comment_only("inside", TEXTS["dashes"]), TEXTS["dashes"]), (comment_only("inside", TEXTS["plain"]), TEXTS["plain"]),
                           (INSIDE["skip-words"], INSIDE["skip-words"]), (INSIDE["set-words"], INSIDE["set-words"]),
                           (comment_only("  */" if dk.startswith(" ") else "*/", text), text)]

                    def one_block(st2, seq):
                        cur = st2
                        p2 = list(path)
                        ok = True
                        for i, (ln, ltext) in enumerate(seq):
                            parsed2, nxt = step(cur, ln, True)
                            p2 = p2 + [("(no line)", _short(ln))]
                            if parsed2:
                                bad(f"a line of a block comment hands a statement to the parser ({desc}, line {i + 1})", f"{_short(parsed2)!r}", p2)
                                ok = False
                            fa, fb = flush(cur), flush(nxt)
                            for r in CODE_REGS:
                                if not same(fa[r], fb[r]):
                                    bad(f"a line of a block comment changes register `{r}` ({desc}, line {i + 1})",
                                        f"{_short(cur[r])!r} -> {_short(nxt[r])!r}", p2)
                                    ok = False
                            check_comments("a line of a block comment", f"{desc}, line {i + 1}", cur, nxt, ltext, p2)
                            cur = nxt
                        if cur["multi_line_comment"]:
                            bad(f"the machine stays in block-comment mode after the closing line ({desc})", "", p2)
                            ok = False
                        return ok, cur, p2
                    try:
                        ok, cur, p2 = one_block(s2, seq)
                    except NonUniform as nu:
                        res = [one_block(_project(copy.deepcopy(s2), i), [(_project(a, i), _project(b, i)) for a, b in seq]) for i in range(6)]
                        if not all(r[0] for r in res):
                            continue
                        try:
                            ok, cur, p2 = True, _zip([dict(r[1], comments=[]) for r in res]), res[0][2]
                        except _ShapeMismatch:
                            raise AnalysisError(f"line class ({desc}) is not handled in lock step although no code register differs: {nu}")
                    if ok:
                        idn = ident(s, cur)
                        if idn not in seen:
                            seen.add(idn)
                            queue.append((s, dict(cur, comments=[]), p2))
            except (PyRaise, Raised) as e:
                bad(f"the line machine raises ({desc})", f"{e}", path + [(_short(cline) if cline is not None else "(no line)", _short(dline) if dline is not None else "block")])
            except (LexUnknown, NonUniform) as e:
                raise AnalysisError(f"line machine outside the interpreted subset / line class not uniform ({desc}) after {show_lines(path)}: {e}")
    groups = collections.OrderedDict()
    groups["code lines without comments"] = 1
    for dk in ("--", "/**/"):
        for tname in list(TEXTS) + (list(MARKER_TEXTS) if dk == "--" else []):
            groups[f"code line followed by a `{dk}` comment ({tname} text)"] = 1
    for tname in TEXTS:
        groups[f"code line followed by a `/**/ --` comment ({tname} text)"] = 1
    for ck_ in ("--", "  --", "#", "  #", "/**/", "  /**/"):
        for tname in list(TEXTS) + (list(MARKER_TEXTS) if "/" not in ck_ else []):
            groups[f"whole-line `{ck_.strip()}` comment{' (indented)' if ck_.startswith(' ') else ''} ({tname} text)"] = 1
    for dk in ("--", "/**/", "/**/ --"):
        groups[f"code line with `--` inside a string literal, followed by a `{dk}` comment"] = 1
    for o in ("indented", "at the margin"):
        groups[f"block comment over several lines, opening line {o}"] = 1
    for ck_ in ("--", "#", "/**/", "/* */ over two lines"):
        groups[f"script ending with a {ck_} comment"] = 1
    for key in findings:
        if key not in groups:
            raise AnalysisError(f"C08: finding group {key!r} not in the declared list")
    for key in groups:
        if key in findings:
            detail, wit = findings[key]
            ck.ob("O-comment", key, False, detail, "Parser.process_line (evaluated abstractly)", witness=wit)
        else:
            ck.ob("O-comment", key, True, f"same statements, registers and results from every one of the {n_states} reachable joint states",
                  "Parser.process_line (evaluated abstractly)")
    check_scripts(ck, ctx, lm)
    ck.states, ck.transitions = n_states, n_trans
    ck.count("joint_machine_states", n_states)
    ck.count("line_applications", n_trans)
    ck.count("abstract_process_line_evaluations", lm.n_steps)
    ck.assumptions += ["lines are written as they look after pre_process_data; the whole-script regex spacing and quote-parity step is not "
                       "decided", "comment text is quote-free (as the property stipulates)",
                       "code lines are those of the listed classes (statement openers, column lines, closers, clauses, one-line statements, "
                       "skipped statements, blank lines)"]
