"""C13 - group_by_type is a lossless, order-preserving regrouping (DESIGN 4, C13)."""
import ast
import re

from ..cfg import guard_atoms
from ..core import AnalysisError
from ..effects import access_path
from ..rules import state as S

# oracle, from the property statement: the kind of an entity (its marker key) -> its bucket
KIND_BUCKET = {
    "table_name": "tables", "sequence_name": "sequences", "type_name": "types", "domain_name": "domains",
    "schema_name": "schemas", "tablespace_name": "tablespaces", "database_name": "databases",
    "value": "ddl_properties", "comments": "comments",
}
ALWAYS = ["tables", "types", "sequences", "domains", "schemas", "ddl_properties"]


def _const_dict(node):
    if not isinstance(node, ast.Dict):
        return None
    out = {}
    for k, v in zip(node.keys, node.values):
        if not (isinstance(k, ast.Constant) and isinstance(k.value, str)):
            return None
        out[k.value] = v
    return out


def run(ck, ctx):
    _semantic(ck, ctx)
    n_bad = len([o for o in ck.obligations if not o.ok])
    _structural(ck, ctx)
    from ..rules.fragments import run_fragment
    run_fragment(ck, ctx, "entities", tier=ck.tier, only_rules={"O-final"})


def _structural(ck, ctx):
    """what is decided from the shape of the code: who may read the flag, and that every entity kind the grammar can produce carries
    a marker the regrouping knows.  (How group_by_type_result itself is written is NOT looked at: its behaviour is decided by
    evaluating it - O-group / O-run.)"""
    m = ctx.model
    f = m.func("simple_ddl_parser.output.core:Output.group_by_type_result")
    ck.explanation = (
        "O-group / O-run: Output.group_by_type_result, Output.format and the tail of Parser.run are evaluated abstractly (objabs) on "
        "representative flat results - every entity kind, repeated and interleaved kinds, entities carrying several marker keys, "
        "comments, empty results - against the regrouping the property describes, however the functions are written. E1 rules: "
        "group_by_type is read only by Parser.run and the Output class; every keyword-derived marker key of the grammar actions is one "
        "the regrouping knows. E4b: the entity statements of the C18 fragment land once, unchanged, in the bucket of their kind.")
    keys_map = dict(KIND_BUCKET)
    sorts = [n for n in ast.walk(f.node) if isinstance(n, ast.Call) and ((isinstance(n.func, ast.Name) and n.func.id in ("sorted", "reversed", "set"))
             or (isinstance(n.func, ast.Attribute) and n.func.attr in ("sort", "reverse")))]
    ck.ob("T-ORDER", "no sorting / reversing / set() in the regrouping", not sorts, str([ast.unparse(x)[:40] for x in sorts]), f.loc())
    # ---- flag flow
    fmt = m.func("simple_ddl_parser.output.core:Output.format")
    reads = [(g, n) for g, n in S.readers_of(ctx, "group_by_type", list(m.all_funcs())) if isinstance(n, (ast.Attribute, ast.Name))]
    for g, n in reads:
        # the flag selects the regrouping of the finished flat result; it has no business in the lexer, the grammar actions, the
        # line pre-processing or the table objects (what run() / the formatter do with it is decided by O-run / O-group)
        ok = g.qual == "Parser.run" or g.cls == "Output"
        ck.ob("T-FLAGFLOW.group_by_type", f"group_by_type read in {g.qual}", ok,
              "the flag may only select the regrouping after the flat result is complete", g.loc(n))
    ck.floor("T-FLAGFLOW.group_by_type", 3)
    # ---- every marker has a writer; name-like top-level keys of entity productions are mapped
    writers = {k: [] for k in KIND_BUCKET}
    pat = re.compile(r"^\{.*\}_name$")
    for g in S.parser_family_funcs(ctx):
        for n in ast.walk(g.node):
            keys = []
            if isinstance(n, ast.Dict):
                keys = [k for k in n.keys if k is not None]
            elif isinstance(n, ast.Subscript) and isinstance(n.ctx, ast.Store):
                keys = [n.slice]
            for k in keys:
                if isinstance(k, ast.Constant) and k.value in writers:
                    writers[k.value].append(g.qual)
                elif isinstance(k, ast.JoinedStr) and pat.match(ast.unparse(k)[2:-1] if ast.unparse(k).startswith("f") else ""):
                    for kind in ("schema_name", "database_name"):
                        writers[kind].append(g.qual + " (pattern)")
    # marker keys computed from a keyword position, f"{p[i].lower()}_name": evaluate per grammar alternative of that action
    gm = ctx.grammar
    terms = set(gm.terminals)
    n_pat = 0
    for g in S.parser_family_funcs(ctx):
        if not g.name.startswith("p_") or g.name not in gm.func_of or gm.func_of[g.name] is not g:
            continue
        for n in ast.walk(g.node):
            keys = []
            if isinstance(n, ast.Dict):
                keys = [k for k in n.keys if k is not None]
            elif isinstance(n, ast.Subscript) and isinstance(n.ctx, ast.Store):
                keys = [n.slice]
            for k in keys:
                if not isinstance(k, ast.JoinedStr):
                    continue
                mt = re.match(r"^f'\{p\[(\d+)\]\.lower\(\)\}_name'$", ast.unparse(k))
                if not mt:
                    continue
                pos = int(mt.group(1))
                atoms = [a for a, pol in guard_atoms(g.node, S.stmt_of(g, n)) if pol]
                for lhs, rhs in gm.alternatives(g.name):
                    if pos - 1 >= len(rhs):
                        continue
                    sym = rhs[pos - 1]
                    if sym not in terms or sym in ("ID", "DQ_STRING", "STRING_BASE"):
                        continue
                    # the dict is built on the branch taken when the earlier, more specific tests fail; a terminal keyword
                    # token carries its own upper-cased text
                    key = f"{sym.lower()}_name"
                    n_pat += 1
                    reach = not any(f"'{sym}' in" in a or f'"{sym}" in' in a for a in atoms)
                    ck.ob("T-AGREE.markers", f"{g.qual}: `{lhs} -> {' '.join(rhs)}` yields marker `{key}`", key in keys_map or not reach,
                          f"the entity produced for this alternative carries the key {key!r}, which the regrouping does not know: it "
                          "would be in the flat result but in no bucket", g.loc(n))
    ck.count("pattern_marker_alternatives", n_pat)
    ck.count("marker_writer_sites", sum(len(ws) for ws in writers.values()))
    ck.assumptions += ["an entity's kind is identified by its marker key, as the property's bucket list implies",
                       "entity dicts of the supported kinds carry no marker key of another kind (checked for the statement forms of "
                       "the C18 entity fragments by that check's O-value obligations)"]


def _semantic(ck, ctx):
    """group_by_type_result evaluated abstractly (objabs) on representative flat results, against the regrouping the property
    describes - independent of how the function is written"""
    import copy
    import itertools
    from ..objabs import eval_method
    from ..pyabs import W, PyRaise, LexUnknown, NonUniform, deep_eq
    def w(*xs):
        return W(list(xs) + list(xs)[: 6 - len(xs)]) if len(set(xs)) > 1 else xs[0]
    ents = {
        "table_name": {"table_name": w("t", "Orders", "x_1"), "schema": None, "columns": [], "value": w("v", "k", "z")},
        "sequence_name": {"schema": None, "sequence_name": w("s1", "Seq", "q_2"), "increment": 1},
        "type_name": {"schema": w("a", "B", "c_1"), "type_name": w("ty", "Mood", "t_3"), "base_type": "ENUM", "properties": {"values": []}},
        "domain_name": {"schema": None, "domain_name": w("d", "Dom", "d_4"), "base_type": "int", "properties": {}},
        "schema_name": {"schema_name": w("sc", "Sch", "s_5"), "comments": w("'c'", "'d'", "'e'")},
        "tablespace_name": {"tablespace_name": w("ts", "Tsp", "t_6"), "properties": None, "type": None, "temporary": False},
        "database_name": {"database_name": w("db", "Dbs", "d_7")},
        "value": {"name": w("p", "Prop", "p_8"), "value": w("on", "1", "x")},
        "value-empty": {"name": w("e", "Emp", "e_9"), "value": ""},
    }
    comments = {"comments": [w(" c1", " note", " x"), w(" c2", " more", " y")]}
    kinds = list(ents)
    scenarios = {
        "one of each kind": [copy.deepcopy(ents[k]) for k in kinds],
        "reverse order": [copy.deepcopy(ents[k]) for k in reversed(kinds)],
        "same kinds separated by others": [copy.deepcopy(ents[k]) for k in ("tablespace_name", "table_name", "tablespace_name", "database_name",
                                                                          "sequence_name", "database_name", "table_name", "value", "value")],
        "with comments": [copy.deepcopy(ents["table_name"]), copy.deepcopy(ents["type_name"]), copy.deepcopy(comments)],
        "empty": [],
        "only a property with an empty value": [copy.deepcopy(ents["value-empty"])],
        # an entity carrying the generic keys of later markers too (a schema with `comments`, a table with `value`): filed once, by its kind
        "entities carrying generic keys": [copy.deepcopy(ents["schema_name"]), copy.deepcopy(ents["table_name"]), copy.deepcopy(ents["value"])],
        "two comment items around an entity": [copy.deepcopy(comments), copy.deepcopy(ents["sequence_name"]),
                                               {"comments": [w(" c3", " last", " z")]}],
        "three tables between other kinds": [copy.deepcopy(ents["table_name"]), copy.deepcopy(ents["type_name"]),
                                             dict(copy.deepcopy(ents["table_name"]), table_name=w("t2", "Items", "y_2")), copy.deepcopy(ents["domain_name"]),
                                             dict(copy.deepcopy(ents["table_name"]), table_name=w("t3", "Users", "z_3"))],
        "only optional kinds": [copy.deepcopy(ents["database_name"]), copy.deepcopy(ents["tablespace_name"])],
        # comment texts can be empty (a bare `--` after code): they are comment texts all the same
        "only blank comment texts": [copy.deepcopy(ents["table_name"]), {"comments": ["", ""]}],
        "one blank comment text": [{"comments": [""]}],
        # the same statement written twice gives two equal flat entities: the regrouping keeps both ("every entity once" is per
        # flat entity, not per distinct value) - with and without IF NOT EXISTS, adjacent and apart
        "an entity twice": [copy.deepcopy(ents["schema_name"]), copy.deepcopy(ents["schema_name"]), copy.deepcopy(ents["table_name"]),
                            copy.deepcopy(ents["sequence_name"]), copy.deepcopy(ents["table_name"])],
        "an IF NOT EXISTS entity twice": [dict(copy.deepcopy(ents["schema_name"]), if_not_exists=True), copy.deepcopy(ents["type_name"]),
                                          dict(copy.deepcopy(ents["schema_name"]), if_not_exists=True),
                                          dict(copy.deepcopy(ents["table_name"]), if_not_exists=True), dict(copy.deepcopy(ents["table_name"]), if_not_exists=True)],
        "a property twice": [copy.deepcopy(ents["value"]), copy.deepcopy(ents["value"])],
    }
    for k in kinds:
        scenarios[f"only: {k}"] = [copy.deepcopy(ents[k])]
    key = ("simple_ddl_parser.output.core", "Output")
    for name, flat in scenarios.items():
        try:
            _res, attrs = eval_method(ctx, key, {"parser_output": [], "output_mode": "sql", "group_by_type": True},
                                      {"final_result": copy.deepcopy(flat)}, "group_by_type_result")
        except PyRaise as pr:
            ck.ob("O-group", f"regrouping raises on: {name}", False, f"{type(pr.exc).__name__}: {pr.exc}", "Output.group_by_type_result")
            continue
        except (LexUnknown, NonUniform) as e:
            raise AnalysisError(f"group_by_type_result outside the interpreted subset ({name}): {e}")
        got = attrs.get("final_result")
        problem = None
        if not isinstance(got, dict):
            problem = f"result is {type(got).__name__}, not the bucket dict"
        else:
            for b in ALWAYS:
                if not isinstance(got.get(b), list):
                    problem = f"bucket `{b}` missing"
            exp = {}
            texts = []
            for item in flat:
                if "comments" in item and not any(k in item for k in KIND_BUCKET if k not in ("comments", "value")):
                    texts += item["comments"]
                    continue
                marker = [k for k in KIND_BUCKET if k in item][0]
                exp.setdefault(KIND_BUCKET[marker], []).append(item)
            if texts:
                exp["comments"] = texts
            if problem is None:
                for b, items in exp.items():
                    g = got.get(b)
                    if not isinstance(g, list) or len(g) != len(items) or not all(_eq(a, x) for a, x in zip(items, g)):
                        problem = f"bucket `{b}`: expected {len(items)} item(s) in source order, got {g if not isinstance(g, list) else len(g)}"
                        break
                extra = [b for b, v in got.items() if b not in exp and (v or b not in ALWAYS)]
                if problem is None and extra:
                    problem = f"unexpected content in bucket(s) {extra}"
                if problem is None and "comments" in got and not texts:
                    problem = "an empty comments bucket is reported"
        ck.ob("O-group", f"regrouping of: {name}", problem is None,
              problem or "every entity once, unchanged, in the bucket of its kind, in order; documented buckets present",
              "Output.group_by_type_result")


    # ---- O-group through the formatter: Output(...).format() evaluated twice on the same parser output - flat and grouped - and the
    # grouped result compared with the regrouping of the flat one (the property read literally; decides also WHETHER the regrouping
    # is applied: empty results, results of one kind ...), in several modes
    from ..objabs import format_output, ShapeMismatch

    def ptable(name):
        return {"table_name": name, "schema": None, "primary_key": None, "index": [], "partitioned_by": [], "tablespace": None, "checks": [],
                "columns": [{"name": w("a", "Col", "c_1"), "type": w("int", "TEXT", "num_9"), "size": None, "references": None, "unique": False,
                             "primary_key": False, "nullable": True, "default": None, "check": None}]}
    pout = {k: v for k, v in ents.items() if k not in ("table_name", "value-empty")}
    pouts = {
        "nothing parsed": [],
        "one table": [ptable(w("t", "Orders", "x_1"))],
        "a table between two of every other kind": [copy.deepcopy(v) for v in pout.values()] + [ptable(w("t", "Orders", "x_1"))] + [copy.deepcopy(v) for v in reversed(list(pout.values()))],
        "comments only": [copy.deepcopy(comments)],
        "two tables, a sequence, comments": [ptable(w("t", "Orders", "x_1")), copy.deepcopy(ents["sequence_name"]), ptable(w("u", "Items", "y_2")), copy.deepcopy(comments)],
        "optional kinds only": [copy.deepcopy(ents["database_name"]), copy.deepcopy(ents["tablespace_name"])],
        "a table and blank comment texts": [ptable(w("t", "Orders", "x_1")), {"comments": ["", ""]}],
        # statements that are not entities: whatever the formatter does with them (today: ValueError), the grouped result is the
        # regrouping of the flat one
        "an ALTER naming a table the script does not define": [ptable(w("t", "Orders", "x_1")), copy.deepcopy(ents["sequence_name"]),
                                                               {"alter_table_name": w("b", "Missing", "m_1"), "schema": None,
                                                                "primary_key": {"constraint_name": None, "columns": [w("id", "Key", "k_1")]}}],
        "an index on a table the script does not define": [ptable(w("t", "Orders", "x_1")),
                                                           {"index_name": w("i1", "Idx", "i_1"), "table_name": w("b", "Missing", "m_1"), "schema": None,
                                                            "columns": [w("id", "Key", "k_1")], "unique": False, "detailed_columns": []}],
    }
    for name, po in pouts.items():
        for mode in ("sql", "bigquery", "oracle"):
            problem = None
            try:
                try:
                    flat_res = format_output(ctx, copy.deepcopy(po), mode, False)
                except PyRaise as pr0:
                    # no flat result: then there is no grouped result either
                    try:
                        g2 = format_output(ctx, copy.deepcopy(po), mode, True)
                        ck.ob("O-group", f"format(group_by_type=True) vs. the flat result of: {name} (mode {mode})", False,
                              f"the flat run raises {type(pr0.exc).__name__} but the grouped run returns {g2!r:.120}", "Output.format")
                    except PyRaise:
                        ck.ob("O-group", f"format(group_by_type=True) vs. the flat result of: {name} (mode {mode})", True,
                              "both runs raise", "Output.format (evaluated abstractly)")
                    continue
                got = format_output(ctx, copy.deepcopy(po), mode, True)
            except PyRaise as pr:
                ck.ob("O-group", f"format() raises on: {name} (mode {mode})", False, f"{type(pr.exc).__name__}: {pr.exc}", "Output.format")
                continue
            except (LexUnknown, NonUniform, ShapeMismatch) as e:
                raise AnalysisError(f"Output.format outside the interpreted subset ({name}): {e}")
            if not isinstance(flat_res, list):
                problem = f"the flat result is {type(flat_res).__name__}"
            elif not isinstance(got, dict):
                problem = f"group_by_type=True returns {type(got).__name__} ({got!r:.80}), not the bucket dict"
            else:
                exp, texts = {}, []
                for item in flat_res:
                    markers = [k for k in KIND_BUCKET if k in item and k not in ("comments", "value")]
                    if not markers and "comments" in item:
                        texts += item["comments"]
                        continue
                    if not markers and "value" in item:
                        markers = ["value"]
                    if len(markers) != 1:
                        problem = f"a flat entity carries the marker keys {markers}: its kind is not determined"
                        break
                    exp.setdefault(KIND_BUCKET[markers[0]], []).append(item)
                if texts:
                    exp["comments"] = texts
                if problem is None:
                    for b in ALWAYS:
                        if not isinstance(got.get(b), list):
                            problem = f"bucket `{b}` missing"
                if problem is None:
                    for b, items in exp.items():
                        g = got.get(b)
                        if not isinstance(g, list) or len(g) != len(items) or not all(_eq(a, x) for a, x in zip(items, g)):
                            problem = f"bucket `{b}`: expected the {len(items)} flat item(s) unchanged and in source order, got {g!r:.200}"
                            break
                    extra = [b for b, v in got.items() if b not in exp and (v or b not in ALWAYS)]
                    if problem is None and extra:
                        problem = f"unexpected bucket(s) {extra}"
            ck.ob("O-group", f"format(group_by_type=True) vs. the flat result of: {name} (mode {mode})", problem is None,
                  problem or "the grouped result is the regrouping of the flat result: every entity once, unchanged, in order; documented buckets present",
                  "Output.format / group_by_type_result (evaluated abstractly)")

    # ---- O-run: run() hands the formatter's result through unchanged - whatever the flat result is (also when it is empty)
    from ..objabs import run_tail
    no_tables = [copy.deepcopy(ents[k]) for k in kinds if k != "table_name"]
    flats = {"empty": [], "only a property": [copy.deepcopy(ents["value"])], "every kind but tables": no_tables,
             "comments only": [copy.deepcopy(comments)], "a sequence and comments": [copy.deepcopy(ents["sequence_name"]), copy.deepcopy(comments)]}
    for name, flat in flats.items():
        for grouped in (False, True):
            for mode in ("sql", "hql"):
                try:
                    want = format_output(ctx, copy.deepcopy(flat), mode, grouped)
                    got, dumps = run_tail(ctx, copy.deepcopy(flat), group_by_type=grouped, output_mode=mode)
                    ok = _eq(got, want) and type(got) is type(want) and not dumps
                    detail = "" if ok else f"run() returns {got!r}, the formatter {want!r}"[:400]
                    gj, _d = run_tail(ctx, copy.deepcopy(flat), group_by_type=grouped, output_mode=mode, json_dump=True)
                    from ..objabs import abstract_json_dumps
                    if ok and not _eq(gj, abstract_json_dumps(want)):
                        ok, detail = False, f"json_dump=True does not return json.dumps of the same object: {gj!r}"[:300]
                except PyRaise as pr:
                    ok, detail = False, f"raises {type(pr.exc).__name__}: {pr.exc}"
                except (LexUnknown, NonUniform, ShapeMismatch) as e:
                    raise AnalysisError(f"Parser.run outside the interpreted subset ({name}): {e}")
                ck.ob("O-run", f"run(group_by_type={grouped}, output_mode={mode!r}) on: {name}", ok,
                      "run() returns exactly what the formatter returns for the flat result (the grouped dict with its six documented buckets "
                      "when group_by_type is set - also for an empty result)" + ("" if ok else "; " + detail), "Parser.run (evaluated abstractly)")


def _eq(a, b):
    from ..pyabs import deep_eq, NonUniform
    try:
        return deep_eq(a, b)
    except NonUniform:
        return False
