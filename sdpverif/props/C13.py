"""C13 - group_by_type is a lossless, order-preserving regrouping (DESIGN 4, C13)."""
import ast
import re

from ..cfg import guard_atoms
from ..core import AnalysisError
from ..effects import access_path
from ..rules import state as S

# oracle, from the property statement: the kind of an entity (its marker key) -> its bucket
KIND_BUCKET = {
    "table_name": "tables", "sequence_name": "sequences", "type_name": "types", "domain_name": "domains",
    "schema_name": "schemas", "tablespace_name": "tablespaces", "database_name": "databases",
    "value": "ddl_properties", "comments": "comments",
}
ALWAYS = ["tables", "types", "sequences", "domains", "schemas", "ddl_properties"]


def _const_dict(node):
    if not isinstance(node, ast.Dict):
        return None
    out = {}
    for k, v in zip(node.keys, node.values):
        if not (isinstance(k, ast.Constant) and isinstance(k.value, str)):
            return None
        out[k.value] = v
    return out


def run(ck, ctx):
    _semantic(ck, ctx)
    n_bad = len([o for o in ck.obligations if not o.ok])
    try:
        _structural(ck, ctx)
    except AnalysisError as e:
        # the function was restructured; its behaviour on the representative flat results is what the property describes
        ck.note(f"structural rules not applicable to the current shape of the regrouping function ({e}); decided by O-group alone")
    from ..rules.fragments import run_fragment
    run_fragment(ck, ctx, "entities", tier=ck.tier, only_rules={"O-final"})


def _structural(ck, ctx):
    m = ctx.model
    f = m.func("simple_ddl_parser.output.core:Output.group_by_type_result")
    ck.explanation = (
        "E1 + E5 on Output.group_by_type_result / Output.format / Parser.run. The bucket literal holds the six always-present "
        "buckets as empty lists and only `comments` can be deleted; the marker -> bucket table equals the documented mapping; the "
        "regrouping loop visits every item of the flat result once, in order, and for the first marker key the item carries "
        "appends the item itself (comments: extends with the texts) to the bucket mapped from that same key, then leaves the "
        "marker loop; buckets grow by append / extend only; group_by_type is consulted only after the flat list is complete; "
        "every marker key has a writer in the grammar actions / the SET handler and the entity kinds of the grammar carry one.")
    assigns = {}
    for n in ast.walk(f.node):
        if isinstance(n, ast.Assign) and len(n.targets) == 1 and isinstance(n.targets[0], ast.Name) and isinstance(n.value, ast.Dict):
            assigns[n.targets[0].id] = n
    # ---- which dict literal is the bucket table and which the marker map: by use
    outer = [n for n in f.node.body if isinstance(n, ast.For) and any(isinstance(x, ast.For) for x in n.body)]
    if len(outer) != 1:
        raise AnalysisError("anchor vanished: the regrouping loop of Output.group_by_type_result")
    outer = outer[0]
    inner = [n for n in outer.body if isinstance(n, ast.For)]
    ck.ob("T-GROUP.loop", "outer loop walks self.final_result", access_path(outer.iter) == "self.final_result" and isinstance(outer.target, ast.Name),
          f"iterable {ast.unparse(outer.iter)}: every entity of the flat list must be visited, in order", f.loc(outer))
    if len(inner) != 1 or not isinstance(inner[0].iter, ast.Name) or inner[0].iter.id not in assigns:
        raise AnalysisError("anchor vanished: the marker loop of Output.group_by_type_result")
    inner = inner[0]
    ck.ob("T-GROUP.loop", "outer loop body is the marker loop only", len(outer.body) == 1 and not outer.orelse,
          "anything else in the loop body could skip or transform items", f.loc(outer))
    item = outer.target.id if isinstance(outer.target, ast.Name) else "?"
    keyvar = inner.target.id if isinstance(inner.target, ast.Name) else "?"
    mapname = inner.iter.id
    keys_map = _const_dict(assigns[mapname].value)
    if keys_map is None or not all(isinstance(v, ast.Constant) for v in keys_map.values()):
        raise AnalysisError("marker map is not a literal of string constants")
    keys_map = {k: v.value for k, v in keys_map.items()}
    for kind, bucket in KIND_BUCKET.items():
        ck.ob("T-GROUP.map", f"marker `{kind}` -> bucket `{bucket}`", keys_map.get(kind) == bucket,
              f"the marker table maps {kind!r} to {keys_map.get(kind)!r}; entities of that kind would be lost or land in the "
              "wrong bucket", f.loc(assigns[mapname]))
    for k in keys_map:
        if k not in KIND_BUCKET:
            ck.ob("T-GROUP.map", f"extra marker `{k}`", False,
                  f"marker {k!r} is not an entity kind of the documented output: an entity carrying it (before its own marker in "
                  "iteration order) would be misfiled", f.loc(assigns[mapname]))
    order = list(keys_map)
    ck.ob("T-GROUP.map", "the generic markers `value` / `comments` are tested after every *_name marker",
          set(order[-2:]) == {"value", "comments"},
          f"marker order {order}: the first marker found decides, and schema / database entities carry free-form option keys",
          f.loc(assigns[mapname]))
    # ---- the bucket literal
    bucket_names = [n for n in assigns if n != mapname]
    if len(bucket_names) != 1:
        raise AnalysisError("anchor vanished: the bucket literal of Output.group_by_type_result")
    bname = bucket_names[0]
    buckets = _const_dict(assigns[bname].value)
    for b in ALWAYS:
        v = buckets.get(b) if buckets else None
        ck.ob("T-GROUP.buckets", f"bucket `{b}` starts as an empty list", isinstance(v, ast.List) and not v.elts,
              "documented buckets are present even when empty", f.loc(assigns[bname]))
    for b, v in (buckets or {}).items():
        if b not in ALWAYS and b != "comments":
            ck.ob("T-GROUP.buckets", f"unexpected pre-populated bucket `{b}`", False,
                  "tablespaces / databases appear only when present", f.loc(assigns[bname]))
    dels = [n for n in ast.walk(f.node) if isinstance(n, ast.Delete)]
    pops = [n for n in ast.walk(f.node) if isinstance(n, ast.Call) and isinstance(n.func, ast.Attribute) and n.func.attr in ("pop", "popitem", "clear")
            and access_path(n.func.value) == bname]
    for d in dels:
        for t in d.targets:
            ok = (isinstance(t, ast.Subscript) and access_path(t.value) == bname and isinstance(t.slice, ast.Constant)
                  and t.slice.value == "comments")
            atoms = guard_atoms(f.node, d)
            ok = ok and atoms == [(f"{bname}['comments']", False)]
            ck.ob("T-GROUP.buckets", f"del {ast.unparse(t)}", ok,
                  f"only the empty `comments` bucket may be removed (guards: {atoms})", f.loc(d))
    ck.ob("T-GROUP.buckets", "no pop / clear on the bucket table", not pops, "", f.loc())
    # ---- the marker loop body
    ifs = [n for n in inner.body if isinstance(n, ast.If)]
    ck.ob("T-GROUP.loop", "marker loop body is one `if <key> in <item>`", len(inner.body) == 1 and len(ifs) == 1 and not inner.orelse
          and ast.unparse(ifs[0].test) == f"{keyvar} in {item}" and not ifs[0].orelse,
          f"found: {ast.unparse(inner.body[0].test) if ifs else '?'}", f.loc(inner))
    if ifs:
        body = ifs[0].body
        ck.ob("T-GROUP.loop", "matched branch ends with `break`", isinstance(body[-1], ast.Break),
              "without it an entity carrying two marker keys is filed twice", f.loc(body[-1]))
        brk_elsewhere = [n for n in ast.walk(outer) if isinstance(n, (ast.Break, ast.Continue, ast.Return)) and n is not body[-1]]
        ck.ob("T-GROUP.loop", "no other break / continue / return in the loops", not brk_elsewhere, "", f.loc(outer))
        # bucket variable: <v> = <buckets>.get(<map>.get(key)) ; created when missing
        appends = [n for n in ast.walk(ifs[0]) if isinstance(n, ast.Call) and isinstance(n.func, ast.Attribute) and n.func.attr in ("append", "extend", "insert")]
        app = [n for n in appends if n.func.attr == "append"]
        ext = [n for n in appends if n.func.attr == "extend"]
        ck.ob("T-GROUP.loop", "exactly one append and one extend site", len(app) == 1 and len(ext) == 1 and len(appends) == 2,
              f"{[ast.unparse(a)[:40] for a in appends]}", f.loc(ifs[0]))
        if len(app) == 1 and len(ext) == 1:
            a, e = app[0], ext[0]
            copies = {item, f"dict({item})", f"{item}.copy()", f"copy.copy({item})", f"copy.deepcopy({item})", f"deepcopy({item})"}
            ck.ob("T-GROUP.loop", "the item itself (or a plain copy) is appended", len(a.args) == 1 and ast.unparse(a.args[0]) in copies,
                  f"appended: {ast.unparse(a.args[0]) if a.args else '?'}: every entity must appear unchanged", f.loc(a))
            ck.ob("T-GROUP.loop", "comment texts are gathered with extend(item['comments'])",
                  len(e.args) == 1 and ast.unparse(e.args[0]) in (f"{item}['comments']", f'{item}["comments"]'), ast.unparse(e)[:60], f.loc(e))
            ga, ge = guard_atoms(f.node, S.stmt_of(f, a)), guard_atoms(f.node, S.stmt_of(f, e))
            ck.ob("T-GROUP.loop", "append for every kind but comments, extend for comments only",
                  (f"{keyvar} != 'comments'", True) in ga and (f"{keyvar} != 'comments'", False) in ge
                  or (f"{keyvar} == 'comments'", False) in ga and (f"{keyvar} == 'comments'", True) in ge,
                  f"guards: append {ga[-1:]}, extend {ge[-1:]}", f.loc(a))
            recv = {access_path(a.func.value), access_path(e.func.value)}
            ck.ob("T-GROUP.loop", "append and extend target the same bucket variable", len(recv) == 1 and None not in recv, str(recv), f.loc(a))
            bv = recv.pop() if len(recv) == 1 else None
            # every binding of the bucket variable inside the branch is <buckets>.get(<map>.get(key)) or <buckets>[<map>.get(key)]
            want = {f"{bname}.get({mapname}.get({keyvar}))", f"{bname}[{mapname}.get({keyvar})]", f"{bname}[{mapname}[{keyvar}]]",
                    f"{bname}.get({mapname}[{keyvar}])"}
            binds = [n for n in ast.walk(ifs[0]) if isinstance(n, ast.Assign) and any(isinstance(t, ast.Name) and t.id == bv for t in n.targets)]
            ck.ob("T-GROUP.loop", "bucket variable is looked up with the matched key", bool(binds) and all(ast.unparse(b.value) in want for b in binds),
                  f"{[ast.unparse(b.value) for b in binds]}", f.loc(ifs[0]))
            creates = [n for n in ast.walk(ifs[0]) if isinstance(n, ast.Assign) and any(
                isinstance(t, ast.Subscript) and access_path(t.value) == bname for t in n.targets)]
            for c in creates:
                t = c.targets[0]
                ok = ast.unparse(t.slice) in (f"{mapname}.get({keyvar})", f"{mapname}[{keyvar}]") and isinstance(c.value, ast.List) and not c.value.elts
                atoms = guard_atoms(f.node, c)
                ok = ok and (f"{bv} is None", True) in atoms
                ck.ob("T-GROUP.loop", f"bucket created on demand: {ast.unparse(c)[:60]}", ok,
                      f"a bucket may be (re)bound only to an empty list when it does not exist yet (guards {atoms[-1:]})", f.loc(c))
    # ---- buckets grow in order; result is the bucket table
    S.t_order(ck, ctx, [f], {bname, "_type", "self.final_result"})
    final = [n for n in ast.walk(f.node) if isinstance(n, ast.Assign) and any(access_path(t) == "self.final_result" for t in n.targets if isinstance(t, ast.Attribute))]
    ck.ob("T-GROUP.result", "self.final_result = <bucket table>", len(final) == 1 and isinstance(final[0].value, ast.Name) and final[0].value.id == bname
          and final[0] is f.node.body[-1], "", f.loc(final[0]) if final else f.loc())
    sorts = [n for n in ast.walk(f.node) if isinstance(n, ast.Call) and ((isinstance(n.func, ast.Name) and n.func.id in ("sorted", "reversed", "set"))
             or (isinstance(n.func, ast.Attribute) and n.func.attr in ("sort", "reverse")))]
    ck.ob("T-ORDER", "no sorting / reversing / set() in the regrouping", not sorts, str([ast.unparse(x)[:40] for x in sorts]), f.loc())
    # ---- flag flow
    fmt = m.func("simple_ddl_parser.output.core:Output.format")
    reads = [(g, n) for g, n in S.readers_of(ctx, "group_by_type", list(m.all_funcs())) if isinstance(n, (ast.Attribute, ast.Name))]
    for g, n in reads:
        if g.qual == "Output.__init__":
            ok = True
        elif g.qual == "Parser.run":
            # only as the keyword argument handed to Output(...)
            ok = any(isinstance(c, ast.Call) and any(k.arg == "group_by_type" and k.value is n for k in c.keywords) for c in ast.walk(g.node))
        elif g.qual == "Output.format":
            st = S.stmt_of(g, n)
            loops = [x for x in g.node.body if isinstance(x, ast.For)]
            ok = isinstance(st, ast.If) and ast.unparse(st.test) == "self.group_by_type" and bool(loops) and g.node.body.index(st) > g.node.body.index(loops[-1]) and \
                all(S.is_self_call("group_by_type_result")(b.value) for b in st.body if isinstance(b, ast.Expr)) and not st.orelse and len(st.body) == 1
        else:
            ok = False
        ck.ob("T-FLAGFLOW.group_by_type", f"group_by_type read in {g.qual}", ok,
              "the flag may only select the regrouping after the flat result is complete", g.loc(n))
    ck.floor("T-FLAGFLOW.group_by_type", 3)
    # ---- every marker has a writer; name-like top-level keys of entity productions are mapped
    writers = {k: [] for k in KIND_BUCKET}
    pat = re.compile(r"^\{.*\}_name$")
    for g in S.parser_family_funcs(ctx):
        for n in ast.walk(g.node):
            keys = []
            if isinstance(n, ast.Dict):
                keys = [k for k in n.keys if k is not None]
            elif isinstance(n, ast.Subscript) and isinstance(n.ctx, ast.Store):
                keys = [n.slice]
            for k in keys:
                if isinstance(k, ast.Constant) and k.value in writers:
                    writers[k.value].append(g.qual)
                elif isinstance(k, ast.JoinedStr) and pat.match(ast.unparse(k)[2:-1] if ast.unparse(k).startswith("f") else ""):
                    for kind in ("schema_name", "database_name"):
                        writers[kind].append(g.qual + " (pattern)")
    # marker keys computed from a keyword position, f"{p[i].lower()}_name": evaluate per grammar alternative of that action
    gm = ctx.grammar
    terms = set(gm.terminals)
    n_pat = 0
    for g in S.parser_family_funcs(ctx):
        if not g.name.startswith("p_") or g.name not in gm.func_of or gm.func_of[g.name] is not g:
            continue
        for n in ast.walk(g.node):
            keys = []
            if isinstance(n, ast.Dict):
                keys = [k for k in n.keys if k is not None]
            elif isinstance(n, ast.Subscript) and isinstance(n.ctx, ast.Store):
                keys = [n.slice]
            for k in keys:
                if not isinstance(k, ast.JoinedStr):
                    continue
                mt = re.match(r"^f'\{p\[(\d+)\]\.lower\(\)\}_name'$", ast.unparse(k))
                if not mt:
                    continue
                pos = int(mt.group(1))
                atoms = [a for a, pol in guard_atoms(g.node, S.stmt_of(g, n)) if pol]
                for lhs, rhs in gm.alternatives(g.name):
                    if pos - 1 >= len(rhs):
                        continue
                    sym = rhs[pos - 1]
                    if sym not in terms or sym in ("ID", "DQ_STRING", "STRING_BASE"):
                        continue
                    # the dict is built on the branch taken when the earlier, more specific tests fail; a terminal keyword
                    # token carries its own upper-cased text
                    key = f"{sym.lower()}_name"
                    n_pat += 1
                    reach = not any(f"'{sym}' in" in a or f'"{sym}" in' in a for a in atoms)
                    ck.ob("T-AGREE.markers", f"{g.qual}: `{lhs} -> {' '.join(rhs)}` yields marker `{key}`", key in keys_map or not reach,
                          f"the entity produced for this alternative carries the key {key!r}, which the regrouping does not know: it "
                          "would be in the flat result but in no bucket", g.loc(n))
    ck.count("pattern_marker_alternatives", n_pat)
    for kind, ws in writers.items():
        ck.ob("T-AGREE.markers", f"marker `{kind}` has a writer", bool(ws),
              f"writers: {sorted(set(ws))[:4]}: a marker nobody writes means entities of that kind carry another key and are lost "
              "by the regrouping", "")
    ck.assumptions += ["an entity's kind is identified by its marker key, as the property's bucket list implies",
                       "entity dicts of the supported kinds carry no marker key of another kind (checked for the statement forms of "
                       "the C18 entity fragments by that check's O-value obligations)"]


def _semantic(ck, ctx):
    """group_by_type_result evaluated abstractly (objabs) on representative flat results, against the regrouping the property
    describes - independent of how the function is written"""
    import copy
    import itertools
    from ..objabs import eval_method
    from ..pyabs import W, PyRaise, LexUnknown, NonUniform, deep_eq
    def w(*xs):
        return W(list(xs) + list(xs)[: 6 - len(xs)]) if len(set(xs)) > 1 else xs[0]
    ents = {
        "table_name": {"table_name": w("t", "Orders", "x_1"), "schema": None, "columns": [], "value": w("v", "k", "z")},
        "sequence_name": {"schema": None, "sequence_name": w("s1", "Seq", "q_2"), "increment": 1},
        "type_name": {"schema": w("a", "B", "c_1"), "type_name": w("ty", "Mood", "t_3"), "base_type": "ENUM", "properties": {"values": []}},
        "domain_name": {"schema": None, "domain_name": w("d", "Dom", "d_4"), "base_type": "int", "properties": {}},
        "schema_name": {"schema_name": w("sc", "Sch", "s_5"), "comments": w("'c'", "'d'", "'e'")},
        "tablespace_name": {"tablespace_name": w("ts", "Tsp", "t_6"), "properties": None, "type": None, "temporary": False},
        "database_name": {"database_name": w("db", "Dbs", "d_7")},
        "value": {"name": w("p", "Prop", "p_8"), "value": w("on", "1", "x")},
        "value-empty": {"name": w("e", "Emp", "e_9"), "value": ""},
    }
    comments = {"comments": [w(" c1", " note", " x"), w(" c2", " more", " y")]}
    kinds = list(ents)
    scenarios = {
        "one of each kind": [copy.deepcopy(ents[k]) for k in kinds],
        "reverse order": [copy.deepcopy(ents[k]) for k in reversed(kinds)],
        "same kinds separated by others": [copy.deepcopy(ents[k]) for k in ("tablespace_name", "table_name", "tablespace_name", "database_name",
                                                                          "sequence_name", "database_name", "table_name", "value", "value")],
        "with comments": [copy.deepcopy(ents["table_name"]), copy.deepcopy(ents["type_name"]), copy.deepcopy(comments)],
        "empty": [],
        "only a property with an empty value": [copy.deepcopy(ents["value-empty"])],
    }
    key = ("simple_ddl_parser.output.core", "Output")
    for name, flat in scenarios.items():
        try:
            _res, attrs = eval_method(ctx, key, {"parser_output": [], "output_mode": "sql", "group_by_type": True},
                                      {"final_result": copy.deepcopy(flat)}, "group_by_type_result")
        except PyRaise as pr:
            ck.ob("O-group", f"regrouping raises on: {name}", False, f"{type(pr.exc).__name__}: {pr.exc}", "Output.group_by_type_result")
            continue
        except (LexUnknown, NonUniform) as e:
            raise AnalysisError(f"group_by_type_result outside the interpreted subset ({name}): {e}")
        got = attrs.get("final_result")
        problem = None
        if not isinstance(got, dict):
            problem = f"result is {type(got).__name__}, not the bucket dict"
        else:
            for b in ALWAYS:
                if not isinstance(got.get(b), list):
                    problem = f"bucket `{b}` missing"
            exp = {}
            texts = []
            for item in flat:
                if "comments" in item and not any(k in item for k in KIND_BUCKET if k not in ("comments", "value")):
                    texts += item["comments"]
                    continue
                marker = [k for k in KIND_BUCKET if k in item][0]
                exp.setdefault(KIND_BUCKET[marker], []).append(item)
            if texts:
                exp["comments"] = texts
            if problem is None:
                for b, items in exp.items():
                    g = got.get(b)
                    if not isinstance(g, list) or len(g) != len(items) or not all(_eq(a, x) for a, x in zip(items, g)):
                        problem = f"bucket `{b}`: expected {len(items)} item(s) in source order, got {g if not isinstance(g, list) else len(g)}"
                        break
                extra = [b for b, v in got.items() if b not in exp and v]
                if problem is None and extra:
                    problem = f"unexpected content in bucket(s) {extra}"
                if problem is None and "comments" in got and not texts:
                    problem = "an empty comments bucket is reported"
        ck.ob("O-group", f"regrouping of: {name}", problem is None,
              problem or "every entity once, unchanged, in the bucket of its kind, in order; documented buckets present",
              "Output.group_by_type_result")


    # ---- O-run: run() hands the formatter's result through unchanged - whatever the flat result is (also when it is empty)
    from ..objabs import run_tail, format_output, ShapeMismatch
    no_tables = [copy.deepcopy(ents[k]) for k in kinds if k != "table_name"]
    flats = {"empty": [], "only a property": [copy.deepcopy(ents["value"])], "every kind but tables": no_tables,
             "comments only": [copy.deepcopy(comments)], "a sequence and comments": [copy.deepcopy(ents["sequence_name"]), copy.deepcopy(comments)]}
    for name, flat in flats.items():
        for grouped in (False, True):
            for mode in ("sql", "hql"):
                try:
                    want = format_output(ctx, copy.deepcopy(flat), mode, grouped)
                    got, dumps = run_tail(ctx, copy.deepcopy(flat), group_by_type=grouped, output_mode=mode)
                    ok = _eq(got, want) and type(got) is type(want) and not dumps
                    detail = "" if ok else f"run() returns {got!r}, the formatter {want!r}"[:400]
                    gj, _d = run_tail(ctx, copy.deepcopy(flat), group_by_type=grouped, output_mode=mode, json_dump=True)
                    from ..objabs import abstract_json_dumps
                    if ok and not _eq(gj, abstract_json_dumps(want)):
                        ok, detail = False, f"json_dump=True does not return json.dumps of the same object: {gj!r}"[:300]
                except PyRaise as pr:
                    ok, detail = False, f"raises {type(pr.exc).__name__}: {pr.exc}"
                except (LexUnknown, NonUniform, ShapeMismatch) as e:
                    raise AnalysisError(f"Parser.run outside the interpreted subset ({name}): {e}")
                ck.ob("O-run", f"run(group_by_type={grouped}, output_mode={mode!r}) on: {name}", ok,
                      "run() returns exactly what the formatter returns for the flat result (the grouped dict with its six documented buckets "
                      "when group_by_type is set - also for an empty result)" + ("" if ok else "; " + detail), "Parser.run (evaluated abstractly)")


def _eq(a, b):
    from ..pyabs import deep_eq, NonUniform
    try:
        return deep_eq(a, b)
    except NonUniform:
        return False
