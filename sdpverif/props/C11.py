"""C11 - dialect clauses captured under their key, orthogonal to the table body (DESIGN 4, C11)."""
from ..rules.fragments import run_fragment
from ..specs.clauses import GROUPS


def run(ck, ctx):
    ck.level = "model_checking"
    ck.explanation = (
        "E3 x E4, one fixed point per dialect group (hql, mysql, oracle, redshift, snowflake, mssql, bigquery, postgres, spark, "
        "db2): after a two-column table body, ANY sequence of the group's catalogue clauses, both keyword spellings. O-accept; "
        "O-segment (no symbol spans two clauses, every fold starts at a clause begin); O-value: folding a clause adds exactly its "
        "documented key, the value under that key contains every value word of the clause as written, and nothing else on the "
        "table changes (name, columns, keys, constraints, other clauses) - evaluated abstractly on the real action code. O-mode (output "
        "layer evaluated abstractly in the default mode, the owning dialect's mode and an unrelated mode): what the default mode reports "
        "under table_properties is at top level in the owning mode, common fields are equal in all three, no mode raises.")
    from ..rules.fragments import run_fragments
    run_fragments(ck, ctx, [dict(module="clauses", build_kw=dict(group=g, tier=ck.tier, final=("modes",))) for g in GROUPS])
    ck.assumptions += ["words are separated as pre_process_data intends", "value post-processing of individual clauses is not decided "
                       "beyond 'contains the words as written'",
                       "placement at top level vs table_properties per output mode is decided by the C10 checks"]
