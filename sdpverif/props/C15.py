"""C15 - parser objects do not interfere (DESIGN 4, C15)."""
import ast

from ..rules import state as S
from ..effects import access_path


def run(ck, ctx):
    m = ctx.model
    ck.explanation = (
        "E1 + E5: T-NOGLOBAL over the resolved call graph from Parser.__init__ / run / every t_* and p_* method: "
        "the parse path uses only the per-object handles stored by yacc.yacc(module=self) / lex.lex(object=self), "
        "parse() receives this object's lexer, no global/class/module store on the path, no mutable class-level "
        "value in the parser MRO, all lexer flags live on self.lexer, silent/normalize_names are read from self.")
    ck.count("call_sites_total", ctx.callgraph.total)
    ck.count("call_sites_resolved", ctx.callgraph.resolved)
    S.t_noglobal(ck, ctx, "C15")
    # a module-level container of mutable objects must not flow into a parse result (it would be shared by every run / object)
    S.t_alias(ck, ctx, list(S.run_reachable(ctx)))
    ck.floor("T-NOGLOBAL.handle", 2)
    ck.floor("T-NOGLOBAL.class-attr", 2)
    # the formatter / table classes used by run(): a mutable class-level value would be shared by the runs of all parser objects
    S.t_class_defaults(ck, ctx)
    out_init = m.func("simple_ddl_parser.output.core:Output.__init__")
    for attr in ("final_result", "tables_dict"):
        ok = any(isinstance(n, ast.Assign) and any(access_path(t) == f"self.{attr}" for t in n.targets if isinstance(t, ast.Attribute))
                 and ((isinstance(n.value, (ast.List, ast.Dict)) and not (getattr(n.value, "elts", None) or getattr(n.value, "keys", None)))
                      or (isinstance(n.value, ast.Call) and isinstance(n.value.func, ast.Name) and n.value.func.id in ("list", "dict", "OrderedDict", "defaultdict")
                          and not n.value.args and not n.value.keywords))
                 for n in ast.walk(out_init.node))
        ck.ob("T-FRESH.output", f"Output.__init__: self.{attr} starts empty", ok,
              "the per-run accumulators of the formatter must be created per Output object", out_init.loc())
    # all lexer-flag stores go through self.lexer (not a module/class level lexer)
    eff = S.effects_of(ctx)
    n = 0
    for f in S.parser_family_funcs(ctx):
        for a in eff.accesses(f):
            if a.kind in ("store", "mutate") and ".lexer." in "." + a.path:
                n += 1
                ck.ob("T-NOGLOBAL.flag-home", f"{f.qual}:{a.path}", a.path.startswith("self.lexer."),
                      "lexer flags must live on this object's own lexer", f.loc(a.node))
    ck.floor("T-NOGLOBAL.flag-home", 10)
    # per-object settings are read from self only
    for flag in ("silent", "normalize_names"):
        for f, node in S.readers_of(ctx, flag, S.run_reachable(ctx)):
            if isinstance(node, ast.Attribute):
                ck.ob("T-NOGLOBAL.setting", f"{f.qual}:{ast.unparse(node)}", access_path(node) == f"self.{flag}",
                      f"`{flag}` must be this object's own setting", f.loc(node))
    ck.assumptions += ["PLY's LRParser / Lexer objects returned by yacc.yacc()/lex.lex() are per call and share no mutable "
                       "state with one another except PLY's module globals, which the obligations above show unused",
                       "logging.basicConfig is process-global by nature (reviewed exception)"]
