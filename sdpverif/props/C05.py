"""C05 - invariance under keyword case (lexer / actions) and under line layout (E7 line machine; DESIGN 4 C05, 9.8)."""
import ast

from ..cfg import guard_atoms
from ..core import AnalysisError
from ..effects import access_path
from ..rules import state as S
from ..rules import case as K
from ..rules.fragments import run_fragment
from ..specs.clauses import GROUPS


def run(ck, ctx):
    m = ctx.model
    ck.level = "model_checking"
    ck.explanation = (
        "Keyword case. E3 x E4 (O-case): every keyword edge of the CREATE TABLE (columns, constraints, dialect clauses), CREATE "
        "SEQUENCE, ALTER TABLE and CREATE INDEX fragments is explored in both spellings; at every reachable configuration of the "
        "(spec x lexer x LALR) fixed point the two spellings must give the same token type and the same lexer-flag update - hence "
        "the same derivation - and the token value is upper-cased iff the type is not ID (identifiers keep their case). "
        "E5: (T-CASE-LOOKUP) every keyword-table look-up upper-cases the word, (T-CASE-LIT) no action compares a raw identifier "
        "position (resolved per grammar alternative) with an alphabetic literal without normalising, (T-CASE-VALUE) the only "
        "case-changing store to a token value is guarded by type != ID, (T-CASE-LINE) the statement-level words are matched "
        "against the upper-cased line. Glued comma: for every (flags, word) visited by the fixed points, the word with a trailing "
        "comma is typed and valued as the word alone. Line layout (E7, O-line / O-form): Parser.process_line is evaluated abstractly on "
        "line classes in every reachable state of the line machine - a continuation line (incl. lines whose first word merely begins "
        "like CREATE / SET / GO / USE ... or starts with a comma / parenthesis / keyword) is appended verbatim with one blank, a line "
        "ending with ';' hands over the assembled text without the ';' and clears the register, a blank line does nothing, leading and "
        "trailing blanks of a line do not matter - so by induction the statement text handed to the grammar is the same (up to blanks) "
        "wherever the line breaks fall; and everything parse_data does before the line loop is evaluated on exemplar scripts: CRLF vs "
        "LF, tabs vs blanks, amount of blanks, glued vs spaced commas / parentheses, blank lines, trailing blanks, missing final newline "
        "give the same lines. Seam to the fixed points (O-canon / O-glue / O-break): an edge cover of every fragment spec (all word "
        "classes in all contexts the fixed points explore) is rendered as scripts - one blank between words; commas and parentheses "
        "glued to their neighbours; a line break after every comma / opening parenthesis - and pushed through parse_data evaluated "
        "abstractly: the text reaching the grammar is cut by PLY's scanner (rules in PLY's order) into the same lexemes in all three "
        "renderings, which are the words the fixed points assume.")
    visited = set()
    frs = [("table", dict(label="constraints", constraints=True, set_null=False)), ("sequence", {})]
    frs += [("clauses", dict(group=g)) for g in GROUPS]
    frs += [("types", {})]
    try:
        import importlib
        importlib.import_module("sdpverif.specs.alter")
        frs += [("alter", {"judge": False})]
    except ImportError:
        ck.note("alter / index fragment not built yet")
    from ..rules.fragments import run_fragments
    jobs = []
    for mod, kw in frs:
        kw = dict(kw)
        label = kw.pop("label", None)
        jobs.append(dict(module=mod, label=label, only_rules={"O-case"}, build_kw=dict(tier=ck.tier, **kw)))
    for ex in run_fragments(ck, ctx, jobs):
        visited |= ex.visited_lex
    # ---- glued comma
    lm = ctx.lexer
    n_trail = 0
    for flags, wc in sorted(visited, key=lambda x: (repr(x[0]), x[1].name)):
        if wc.kind not in ("KW", "PLAIN", "NUM") or any(not all(ch.isalnum() or ch in "_-" for ch in e) for e in wc.exemplars):
            continue
        tw = lm.custom(wc.name + ",", [e + "," for e in wc.exemplars], "TRAIL")
        a, b = lm.step(flags, wc), lm.step(flags, tw)
        n_trail += 1
        same = a.type == b.type and a.flags == b.flags and a.raised == b.raised and _vals(a, wc) == _vals(b, tw)
        if not same:
            ck.ob("O-comma", f"`{wc.show},` typed {b.type} / `{wc.show}` typed {a.type} under flags {_short(flags)}", False,
                  "a word with a glued trailing comma must be lexed exactly as the word alone (type, value, flag update)", "lexer t_ID")
    ck.ob("O-comma", f"all {n_trail} (flags, word) pairs", True, "trailing-comma strip is total on the visited configurations", "lexer t_ID")
    ck.count("trailing_comma_pairs", n_trail)
    # ---- E5
    n = K.t_case_lookup(ck, ctx)
    ck.floor("T-CASE-LOOKUP", 10)
    K.t_case_lit(ck, ctx)
    ck.floor("T-CASE-LIT", 30)
    # case-changing stores to t.value
    n_val = 0
    for f in S.parser_family_funcs(ctx):
        for node in ast.walk(f.node):
            if isinstance(node, ast.Assign) and any(isinstance(t, ast.Attribute) and t.attr == "value" and isinstance(t.value, ast.Name)
                                                    and t.value.id == "t" for t in node.targets):
                changes_case = any(isinstance(x, ast.Call) and isinstance(x.func, ast.Attribute) and
                                   x.func.attr in ("upper", "lower", "title", "capitalize", "swapcase", "casefold") for x in ast.walk(node.value))
                n_val += 1
                if changes_case:
                    atoms = guard_atoms(f.node, node)
                    ok = _excludes_id(atoms)
                    ck.ob("T-CASE-VALUE", f"{f.qual}: {ast.unparse(node)[:60]}", ok,
                          f"a token value may be re-cased only when the token is not an identifier (guards: {atoms})", f.loc(node))
                else:
                    ck.ob("T-CASE-VALUE", f"{f.qual}: {ast.unparse(node)[:60]}", True, "does not change case", f.loc(node))
    ck.floor("T-CASE-VALUE", 2)
    # statement-level words on the upper-cased line
    for fname, attr in (("check_line_on_skip_words", "skip_regex"), ("parse_set_statement", "set_statement")):
        f = m.parser_method(fname)
        calls = [n for n in ast.walk(f.node) if isinstance(n, ast.Call) and isinstance(n.func, ast.Attribute)
                 and access_path(n.func.value) == f"self.{attr}"]
        if not calls:
            raise AnalysisError(f"anchor vanished: use of self.{attr} in {fname}")
        for c in calls:
            ck.ob("T-CASE-LINE", f"{f.qual}: self.{attr}.{c.func.attr}(<line>.upper())", bool(c.args) and K._normalised(c.args[0]),
                  "statement-level words (upper-case patterns) must be matched against the upper-cased line", f.loc(c))
    init = m.parser_method("__init__")
    from ..linemodel import LineMachine
    import re as _re
    _consts = LineMachine(ctx).consts
    for attr in ("skip_regex", "set_statement"):
        rx = _consts.get(attr)
        if not (isinstance(rx, tuple) and rx[:1] == ("regex",)):
            raise AnalysisError(f"anchor vanished: the compiled pattern self.{attr}")
        pat = rx[1].pattern
        bare = _re.sub(r"\\.", "", pat)
        ok = bare == bare.upper() or bool(rx[1].flags & _re.IGNORECASE)
        ck.ob("T-CASE-LINE", f"Parser.__init__: self.{attr} pattern is upper-case", ok, repr(pat), init.loc())
    f = m.parser_method("check_new_statement_start")
    sw = [n for n in ast.walk(f.node) if isinstance(n, ast.Call) and isinstance(n.func, ast.Attribute) and n.func.attr == "startswith"]
    for c in sw:
        ck.ob("T-CASE-LINE", "Parser.check_new_statement_start: <line>.upper().startswith(key)", K._normalised(c.func.value),
              "new-statement words must be recognised in any case", f.loc(c))
    ck.floor("T-CASE-LINE", 4)
    # the statement-level words are exactly the ones the property names, and they are matched as whole words: any further word
    # (or a prefix match) makes an ordinary continuation line - a column called update_ts, created_idx ... - end or drop a statement
    STARTERS, SKIPPED = {"ALTER", "CREATE", "DROP", "SET"}, {"GO", "USE", "INSERT", "GRANT", "DELETE"}
    words = []
    for n in ast.walk(f.node):
        if isinstance(n, ast.Constant) and isinstance(n.value, str) and n.value.strip().isalpha() and n.value.strip().isupper():
            words.append(n.value)
        if isinstance(n, ast.Name) and n.id in f.module.assigns and isinstance(f.module.assigns[n.id], (ast.List, ast.Tuple)):
            words += [x.value for x in f.module.assigns[n.id].elts if isinstance(x, ast.Constant) and isinstance(x.value, str)]
    if not words:
        # ... or kept on the parser object by the constructor
        from ..linemodel import LineMachine
        consts = LineMachine(ctx).consts
        for n in ast.walk(f.node):
            if isinstance(n, ast.Attribute) and isinstance(n.value, ast.Name) and n.value.id == "self" and isinstance(consts.get(n.attr), (tuple, list)) \
                    and consts[n.attr] and all(isinstance(x, str) for x in consts[n.attr]):
                words += list(consts[n.attr])
    if not words:
        raise AnalysisError("anchor vanished: the new-statement words of check_new_statement_start")
    for wd in sorted(set(words)):
        ck.ob("T-LINE.words", f"new-statement word {wd!r}", wd.strip() in STARTERS and wd != wd.rstrip(),
              "must be one of CREATE / ALTER / DROP / SET followed by a blank (whole-word match on the line start)", f.loc())
    rx = _consts["skip_regex"][1]
    hit = sorted(w for w in SKIPPED if rx.match(w + " x") and rx.match(w))
    glued = sorted(w for w in SKIPPED if rx.match(w + "X y") or rx.match(w + "_1 int"))
    others = sorted(w for w in ("CREATE", "ALTER", "DROP", "SET", "SELECT", "UPDATE", "COMMENT", "GOTO", "USER", "INSERTED", "GRANTED", "DELETED", "ID",
                                "PRIMARY", "WITH", "OPTIONS", "ON", "GO_LIVE", "USE_CASE") if rx.match(w + " x"))
    ck.ob("T-LINE.words", "skipped line starts are exactly GO / USE / INSERT / GRANT / DELETE as whole words",
          hit == sorted(SKIPPED) and not glued and not others,
          f"pattern {rx.pattern!r}: matches {hit}, matches as a prefix of a longer word {glued}, matches other words {others}", init.loc())
    # ---- E7: line layout.  Per-line laws of the line machine + line formation
    from ..specs import lines as L
    lmach = L.check_layout_laws(ck, ctx)
    L.check_line_formation(ck, ctx, lmach)
    ck.floor("O-line", 30)
    ck.floor("O-form", 20)
    # ---- the seam between the line pre-processing and the fixed points: the sentences of the fragment specs themselves
    from ..specs import seam
    seam_frs = [(mod, dict(kw)) for mod, kw in frs] + [("entities", {}), ("kwnames", {})]
    for _m, kw in seam_frs:
        kw.pop("judge", None)
    seam.check_seam(ck, ctx, [(mod, (dict(kw, judge=False) if mod == "alter" else kw)) for mod, kw in seam_frs])
    ck.floor("O-glue", 10)
    ck.assumptions += ["line layout is decided at line-class level (E7): the laws are shown for the listed classes of continuation / final / "
                       "blank / padded lines in every reachable state of the line machine, and line formation for the listed exemplar scripts "
                       "and layout variants; layout invariance for `;`-terminated statements follows by induction over the lines",
                       "lines starting with a statement-level word inside a statement are excluded by the property itself",
                       "blanks inside string literals and the spacing the pre-processor applies inside literals are C07's concern"]


def _excludes_id(atoms):
    """the guards of the statement rule out t.type == 'ID', however that is written"""
    for text, truth in atoms:
        try:
            e = ast.parse(text, mode="eval").body
        except SyntaxError:
            continue
        if not (isinstance(e, ast.Compare) and len(e.ops) == 1 and ast.unparse(e.left) == "t.type"):
            continue
        op, c = e.ops[0], e.comparators[0]
        has_id = (isinstance(c, ast.Constant) and c.value == "ID") or (
            isinstance(c, (ast.Tuple, ast.List, ast.Set)) and any(isinstance(x, ast.Constant) and x.value == "ID" for x in c.elts))
        if not has_id:
            continue
        if (isinstance(op, (ast.NotEq, ast.NotIn)) and truth) or (isinstance(op, (ast.Eq, ast.In)) and not truth):
            return True
    return False


def _vals(r, wc):
    v = r.value
    ex = getattr(v, "ex", None)
    if ex is None:
        return (v,)
    return tuple(ex)


def _short(flags):
    return {k: v for k, v in flags if v not in (False, 0)}
