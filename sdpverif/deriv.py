"""E4 - derivation analysis on (fragment spec x lexer transducer x LALR automaton).

A fragment spec is an NFA over word classes whose edges carry a segment tag
(kind, begin, role).  The explorer builds the reachable set of configurations
(nfa state set, lexer flags, LR stack with yield summaries, instance parity)
to a fixed point, driving the freshly generated LALR tables exactly as PLY's
LRParser.parse does, and evaluates every semantic action abstractly (pyabs)
on lock-step word values, so that obligations can be stated on what the
actions *produce*:

  O-accept   no missing action entry; accepting spec states reach `accept`
  O-segment  no non-accumulator symbol spans two segment instances; an
             accumulator fold starts at a segment begin
  O-value    the value produced by a fold equals what the spec (written from
             the property statement, in terms of output keys) expects from
             the words of the folded segment, and nothing else changes
  O-raise    no action raises on a derivation of the fragment
  O-case     both spellings of a keyword give the same token type / flags,
             and the value is upper-cased iff the type is not ID

Configuration identity is derivation-level (values are not part of it); the
abstract values ride along the BFS tree, so every transition of the finite
product is evaluated once, in its BFS-minimal context.
"""
import collections
import copy

from .core import AnalysisError
from .pyabs import Interp, Obj, W, YP, PyRaise, Raised, LexUnknown, NonUniform, deep_eq

MAX_CONFIGS = 400_000
MAX_SECONDS = 900
COUNTER_RANGE = (-6, 14)
MAX_DEPTH = 64


class Tag:
    __slots__ = ("kind", "begin", "role")

    def __init__(self, kind, begin, role=None):
        self.kind, self.begin, self.role = kind, begin, role

    def __repr__(self):
        return f"{self.kind}{'^' if self.begin else ''}{':' + self.role if self.role else ''}"


class Spec:
    """segment-tagged NFA over word classes"""

    def __init__(self, name, lexmodel, accumulators):
        self.name, self.lm = name, lexmodel
        self.e = collections.defaultdict(list)
        self.acc = set()
        self.n = 0
        self.accumulators = set(accumulators)
        self.kinds = {}
        self.start = self.new()
        self.case_both = True      # keyword edges in both spellings

    def new(self):
        self.n += 1
        return self.n

    def eps(self, a, b):
        self.e[a].append((None, None, b))

    def edge(self, a, wc, tag, b=None):
        b = b or self.new()
        self.e[a].append((wc, tag, b))
        return b

    def words(self, a, kind, ws, begin=True):
        """a run of words of one segment; ws items: wordclass | (wordclass, role) | ('KW', k) | ('KW', k, role)"""
        first = begin
        for w in ws:
            role = None
            if isinstance(w, tuple) and w and w[0] == "KW":
                k = w[1]
                role = w[2] if len(w) > 2 else None
                b = self.new()
                self.e[a].append((self.lm.kw(k, "upper"), Tag(kind, first, role), b))
                if self.case_both:
                    self.e[a].append((self.lm.kw(k, "other"), Tag(kind, first, role), b))
                a = b
            else:
                if isinstance(w, tuple):
                    w, role = w
                a = self.edge(a, w, Tag(kind, first, role))
            first = False
        return a

    def eclose(self, S):
        st, out = list(S), set(S)
        while st:
            x = st.pop()
            for w, t, y in self.e[x]:
                if w is None and y not in out:
                    out.add(y)
                    st.append(y)
        return frozenset(out)


class Top:
    """value of an action the abstract evaluator could not evaluate"""

    def __repr__(self):
        return "TOP"

    def __deepcopy__(self, memo):
        return self

    def __copy__(self):
        return self


TOP = Top()


def has_top(v, depth=0):
    if isinstance(v, Top):
        return True
    if depth > 6:
        return False
    if isinstance(v, dict):
        return any(has_top(x, depth + 1) for x in v.values())
    if isinstance(v, (list, tuple)):
        return any(has_top(x, depth + 1) for x in v)
    return False


class Entry:
    __slots__ = ("state", "summ", "val", "sym")

    def __init__(self, state, summ, val, sym):
        self.state, self.summ, self.val, self.sym = state, summ, val, sym


class Summ:
    """yield summary of a non-accumulator stack entry"""
    __slots__ = ("first_kind", "first_begin", "i_first", "i_last", "multi", "words")

    def __init__(self, first_kind, first_begin, i_first, i_last, multi, words):
        self.first_kind, self.first_begin = first_kind, first_begin
        self.i_first, self.i_last, self.multi, self.words = i_first, i_last, multi, words

    def key(self):
        # the classes of the role-bearing (value-carrying) words still pending in this entry are part of the configuration, so
        # that every alternative word class of a position reaches the reductions that consume it with its own value; a set,
        # so that repetition inside list constructs stays finite
        sig = frozenset((t.role, w.name) for (w, t, _v) in self.words if t.role and not t.role.startswith("tag"))
        return (self.first_kind, self.first_begin, self.i_first, self.i_last, self.multi, sig)


ACC = "ACC"


class Finding:
    def __init__(self, rule, key, detail, witness):
        self.rule, self.key, self.detail, self.witness = rule, key, detail, witness


class Reduction:
    """information handed to the spec's value oracle for one reduction"""
    __slots__ = ("prod", "func", "rhs", "old_vals", "new", "lhs", "ctx_path", "tainted")


class Explorer:
    def __init__(self, ctx, spec, oracle=None, self_attrs=None, on_accept=None):
        self.ctx, self.spec, self.oracle = ctx, spec, oracle
        self.on_accept = on_accept
        if on_accept is None and oracle is not None and hasattr(oracle, "on_accept"):
            self.on_accept = oracle.on_accept
        self.gm, self.lm = ctx.grammar, ctx.lexer
        self.model = ctx.model
        self.action, self.goto, self.prods = self.gm.action, self.gm.goto, self.gm.prods
        self.defaulted = self.gm.defaulted
        self.self_attrs = dict(self_attrs or {"normalize_names": False, "silent": True})
        self.findings = {}
        self.n_configs = 0
        self.n_trans = 0
        self.max_depth = 0
        self.n_reductions = 0
        self.n_actions_evaluated = 0
        self.n_unevaluated = 0
        self.unevaluated = collections.Counter()
        self.n_value_checks = 0
        self.reduced_by = collections.Counter()
        self.samples = []
        self.flags_touched = set()
        self.visited_lex = set()
        self.n_split_evaluations = 0
        self._memo = {}
        self._oracle_seen = set()
        self.last_mkey = None
        self.n_memo_hits = 0
        self._deps = {}
        for a in spec.accumulators:
            if a not in self.gm.nonterminals:
                raise AnalysisError(f"spec {spec.name}: level accumulator `{a}` is not a nonterminal of the grammar "
                                    "(renamed? re-confirm the spec)")

    # ------------------------------------------------------------------
    def add(self, rule, key, detail, witness):
        k = (rule, key)
        if k not in self.findings:
            self.findings[k] = Finding(rule, key, detail, witness)

    def path_of(self, cfg):
        out = []
        while cfg.parent is not None:
            out.append(cfg.word)
            cfg = cfg.parent
        return list(reversed(out))

    def render(self, words):
        return " ".join(w.show for w in words)

    # ------------------------------------------------------------------
    def run_action(self, prod, vals, below):
        """abstractly evaluate the action of `prod`; returns (value, tainted)"""
        f = self.gm.func_of.get(prod.func)
        if f is None:
            raise AnalysisError(f"production {prod} bound to unknown function {prod.func}")
        if any(has_top(v) for v in vals):
            return TOP, True
        # memo: an action is a function of its operands (and, for the few that read them, of the lexer flags / the stack below)
        mkey = None
        try:
            dep = self._action_deps(f)
            mkey = (prod.number, _freeze(vals), self.cur_flags if dep[0] else None, _freeze(below) if dep[1] else None)
            hit = self._memo.get(mkey)
        except TypeError:
            hit, mkey = None, None
        if hit is not None:
            self.n_actions_evaluated += 1
            self.n_memo_hits += 1
            kind, payload = hit
            self.last_mkey = mkey
            if kind == "value":
                # the operands were not touched (the action did not run): only the result is copied
                return copy.deepcopy(payload), False
            raise payload
        self.last_mkey = mkey
        # the action mutates its operands in place; sibling configurations share them: run on a private copy
        try:
            vals0 = copy.deepcopy(list(vals))
        except Exception:
            vals0 = None
        vals = copy.deepcopy(list(vals))
        yp = YP([None] + list(vals), below)
        it = Interp(self.model, self.gm.tokens_ns, Obj(**dict(self.cur_flags)), self_attrs=self.self_attrs)
        try:
            it.call_func(f, [yp])
            self.n_actions_evaluated += 1
            if mkey is not None and self.self_attrs == it.self_attrs:
                self._memo[mkey] = ("value", copy.deepcopy(yp.values[0]))
            return yp.values[0], False
        except (PyRaise, Raised) as ex:
            if mkey is not None:
                self._memo[mkey] = ("raise", ex)
            raise
        except (NonUniform, LexUnknown) as e:
            if vals0 is not None:
                merged = self._per_exemplar(prod, f, vals0, below, str(e))
                if merged is not None:
                    if merged[0] == "value":
                        self.n_actions_evaluated += 1
                        self.n_split_evaluations += 1
                        return merged[1], False
                    return TOP, True
            if isinstance(e, NonUniform) and self._case_sensitive(prod, f, vals0, below):
                # the exemplars of every word involved differ in letter case only, yet the action branches differently
                self.add("O-case", f"{self.spec.name}: {prod.func} treats the spellings of a word differently on `{prod}`",
                         f"the action's control flow depends on the letter case of a word of the statement ({str(e)[:120]})",
                         self.render(self._cur_ctx))
                return TOP, True
            self.n_unevaluated += 1
            self.unevaluated[f"{prod.func}: {str(e)[:90]}"] += 1
            return TOP, True

    def _action_deps(self, f):
        """(reads lexer flags, reads the parser stack below the production) for an action and the methods it calls"""
        if f.id in self._deps:
            return self._deps[f.id]
        import ast as _ast
        seen, st = set(), [f]
        lexer = stack = False
        methods = self.model.parser_methods()
        while st:
            g = st.pop()
            if g.id in seen:
                continue
            seen.add(g.id)
            for n in _ast.walk(g.node):
                if isinstance(n, _ast.Attribute) and n.attr == "lexer":
                    lexer = True
                if isinstance(n, _ast.Subscript) and isinstance(n.value, _ast.Name) and n.value.id == "p" and \
                        isinstance(n.slice, _ast.UnaryOp):
                    stack = True
                if isinstance(n, _ast.Subscript) and isinstance(n.value, _ast.Name) and n.value.id == "p" and \
                        not isinstance(n.slice, (_ast.Constant, _ast.Slice)):
                    stack = True        # computed index: may be negative
                if isinstance(n, _ast.Call) and isinstance(n.func, _ast.Attribute) and isinstance(n.func.value, _ast.Name) \
                        and n.func.value.id == "self" and n.func.attr in methods:
                    st.append(methods[n.func.attr])
        self._deps[f.id] = (lexer, stack)
        return self._deps[f.id]

    def _per_exemplar(self, prod, f, vals0, below, why):
        """The action is not uniform on the word classes (its control flow depends on a feature in which the exemplars of a class
        differ).  Evaluate it once per exemplar on the projected (concrete) values and zip the results back into a lock-step
        value; the value oracle then judges every exemplar.  When the results cannot be zipped (different shapes) the words of
        one class - which the fragment spec, written from the property, treats as equivalent - are handled in structurally
        different ways: reported as O-uniform."""
        width = None
        for v in _leaves(vals0) + _leaves(below):
            if isinstance(v, W):
                width = len(v.ex)
                break
        if width is None:
            return None
        results, errors = [], []
        for i in range(width):
            vi = [_project(v, i) for v in copy.deepcopy(vals0)]
            bi = [_project(b, i) for b in copy.deepcopy(below)]
            yp = YP([None] + vi, bi)
            it = Interp(self.model, self.gm.tokens_ns, Obj(**dict(self.cur_flags)), self_attrs=self.self_attrs)
            try:
                it.call_func(f, [yp])
                results.append(yp.values[0])
                errors.append(None)
            except (PyRaise, Raised) as ex:
                results.append(None)
                errors.append(f"raises {ex}")
            except (NonUniform, LexUnknown):
                return None
        shown = self.render(self._cur_ctx)
        if any(errors) and not all(errors):
            i_ok, i_bad = errors.index(None), [k for k, e in enumerate(errors) if e][0]
            self.add("O-uniform", f"{self.spec.name}: {prod.func} raises for some words of a class only on `{prod}`",
                     f"exemplar #{i_bad} of the word classes makes the action fail ({errors[i_bad][:100]}) while exemplar #{i_ok} does not: "
                     f"words the property treats alike are handled differently ({why[:100]})", shown)
            return ("finding",)
        if all(errors):
            return None
        try:
            return ("value", _zip(results))
        except _ShapeMismatch as sm:
            rule = "O-case" if self._case_sensitive(prod, f, vals0, below) else "O-uniform"
            self.add(rule, f"{self.spec.name}: {prod.func} handles the words of one class in structurally different ways on `{prod}`",
                     f"{sm}; the fragment treats these words as equivalent (same kind of name / number / keyword spelling): ({why[:100]})", shown)
            return ("finding",)

    def _case_sensitive(self, prod, f, vals0, below):
        """the action is not uniform on the word classes as given; it IS uniform once every word whose exemplars differ in letter
        case only is replaced by a single spelling: the control flow depends on the case of such a word"""
        if vals0 is None:
            return False
        changed = [False]

        def coll(v, d=0):
            if isinstance(v, W):
                if all(isinstance(x, str) for x in v.ex) and len({x.upper() for x in v.ex}) == 1:
                    changed[0] = True
                    return v.ex[0]
                return v
            if d > 8:
                return v
            if isinstance(v, dict):
                return {coll(k, d + 1): coll(x, d + 1) for k, x in v.items()}
            if isinstance(v, list):
                return [coll(x, d + 1) for x in v]
            if isinstance(v, tuple):
                return tuple(coll(x, d + 1) for x in v)
            return v
        vals1 = [coll(v) for v in vals0]
        if not changed[0]:
            return False
        it = Interp(self.model, self.gm.tokens_ns, Obj(**dict(self.cur_flags)), self_attrs=self.self_attrs)
        try:
            it.call_func(f, [YP([None] + vals1, [coll(b) for b in copy.deepcopy(below)])])
            return True
        except (NonUniform, LexUnknown):
            return False
        except (PyRaise, Raised):
            return True

    def reduce_all(self, stack, tt, ctx_words, cur_word):
        """apply reductions until tt can be shifted; returns (stack, shift_state | 'ACCEPT') or None"""
        self._cur_ctx = ctx_words + ([cur_word] if cur_word else [])
        # actions mutate their operands in place and sibling configurations share the parent's stack entries: the operands
        # of every reduction are deep-copied at the reduction (not the whole stack at every transition)
        stack = list(stack)
        while True:
            s = stack[-1].state
            act = self.defaulted[s] if s in self.defaulted else self.action[s].get(tt)
            if act is None:
                return None
            if act > 0:
                return stack, act
            if act == 0:
                return stack, "ACCEPT"
            p = self.prods[-act]
            self.n_reductions += 1
            self.reduced_by[p.func] += 1
            rhs = stack[len(stack) - p.len:] if p.len else []
            summ = self.summarize(p, rhs, ctx_words, cur_word)
            vals = [e.val for e in rhs]          # never mutated here: run_action works on a private copy
            old_vals = vals if (self.oracle is not None and p.name in self.spec.accumulators) else None
            below = [e.val for e in stack[:len(stack) - p.len]]
            self.last_mkey = None
            try:
                new, tainted = self.run_action(p, vals, below)
            except PyRaise as pr:
                self.add("O-raise", f"{self.spec.name}: {p.func} raises {type(pr.exc).__name__} on `{p}`",
                         f"the action raises {type(pr.exc).__name__}: {pr.exc} while reducing `{p}`; the statement "
                         "cannot be parsed (exception or lost)", self.render(ctx_words + [cur_word]) if cur_word else self.render(ctx_words))
                return "RAISED"
            except Raised as r:
                self.add("O-raise", f"{self.spec.name}: {p.func} raises {r.cls_name} on `{p}`",
                         f"explicit raise in the action: {r.text}", self.render(ctx_words))
                return "RAISED"
            okey = None
            if self.oracle is not None and not tainted and self.last_mkey is not None and old_vals is not None:
                okey = (self.last_mkey, tuple((e.summ if e.summ is ACC or e.summ is None else
                                               tuple((w.name, t.kind, t.begin, t.role) for (w, t, _v) in e.summ.words)) for e in rhs))
                if okey in self._oracle_seen:
                    okey = "seen"
                else:
                    self._oracle_seen.add(okey)
            if self.oracle is not None and not tainted and okey != "seen":
                red = Reduction()
                red.prod, red.func, red.rhs, red.old_vals, red.new, red.lhs = p, p.func, rhs, old_vals, new, p.name
                red.ctx_path = ctx_words
                red.tainted = tainted
                self.n_value_checks += self.oracle(self, red) or 0
            if p.len:
                del stack[len(stack) - p.len:]
            stack.append(Entry(self.goto[stack[-1].state][p.name], summ, new, p.name))
            if len(stack) > MAX_DEPTH:
                raise AnalysisError(f"spec {self.spec.name}: LR stack deeper than {MAX_DEPTH} (spec not left-recursive?)")

    def summarize(self, p, rhs, ctx_words, cur_word):
        """yield summary of the new entry + O-segment obligations"""
        accs = self.spec.accumulators
        ys = [e for e in rhs if e.summ is not None]
        if not ys:
            return ACC if p.name in accs and rhs else None
        non_acc = [e for e in ys if e.summ is not ACC]
        span_multi = False
        if non_acc:
            insts = set()
            for e in non_acc:
                insts.add(e.summ.i_first)
                insts.add(e.summ.i_last)
            span_multi = any(e.summ.multi for e in non_acc) or len(insts) > 1
        any_acc = any(e.summ is ACC for e in ys)
        wit = self.render(ctx_words)
        if p.name not in accs:
            if any_acc:
                # a non-accumulator swallowing an accumulator (e.g. alter statements wrap defcolumn): allowed
                # only if the spec lists the nonterminal as a wrapper
                if p.name not in getattr(self.spec, "wrappers", ()):
                    self.add("O-segment", f"{self.spec.name}: `{p.name}` (by {p.func}) swallows a level accumulator",
                             f"`{p}` reduces over an accumulator", wit)
                return ACC
            if span_multi and getattr(self.spec, "one_segment_statements", False):
                span_multi = False          # the statement is a single declaration: there is no neighbour to merge with
            if span_multi:
                allowed = getattr(self.spec, "span_ok", {}).get(p.name)
                kset = set()
                for e in non_acc:
                    for (w_, t_, v_) in e.summ.words:
                        kset.add(t_.kind)
                if allowed is not None and kset <= allowed:
                    span_multi = False
            if span_multi:
                kinds = sorted({e.summ.first_kind for e in non_acc})
                self.add("O-segment", f"{self.spec.name}: `{p}` spans segments {kinds}",
                         f"the non-accumulator `{p.name}` (by {p.func}) covers words of more than one segment instance "
                         f"{kinds}: a word of one declaration is merged into its neighbour", wit)
            first = non_acc[0].summ
            words = tuple(w for e in non_acc for w in e.summ.words)
            return Summ(first.first_kind, first.first_begin, first.i_first, non_acc[-1].summ.i_last, span_multi, words)
        # accumulator fold: its first non-accumulator symbol must start at a segment begin
        for e in rhs:
            if e.summ is None or e.summ is ACC:
                continue
            if not e.summ.first_begin and not getattr(self.spec, "one_segment_statements", False):
                self.add("O-segment", f"{self.spec.name}: fold `{p}` starts inside a `{e.summ.first_kind}` segment",
                         f"the accumulator fold `{p}` (by {p.func}) begins in the middle of a `{e.summ.first_kind}` segment: "
                         "the head of that segment was consumed separately", wit)
            break
        return ACC

    # ------------------------------------------------------------------
    def explore(self):
        spec = self.spec

        class Cfg:
            __slots__ = ("S", "flags", "stack", "inst", "parent", "word", "step")

        acc_summary = getattr(spec, "acc_summary", None)

        def ident(S, flags, stack, inst):
            # accumulator entries are collapsed to a constant - except for what the spec asks to keep of their value
            return (S, flags, tuple((e.state, e.summ.key() if isinstance(e.summ, Summ) else
                                     ((e.summ, acc_summary(e.sym, e.val)) if (acc_summary and e.summ is ACC) else e.summ)) for e in stack), inst)

        start = Cfg()
        start.S, start.flags, start.stack, start.inst = spec.eclose({spec.start}), self.lm.start, (Entry(0, None, None, "$"),), 0
        start.parent, start.word, start.step = None, None, None
        seen = {ident(start.S, start.flags, start.stack, start.inst)}
        q = collections.deque([start])
        import time as _time
        t0 = _time.time()
        while q:
            cur = q.popleft()
            self.n_configs += 1
            if self.n_configs > MAX_CONFIGS:
                raise AnalysisError(f"spec {spec.name}: more than {MAX_CONFIGS} configurations")
            if self.n_configs % 2000 == 0 and _time.time() - t0 > MAX_SECONDS:
                raise AnalysisError(f"spec {spec.name}: exploration exceeds {MAX_SECONDS}s ({self.n_configs} configurations so far)")
            self.max_depth = max(self.max_depth, len(cur.stack))
            ctx_words = self.path_of(cur)
            moves = collections.OrderedDict()
            for x in sorted(cur.S):
                for w, t, y in spec.e[x]:
                    if w is not None:
                        moves.setdefault((w, t.kind, t.begin, t.role), [w, t, set()])[2].add(y)
            if cur.S & spec.acc:
                self.n_trans += 1
                self.cur_flags = cur.flags
                r = self.reduce_all(cur.stack, "$end", ctx_words, None)
                if r is None:
                    self.add("O-accept", f"{spec.name}: end of statement not accepted (segment {cur.step[1].kind if cur.step else '-'})",
                             "the statement is complete for the fragment but the parser has no action on end of input: "
                             "p_error is called and the statement is lost", self.render(ctx_words))
                elif r != "RAISED" and r[1] == "ACCEPT":
                    final = r[0][-1].val
                    if len(self.samples) < 12:
                        self.samples.append({"witness": self.render(ctx_words), "result": _short(final)})
                    if self.on_accept is not None:
                        steps, c = [], cur
                        while c.parent is not None:
                            steps.append(c.step)
                            c = c.parent
                        self.on_accept(self, final, list(reversed(steps)))
                elif r != "RAISED":
                    self.add("O-accept", f"{spec.name}: end of statement shifts instead of accepting", "", self.render(ctx_words))
            for (w, t, ys) in moves.values():
                self.n_trans += 1
                wit = self.render(ctx_words + [w])
                try:
                    lr = self.lm.step(cur.flags, w)
                except NonUniform as e:
                    rule = "O-case" if (w.kind == "KW" and w.case == "other") else "O-uniform"
                    self.add(rule, f"{spec.name}: the lexer treats the words of class `{w.name}` differently (segment {t.kind})",
                             f"exemplars {list(w.exemplars)[:6]}: {str(e)[:160]}; the fragment (written from the property) treats these "
                             "words as equivalent in this position" + (" - they are spellings of one keyword" if rule == "O-case" else ""), wit)
                    continue
                self.visited_lex.add((cur.flags, w))
                self.check_case(cur.flags, w, lr, wit)
                if lr.raised:
                    self.add("O-accept", f"{spec.name}: lexer raises on `{w.show}`",
                             f"{lr.raised}", wit)
                    continue
                if lr.type is None:
                    self.add("O-accept", f"{spec.name}: lexer drops `{w.show}`", "", wit)
                    continue
                if lr.type not in self.lm.tokens:
                    self.add("O-accept", f"{spec.name}: lexer emits unknown token type {lr.type}", "", wit)
                    continue
                self.cur_flags = lr.flags
                runaway = [(k, v) for k, v in lr.flags if isinstance(v, int) and not isinstance(v, bool)
                           and not (COUNTER_RANGE[0] <= v <= COUNTER_RANGE[1])]
                if runaway:
                    self.add("O-counter", f"{spec.name}: lexer counter `{runaway[0][0]}` leaves its range (segment {t.kind})",
                             f"{runaway[0][0]} = {runaway[0][1]} after the words shown: the counter no longer follows the brackets / "
                             "parentheses of the statement (it must return to 0 at the end of every balanced construct), so every later "
                             "comma / parenthesis of the statement is mis-typed", wit)
                    continue
                for (k, v), (k0, v0) in zip(lr.flags, self.lm.start):
                    if v != v0:
                        self.flags_touched.add(k)
                r = self.reduce_all(cur.stack, lr.type, ctx_words, w)
                if r is None:
                    st = cur.stack[-1].state
                    self.add("O-accept", f"{spec.name}: `{w.kw or w.kind}` typed {lr.type} has no action (segment {t.kind})",
                             f"after the words shown the parser cannot continue with token {lr.type} (value `{w.show}`): "
                             "p_error is called and the statement is lost or mangled", wit)
                    continue
                if r == "RAISED":
                    continue
                stack, act = r
                if act == "ACCEPT":
                    continue
                ninst = (cur.inst + 1) % 2 if t.begin else cur.inst
                summ = Summ(t.kind, t.begin, ninst, ninst, False, ((w, t, lr.value),))
                nstack = tuple(stack) + (Entry(act, summ, lr.value, lr.type),)
                nS = spec.eclose(ys)
                idn = ident(nS, lr.flags, nstack, ninst)
                if idn not in seen:
                    seen.add(idn)
                    n = Cfg()
                    n.S, n.flags, n.stack, n.inst, n.parent, n.word = nS, lr.flags, nstack, ninst, cur, w
                    n.step = (w, t, lr.value)
                    q.append(n)
        return self

    def check_case(self, flags, w, lr, wit):
        if w.kind != "KW" or w.case != "other":
            return
        up = self.lm.step(flags, self.lm.kw(w.kw, "upper"))
        same = (up.type == lr.type and up.flags == lr.flags and up.raised == lr.raised)
        if not same:
            self.add("O-case", f"{self.spec.name}: keyword {w.kw} typed {up.type} in upper case but {lr.type} as `{w.show}`",
                     f"the lexer treats the two spellings differently (type {up.type}/{lr.type}, "
                     f"flags equal: {up.flags == lr.flags})", wit)
        elif lr.type != "ID" and lr.type not in ("LT", "RT") and lr.value_kind not in ("upper",):
            self.add("O-case", f"{self.spec.name}: keyword {w.kw} keeps its spelling `{w.show}` as token {lr.type}",
                     "keyword token values must be upper-cased so that actions see one spelling", wit)
        elif lr.type == "ID" and lr.value_kind != "raw":
            self.add("O-case", f"{self.spec.name}: identifier `{w.show}` re-cased by the lexer", "", wit)


def _freeze(v, d=0):
    if isinstance(v, (str, int, float, bool, W)) or v is None:
        return v
    if d > 14:
        raise TypeError("too deep")
    if isinstance(v, dict):
        return ("d", tuple((_freeze(k, d + 1), _freeze(x, d + 1)) for k, x in v.items()))
    if isinstance(v, list):
        return ("l", tuple(_freeze(x, d + 1) for x in v))
    if isinstance(v, tuple):
        return ("t", tuple(_freeze(x, d + 1) for x in v))
    raise TypeError("unfreezable")


class _ShapeMismatch(Exception):
    pass


def _leaves(v, out=None, d=0):
    out = [] if out is None else out
    if isinstance(v, W):
        out.append(v)
    elif d > 8:
        pass
    elif isinstance(v, dict):
        for k, x in v.items():
            _leaves(k, out, d + 1)
            _leaves(x, out, d + 1)
    elif isinstance(v, (list, tuple)):
        for x in v:
            _leaves(x, out, d + 1)
    return out


def _project(v, i, d=0):
    if isinstance(v, W):
        return v.ex[i]
    if d > 10:
        return v
    if isinstance(v, dict):
        out = type(v)() if not isinstance(v, collections.defaultdict) else collections.defaultdict(v.default_factory)
        for k, x in v.items():
            out[_project(k, i, d + 1)] = _project(x, i, d + 1)
        return out
    if isinstance(v, list):
        return [_project(x, i, d + 1) for x in v]
    if isinstance(v, tuple):
        return tuple(_project(x, i, d + 1) for x in v)
    return v


def _zip(rs, d=0):
    """zip per-exemplar concrete results into one lock-step value"""
    first = rs[0]
    if d > 12:
        raise _ShapeMismatch("too deep")
    if all(isinstance(r, dict) for r in rs):
        keysets = [list(r.keys()) for r in rs]
        if all(ks == keysets[0] for ks in keysets):
            return {k: _zip([r[k] for r in rs], d + 1) for k in keysets[0]}
        if len({len(ks) for ks in keysets}) == 1:
            # keys themselves vary with the exemplar (dynamic keys): zip position-wise
            out = {}
            for pos in range(len(keysets[0])):
                ks = [k_[pos] for k_ in keysets]
                kk = ks[0] if all(k == ks[0] for k in ks) else W(ks)
                out[kk] = _zip([r[k_[pos]] for r, k_ in zip(rs, keysets)], d + 1)
            return out
        raise _ShapeMismatch(f"dict keys differ between exemplars: {sorted(map(str, keysets[0]))[:8]} vs "
                             f"{sorted(map(str, [k for k in keysets if k != keysets[0]][0]))[:8]}")
    if all(isinstance(r, list) for r in rs) or all(isinstance(r, tuple) for r in rs):
        if len({len(r) for r in rs}) != 1:
            raise _ShapeMismatch(f"sequence lengths differ between exemplars: {[len(r) for r in rs]}")
        out = [_zip([r[j] for r in rs], d + 1) for j in range(len(first))]
        return out if isinstance(first, list) else tuple(out)
    if any(isinstance(r, (dict, list, tuple)) for r in rs):
        raise _ShapeMismatch(f"value kinds differ between exemplars: {[type(r).__name__ for r in rs]}")
    if all(type(r) is type(first) and r == first for r in rs[1:]):
        return first
    return W(rs)


def _case_only(vals, depth=0):
    """every lock-step word among the values has exemplars that are equal up to letter case, and at least one such word exists"""
    found = [False]

    def walk(v, d):
        if isinstance(v, W):
            strs = [x for x in v.ex if isinstance(x, str)]
            if len(strs) != len(v.ex):
                return False
            if len({x.upper() for x in strs}) != 1:
                return False
            found[0] = True
            return True
        if d > 6:
            return True
        if isinstance(v, dict):
            return all(walk(k, d + 1) and walk(x, d + 1) for k, x in v.items())
        if isinstance(v, (list, tuple)):
            return all(walk(x, d + 1) for x in v)
        return True
    ok = all(walk(v, 0) for v in vals)
    return ok and found[0]


def _short(v, depth=0):
    if isinstance(v, W):
        return v.ex[0] if isinstance(v.ex[0], (str, int, bool)) else str(v.ex[0])
    if depth > 5:
        return "..."
    if isinstance(v, dict):
        return {(_short(k, depth + 1) if isinstance(k, W) else k): _short(x, depth + 1) for k, x in v.items()}
    if isinstance(v, (list, tuple)):
        return [_short(x, depth + 1) for x in v]
    if v is TOP:
        return "TOP"
    return v
