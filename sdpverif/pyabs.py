"""Abstract interpreter for the Python subset used by the lexer methods and the
grammar actions of simple_ddl_parser.

It walks the ast of the methods found in the source (nothing of /repo is
imported).  Run-time strings that come from the input are *lock-step words*
(`W`): tuples of exemplar spellings of one word class, evaluated element-wise.
Anything the control flow depends on (branch conditions, dict hits, token
types) must come out the same for all exemplars; otherwise the class is not
uniform for the code as it is now and the analysis stops with NonUniform
(reported as ANALYSIS-ERROR, never as a verdict).

Python exceptions raised by the interpreted operations (KeyError, IndexError,
ValueError ...) propagate as `PyRaise` so that try/except in the analysed code
works and an uncaught one can be reported as "the action raises on this
derivation".
"""
import ast
import collections
import copy
import operator
import re

from .core import AnalysisError


class LexUnknown(AnalysisError):
    """construct outside the interpreted subset"""


class NonUniform(LexUnknown):
    pass


class PyRaise(Exception):
    """an exception of the analysed program"""

    def __init__(self, exc, where=""):
        self.exc, self.where = exc, where

    def __str__(self):
        return f"{type(self.exc).__name__}: {self.exc} {self.where}"


class W:
    """lock-step tuple of values (one per exemplar of the word class)"""
    __slots__ = ("ex",)

    def __init__(self, ex):
        self.ex = tuple(ex)

    def __repr__(self):
        return "W" + repr(self.ex)

    def __eq__(self, o):
        return isinstance(o, W) and o.ex == self.ex

    def __hash__(self):
        return hash(self.ex)

    def __deepcopy__(self, memo):
        return self

    def __copy__(self):
        return self


def width_of(args):
    n = None
    for a in args:
        if isinstance(a, W):
            if n is not None and n != len(a.ex):
                raise LexUnknown("lock-step words of different width meet")
            n = len(a.ex)
    return n


def lift(fn, *args):
    """apply fn element-wise over lock-step values (other values broadcast)."""
    n = width_of(args)
    if n is None:
        return fn(*args)
    res = []
    excs = []
    for i in range(n):
        try:
            res.append(fn(*[(a.ex[i] if isinstance(a, W) else a) for a in args]))
            excs.append(None)
        except (KeyError, IndexError, ValueError, TypeError, AttributeError, ZeroDivisionError) as e:
            excs.append(e)
            res.append(None)
    if any(excs):
        if all(e is not None and type(e) is type(excs[0]) for e in excs):
            raise excs[0]
        raise NonUniform(f"word class is not uniform: operation raises for some spellings only ({excs!r})")
    first = res[0]
    if all(type(r) is type(first) and r == first for r in res[1:]):
        return first
    return W(res)


def uniform(v, what):
    if isinstance(v, W):
        raise NonUniform(f"word class is not uniform for {what}: {v.ex!r}")
    return v


def deep_eq(a, b):
    """lock-step aware equality; returns bool (raises NonUniform when exemplars disagree)"""
    if isinstance(a, W) or isinstance(b, W):
        if isinstance(a, (list, dict, tuple, set)) or isinstance(b, (list, dict, tuple, set)):
            return False
        return uniform(lift(operator.eq, a, b), "an equality test")
    if isinstance(a, KeysList) and isinstance(b, (set, frozenset)):
        a, b = b, a
    if isinstance(a, (set, frozenset)) and isinstance(b, (KeysList, set, frozenset)):
        return len(a) == len(b) and all(seq_contains(b, x) for x in a)
    if isinstance(a, (list, tuple)) and isinstance(b, (list, tuple)):
        if isinstance(a, KeysList) != isinstance(b, KeysList):
            return False
        if (type(a) is not type(b) and not (isinstance(a, list) and isinstance(b, list))) or len(a) != len(b):
            return False
        return all(deep_eq(x, y) for x, y in zip(a, b))
    if isinstance(a, dict) and isinstance(b, dict):
        if len(a) != len(b):
            return False
        for k, v in a.items():
            hit = dict_find(b, k)
            if hit is _MISSING or not deep_eq(v, b[hit]):
                return False
        return True
    try:
        return a == b
    except Exception:
        return False


_MISSING = object()


class KeysList(list):
    """result of dict.keys(): compares equal to a set with the same elements (dict views are set-like)"""


def dict_find(d, k):
    """the key of d equal to k (lock-step aware) or _MISSING"""
    if not isinstance(k, W):
        try:
            if k in d:
                return k
        except TypeError:
            raise PyRaise(TypeError(f"unhashable key {type(k).__name__}"))
        for key in d:
            if isinstance(key, W) and uniform(lift(operator.eq, key, k), "a dict lookup"):
                return key
        return _MISSING
    if k in d:
        return k
    for key in d:
        if uniform(lift(operator.eq, key, k), "a dict lookup"):
            return key
    return _MISSING


def seq_contains(seq, x):
    for el in seq:
        if deep_eq(el, x):
            return True
    return False


class Obj:
    """attribute bag (token `t`, lexer flags)"""

    def __init__(self, **kw):
        self.__dict__.update(kw)


class YP:
    """model of ply.yacc.YaccProduction: p[n>=0] is the n-th symbol value, p[n<0] reads the parser stack"""

    def __init__(self, values, stack_values=()):
        self.values = list(values)
        self.stack_values = list(stack_values)

    def getitem(self, n):
        if isinstance(n, slice):
            return self.values[n]
        if not isinstance(n, int):
            raise PyRaise(TypeError("production index"))
        if n >= 0:
            if n >= len(self.values):
                raise PyRaise(IndexError("production index out of range"))
            return self.values[n]
        if -n > len(self.stack_values):
            raise PyRaise(IndexError("parser stack index out of range"))
        return self.stack_values[n]

    def setitem(self, n, v):
        self.values[n] = v


class _Return(Exception):
    def __init__(self, v):
        self.v = v


class _Break(Exception):
    pass


class _Continue(Exception):
    pass


class Raised(Exception):
    """`raise X(...)` statement of the analysed code (module: where the class name is to be resolved)"""

    def __init__(self, cls_name, text, node, module=None):
        self.cls_name, self.text, self.node, self.module = cls_name, text, node, module


STR_METHODS = {"upper", "lower", "startswith", "endswith", "count", "strip", "lstrip", "rstrip", "replace",
               "isnumeric", "isdigit", "isalpha", "isalnum", "isupper", "islower", "title", "capitalize",
               "find", "rfind", "index", "split", "rsplit", "swapcase", "casefold", "isidentifier", "removesuffix",
               "removeprefix", "partition", "rpartition", "zfill", "format", "isspace", "splitlines", "encode"}
TYPES = {"str": str, "dict": dict, "list": list, "tuple": tuple, "int": int, "float": float, "bool": bool,
         "set": set, "frozenset": frozenset}
PY_EXC = {"UnboundLocalError": UnboundLocalError, "NameError": NameError, "ValueError": ValueError, "KeyError": KeyError, "IndexError": IndexError, "TypeError": TypeError,
          "AttributeError": AttributeError, "Exception": Exception}
_SELF = object()


def _isinstance(v, t):
    ts = t if isinstance(t, tuple) else (t,)
    if isinstance(v, W):
        res = {isinstance(x, ts) for x in v.ex}
        if len(res) != 1:
            raise NonUniform("isinstance differs between spellings")
        return res.pop()
    if isinstance(v, bool) and bool not in ts and int in ts:
        return True
    return isinstance(v, ts)


class Interp:
    MAX_STEPS = 200000

    def __init__(self, model, tokens_ns, lexer_obj, self_attrs=None, home_module=None):
        self.model = model
        self.methods = model.parser_methods()
        self.tokmod = tokens_ns
        self.lexer = lexer_obj
        self.self_attrs = dict(self_attrs or {})
        self.steps = 0
        self.depth = 0
        self.trace = []           # call trace of package functions (for reports)
        self.cur_func = None

    # ------------------------------------------------------------------ calls
    def call_func(self, f, args, kwargs=None, bound_self=True):
        """call package function/method f (srcmodel.Func) with evaluated args"""
        node = f.node
        a = node.args
        params = [x.arg for x in a.posonlyargs + a.args]
        if f.cls and not f.is_static and params and params[0] in ("self", "cls"):
            params = params[1:]
        env = {"__module__": f.module}
        if len(args) > len(params):
            if a.vararg:
                env[a.vararg.arg] = tuple(args[len(params):])
                args = args[:len(params)]
            else:
                raise PyRaise(TypeError(f"{f.qual}() takes {len(params)} positional arguments but {len(args)} were given"))
        for p, v in zip(params, args):
            env[p] = v
        extra_kw = {}
        for k, v in (kwargs or {}).items():
            if k not in params and k not in [x.arg for x in a.kwonlyargs]:
                if a.kwarg is not None:
                    extra_kw[k] = v
                    continue
                raise PyRaise(TypeError(f"{f.qual}() got an unexpected keyword argument {k!r}"))
            env[k] = v
        if a.kwarg is not None:
            env[a.kwarg.arg] = extra_kw
        defaults = a.defaults
        for p, d in zip(params[len(params) - len(defaults):], defaults):
            if p not in env:
                env[p] = self.ev(d, {"__module__": f.module})
        for p, d in zip(a.kwonlyargs, a.kw_defaults):
            if p.arg not in env and d is not None:
                env[p.arg] = self.ev(d, {"__module__": f.module})
        for p in params:
            if p not in env:
                raise PyRaise(TypeError(f"{f.qual}() missing argument {p!r}"))
        self.depth += 1
        if self.depth > 60:
            raise LexUnknown("recursion too deep")
        prev = self.cur_func
        self.cur_func = f
        try:
            self.block(node.body, env)
        except _Return as r:
            return r.v
        finally:
            self.depth -= 1
            self.cur_func = prev
        return None

    def call_method(self, name, args, kwargs=None):
        f = self.methods.get(name)
        if f is None:
            raise PyRaise(AttributeError(f"self.{name}"))
        return self.call_func(f, args, kwargs)

    # ------------------------------------------------------------- statements
    def block(self, body, env):
        for st in body:
            self.stmt(st, env)

    def truth(self, v):
        if isinstance(v, W):
            return uniform(lift(bool, v), "a branch condition")
        if isinstance(v, (Obj, YP)):
            return True
        return bool(v)

    def stmt(self, st, env):
        self.steps += 1
        if self.steps > self.MAX_STEPS:
            raise LexUnknown("step bound exceeded")
        if isinstance(st, ast.Expr):
            if isinstance(st.value, ast.Constant):
                return
            self.ev(st.value, env)
        elif isinstance(st, ast.Return):
            raise _Return(self.ev(st.value, env) if st.value is not None else None)
        elif isinstance(st, ast.If):
            if self.truth(self.ev(st.test, env)):
                self.block(st.body, env)
            else:
                self.block(st.orelse, env)
        elif isinstance(st, ast.Assign):
            v = self.ev(st.value, env)
            for t in st.targets:
                self.assign(t, v, env)
        elif isinstance(st, ast.AnnAssign):
            if st.value is not None:
                self.assign(st.target, self.ev(st.value, env), env)
        elif isinstance(st, ast.AugAssign):
            cur = self.ev(_as_load(st.target), env)
            v = self.ev(st.value, env)
            if isinstance(cur, list) and isinstance(st.op, ast.Add):
                cur.extend(v)
                return
            self.assign(st.target, self.binop(st.op, cur, v), env)
        elif isinstance(st, ast.For):
            it = self.iterate(self.ev(st.iter, env))
            broke = False
            for x in it:
                self.assign(st.target, x, env)
                try:
                    self.block(st.body, env)
                except _Break:
                    broke = True
                    break
                except _Continue:
                    continue
            if not broke:
                self.block(st.orelse, env)
        elif isinstance(st, ast.While):
            n = 0
            while self.truth(self.ev(st.test, env)):
                n += 1
                if n > 2000:
                    raise LexUnknown("while loop bound")
                try:
                    self.block(st.body, env)
                except _Break:
                    break
                except _Continue:
                    continue
        elif isinstance(st, ast.Break):
            raise _Break()
        elif isinstance(st, ast.Continue):
            raise _Continue()
        elif isinstance(st, ast.Pass):
            pass
        elif isinstance(st, ast.Delete):
            for t in st.targets:
                self.delete(t, env)
        elif isinstance(st, ast.Raise):
            name = "?"
            if isinstance(st.exc, ast.Call) and isinstance(st.exc.func, ast.Name):
                name = st.exc.func.id
            elif isinstance(st.exc, ast.Name):
                name = st.exc.id
            if st.exc is None:
                # bare `raise` inside a handler: the exception being handled goes on
                stack = self.__dict__.get("_handling") or []
                if stack:
                    raise stack[-1]
                raise PyRaise(RuntimeError("No active exception to reraise"))
            if name in PY_EXC:
                raise PyRaise(PY_EXC[name](ast.unparse(st.exc)[:80]))
            r = Raised(name, ast.unparse(st)[:120], st, env.get("__module__"))
            r.ctor_args = None
            if isinstance(st.exc, ast.Call) and not st.exc.keywords:
                # the constructor arguments (the message), when they lie in the interpreted subset
                try:
                    r.ctor_args = [self.ev(a, env) for a in st.exc.args]
                except (LexUnknown, NonUniform):
                    r.ctor_args = None
            raise r
        elif isinstance(st, ast.Try):
            try:
                self.block(st.body, env)
            except (PyRaise, Raised) as pr:
                for h in st.handlers:
                    if (self._handler_matches(h, pr.exc, env) if isinstance(pr, PyRaise) else self._handler_matches_pkg(h, pr, env)):
                        if h.name:
                            env[h.name] = pr.exc if isinstance(pr, PyRaise) else pr
                        stack = self.__dict__.setdefault("_handling", [])
                        stack.append(pr)
                        try:
                            self.block(h.body, env)
                        finally:
                            stack.pop()
                        break
                else:
                    raise
            else:
                self.block(st.orelse, env)
            finally:
                if st.finalbody:
                    self.block(st.finalbody, env)
        elif isinstance(st, ast.With):
            # context managers are modelled as their value (no __exit__ effect)
            for item in st.items:
                v = self.ev(item.context_expr, env)
                if item.optional_vars is not None:
                    self.assign(item.optional_vars, v, env)
            self.block(st.body, env)
        elif isinstance(st, ast.FunctionDef):
            # a nested helper: a closure over the defining environment (read access; `nonlocal` stores are not modelled)
            if st.decorator_list or any(isinstance(n, (ast.Nonlocal, ast.Yield, ast.YieldFrom)) for n in ast.walk(st)):
                raise LexUnknown(f"nested function {st.name} with decorator / nonlocal / yield")
            env[st.name] = ("closure", st, env)
        elif isinstance(st, (ast.Import, ast.ImportFrom, ast.Global, ast.Nonlocal)):
            pass
        elif isinstance(st, ast.Assert):
            pass
        else:
            raise LexUnknown(f"statement {type(st).__name__}")

    def _handler_matches(self, h, exc, env):
        if h.type is None:
            return True
        names = [h.type] if not isinstance(h.type, ast.Tuple) else h.type.elts
        for n in names:
            if isinstance(n, ast.Name) and n.id in PY_EXC and isinstance(exc, PY_EXC[n.id]):
                return True
        return False

    def _pkg_class(self, module, name):
        try:
            r = self.model.resolve_symbol(module, name) if module is not None else None
        except Exception:
            r = None
        return r[1] if r and r[0] == "class" else None

    def _handler_matches_pkg(self, h, raised, env):
        """does `except <h.type>` catch an exception class of the package (by the class hierarchy read from the source)"""
        if h.type is None:
            return True
        names = [h.type] if not isinstance(h.type, ast.Tuple) else h.type.elts
        rkey = self._pkg_class(raised.module, raised.cls_name)
        mro = list(self.model.mro(rkey)) if rkey is not None else []
        for n in names:
            nm = n.id if isinstance(n, ast.Name) else (n.attr if isinstance(n, ast.Attribute) else None)
            if nm in ("Exception", "BaseException"):
                return True
            hkey = self._pkg_class(env.get("__module__"), nm) if nm else None
            if hkey is not None and (hkey in mro or hkey == rkey):
                return True
            if hkey is None and rkey is None and nm == raised.cls_name:
                return True
        return False

    def iterate(self, it):
        if isinstance(it, dict):
            return list(it)
        if isinstance(it, YP):
            return list(it.values)
        if isinstance(it, (list, tuple, set, frozenset)):
            return list(it)
        if isinstance(it, str):
            return list(it)
        if isinstance(it, W) and all(isinstance(x, (list, tuple)) for x in it.ex):
            # lock-step sequences of one length: the sequence of lock-step items
            if len({len(x) for x in it.ex}) != 1:
                raise NonUniform(f"sequences of different lengths between spellings: {[len(x) for x in it.ex]}")
            out = []
            for items in zip(*it.ex):
                out.append(items[0] if all(type(y) is type(items[0]) and y == items[0] for y in items[1:]) else W(list(items)))
            return out
        if isinstance(it, W):
            raise LexUnknown("iteration over the characters of a word")
        if isinstance(it, (range, enumerate, zip, collections.abc.KeysView, collections.abc.ValuesView,
                           collections.abc.ItemsView)):
            return list(it)
        if it is None:
            raise PyRaise(TypeError("'NoneType' object is not iterable"))
        raise LexUnknown(f"iteration over {type(it).__name__}")

    def assign(self, t, v, env):
        if isinstance(t, ast.Name):
            env[t.id] = v
        elif isinstance(t, ast.Attribute):
            o = self.ev(t.value, env)
            if isinstance(o, Obj):
                setattr(o, t.attr, v)
            elif o is _SELF:
                self.self_attrs[t.attr] = v
            else:
                raise LexUnknown(f"attribute store on {ast.unparse(t.value)}")
        elif isinstance(t, (ast.Tuple, ast.List)):
            vs = list(self.iterate(v))
            stars = [i for i, a in enumerate(t.elts) if isinstance(a, ast.Starred)]
            if len(stars) == 1:
                i = stars[0]
                after = len(t.elts) - i - 1
                if len(vs) < len(t.elts) - 1:
                    raise PyRaise(ValueError("not enough values to unpack"))
                for a, b in zip(t.elts[:i], vs[:i]):
                    self.assign(a, b, env)
                self.assign(t.elts[i].value, list(vs[i:len(vs) - after]), env)
                for a, b in zip(t.elts[i + 1:], vs[len(vs) - after:] if after else []):
                    self.assign(a, b, env)
                return
            if len(vs) != len(t.elts):
                raise PyRaise(ValueError("unpack"))
            for a, b in zip(t.elts, vs):
                self.assign(a, b, env)
        elif isinstance(t, ast.Subscript):
            o = self.ev(t.value, env)
            if isinstance(t.slice, ast.Slice):
                if not isinstance(o, list):
                    raise LexUnknown("slice assignment on a non-list")
                lo = self.ev(t.slice.lower, env) if t.slice.lower is not None else None
                up = self.ev(t.slice.upper, env) if t.slice.upper is not None else None
                stp = self.ev(t.slice.step, env) if t.slice.step is not None else None
                k = slice(uniform(lo, "a slice bound"), uniform(up, "a slice bound"), uniform(stp, "a slice step"))
            else:
                k = self.ev(t.slice, env)
            if isinstance(o, YP):
                o.setitem(uniform(k, "a production index"), v)
            elif isinstance(o, dict):
                hit = dict_find(o, k)
                o[k if hit is _MISSING else hit] = v
            elif isinstance(o, list) and isinstance(t.slice, ast.Slice):
                try:
                    o[k] = self.iterate(v)
                except (IndexError, TypeError, ValueError) as e:
                    raise PyRaise(e)
            elif isinstance(o, list):
                k = uniform(k, "a list index")
                try:
                    o[k] = v
                except (IndexError, TypeError) as e:
                    raise PyRaise(e)
            elif o is None:
                raise PyRaise(TypeError("'NoneType' object does not support item assignment"))
            elif isinstance(o, W) and all(isinstance(x, list) for x in o.ex):
                # lock-step lists (e.g. the pieces of a split): assign exemplar by exemplar, in place
                for i, x in enumerate(o.ex):
                    try:
                        x[k.ex[i] if isinstance(k, W) else k] = v.ex[i] if isinstance(v, W) else v
                    except (IndexError, TypeError) as e:
                        raise PyRaise(e)
            elif isinstance(o, (str, int, float, tuple)) or isinstance(o, W) and all(isinstance(x, (str, int, float, tuple)) for x in o.ex):
                raise PyRaise(TypeError(f"{type(o.ex[0] if isinstance(o, W) else o).__name__} does not support item assignment"))
            else:
                raise LexUnknown(f"item assignment on {type(o).__name__}")
        else:
            raise LexUnknown(f"assignment target {type(t).__name__}")

    def delete(self, t, env):
        if isinstance(t, ast.Subscript):
            o = self.ev(t.value, env)
            k = self.ev(t.slice, env) if not isinstance(t.slice, ast.Slice) else None
            if isinstance(o, dict):
                hit = dict_find(o, k)
                if hit is _MISSING:
                    raise PyRaise(KeyError(k))
                del o[hit]
            elif isinstance(o, list):
                try:
                    if isinstance(t.slice, ast.Slice):
                        lo = self.ev(t.slice.lower, env) if t.slice.lower is not None else None
                        hi = self.ev(t.slice.upper, env) if t.slice.upper is not None else None
                        del o[lo:hi]
                    else:
                        del o[uniform(k, "a list index")]
                except IndexError as e:
                    raise PyRaise(e)
            else:
                raise PyRaise(TypeError("item deletion"))
        elif isinstance(t, ast.Name):
            env.pop(t.id, None)
        else:
            raise LexUnknown("del target")

    def binop(self, op, a, b):
        ops = {ast.Add: operator.add, ast.Sub: operator.sub, ast.Mult: operator.mul, ast.Mod: operator.mod,
               ast.FloorDiv: operator.floordiv, ast.Div: operator.truediv, ast.BitOr: operator.or_, ast.BitAnd: operator.and_,
               ast.BitXor: operator.xor}
        fn = ops.get(type(op))
        if fn is None:
            raise LexUnknown(f"operator {type(op).__name__}")
        if isinstance(a, list) and isinstance(b, list) and isinstance(op, ast.Add):
            return a + b
        try:
            return lift(fn, a, b)
        except (TypeError, ValueError, ZeroDivisionError) as e:
            raise PyRaise(e)

    # ------------------------------------------------------------ expressions
    def ev(self, e, env):
        if isinstance(e, ast.Constant):
            return e.value
        if isinstance(e, ast.Name):
            return self.name(e.id, env)
        if isinstance(e, (ast.List, ast.Tuple, ast.Set)):
            vals = []
            for x in e.elts:
                if isinstance(x, ast.Starred):
                    vals.extend(self.iterate(self.ev(x.value, env)))
                else:
                    vals.append(self.ev(x, env))
            if isinstance(e, ast.List):
                return vals
            if isinstance(e, ast.Tuple):
                return tuple(vals)
            return set(vals)
        if isinstance(e, ast.Dict):
            d = {}
            for k, v in zip(e.keys, e.values):
                if k is None:
                    d.update(self.ev(v, env))
                else:
                    kk = self.ev(k, env)
                    try:
                        hash(kk)
                    except TypeError:
                        raise PyRaise(TypeError(f"unhashable type: {type(kk).__name__}"))
                    hit = dict_find(d, kk)
                    d[kk if hit is _MISSING else hit] = self.ev(v, env)
            return d
        if isinstance(e, ast.Attribute):
            return self.attribute(e, env)
        if isinstance(e, ast.Call):
            return self.call(e, env)
        if isinstance(e, ast.BoolOp):
            return self.boolop(e, env)
        if isinstance(e, ast.UnaryOp):
            v = self.ev(e.operand, env)
            if isinstance(e.op, ast.Not):
                if isinstance(v, W):
                    return lift(lambda x: not x, v)
                return not self.truth(v)
            if isinstance(e.op, ast.USub):
                return lift(operator.neg, v)
            raise LexUnknown("unary operator")
        if isinstance(e, ast.Compare):
            left = self.ev(e.left, env)
            acc = True
            for op, r in zip(e.ops, e.comparators):
                right = self.ev(r, env)
                c = self.compare(op, left, right)
                if isinstance(c, W) or isinstance(acc, W):
                    acc = lift(lambda a, b: bool(a and b), acc, c)
                elif not c:
                    return False
                left = right
            return acc
        if isinstance(e, ast.Subscript):
            return self.subscript(e, env)
        if isinstance(e, ast.BinOp):
            return self.binop(e.op, self.ev(e.left, env), self.ev(e.right, env))
        if isinstance(e, ast.IfExp):
            return self.ev(e.body, env) if self.truth(self.ev(e.test, env)) else self.ev(e.orelse, env)
        if isinstance(e, ast.JoinedStr):
            parts = []
            for v in e.values:
                if isinstance(v, ast.Constant):
                    parts.append(v.value)
                else:
                    val = self.ev(v.value, env)
                    conv = v.conversion
                    parts.append(("fmt", val, conv))
            vals = [p[1] if isinstance(p, tuple) else p for p in parts]
            convs = [p[2] if isinstance(p, tuple) else None for p in parts]

            def fmt(*xs):
                out = []
                for x, c in zip(xs, convs):
                    if c == 114:
                        out.append(repr(x))
                    else:
                        out.append(x if isinstance(x, str) else self.to_str(x))
                return "".join(out)
            return lift(fmt, *vals)
        if isinstance(e, (ast.ListComp, ast.SetComp, ast.DictComp, ast.GeneratorExp)):
            return self.comprehension(e, env)
        if isinstance(e, ast.Lambda):
            return ("closure", e, env)
        if isinstance(e, ast.Starred):
            raise LexUnknown("starred expression")
        raise LexUnknown(f"expression {type(e).__name__}: {ast.unparse(e)[:60]}")

    def boolop(self, e, env):
        """and/or with Python semantics; when an operand's truth value differs between the spellings of a
        word class, the remaining operands (which must be free of package calls) are evaluated and combined
        element-wise, so that `len(w) > 1 and w.endswith(",")` is decided for the class as a whole."""
        is_and = isinstance(e.op, ast.And)
        vals = e.values
        for i, x in enumerate(vals):
            v = self.ev(x, env)
            last = i == len(vals) - 1
            if isinstance(v, W):
                tv = lift(bool, v)
                if isinstance(tv, W):
                    if last:
                        return v
                    rest = vals[i + 1:]
                    for r in rest:
                        for n in ast.walk(r):
                            if isinstance(n, ast.Call) and isinstance(n.func, ast.Attribute) and \
                                    isinstance(n.func.value, ast.Name) and n.func.value.id == "self":
                                raise NonUniform("word class is not uniform for a condition that guards a call")
                    sub = ast.BoolOp(op=e.op, values=rest) if len(rest) > 1 else rest[0]
                    rv = self.ev(sub, env)
                    if is_and:
                        return lift(lambda a, b: b if a else a, v, rv)
                    return lift(lambda a, b: a if a else b, v, rv)
                t = tv
            else:
                t = self.truth(v)
            if last:
                return v
            if is_and and not t:
                return v
            if (not is_and) and t:
                return v
        return v

    def to_str(self, x):
        if isinstance(x, (dict, list, tuple)) and _has_w(x):
            raise LexUnknown("str() of a container holding input words")
        return str(x)

    def _is_local(self, id_):
        """is id_ assigned somewhere in the function being evaluated (then reading it unassigned is UnboundLocalError)"""
        f = self.cur_func
        if f is None:
            return False
        cache = self.__dict__.setdefault("_locals_cache", {})
        if f.id not in cache:
            names = set()
            for n in ast.walk(f.node):
                if isinstance(n, ast.Name) and isinstance(n.ctx, (ast.Store, ast.Del)):
                    names.add(n.id)
                elif isinstance(n, ast.arg):
                    names.add(n.arg)
                elif isinstance(n, (ast.Global, ast.Nonlocal)):
                    names -= set(n.names)
            cache[f.id] = names
        return id_ in cache[f.id]

    def name(self, id_, env):
        if id_ in env:
            return env[id_]
        if id_ == "self":
            return _SELF
        if self._is_local(id_):
            raise PyRaise(UnboundLocalError(f"cannot access local variable '{id_}' where it is not associated with a value"))
        if id_ in TYPES:
            return ("type", TYPES[id_])
        if id_ in PY_EXC:
            return ("exc", PY_EXC[id_])
        if id_ in ("len", "isinstance", "enumerate", "range", "any", "all", "min", "max", "abs", "sorted", "zip",
                   "reversed", "sum", "repr", "hasattr", "getattr", "print", "type", "frozenset", "id", "iter", "next",
                   "map", "filter", "setattr"):
            return ("builtin", id_)
        mod = env.get("__module__")
        if mod is not None:
            r = self.model.resolve_symbol(mod, id_)
            if r:
                if r[0] == "func":
                    return ("func", r[1])
                if r[0] == "module":
                    return ("module", r[1])
                if r[0] == "class":
                    return ("class", r[1])
                if r[0] == "value":
                    return self.module_value(r[1], r[2])
                if r[0] == "ext":
                    return ("ext", r[1])
        raise LexUnknown(f"name {id_!r}")

    def module_value(self, module, name):
        if module.name == "simple_ddl_parser.tokens":
            return self.tokmod[name]
        node = module.assigns.get(name)
        try:
            return ast.literal_eval(node)
        except Exception:
            pass
        if isinstance(node, ast.Call) and ast.unparse(node.func) == "re.compile" and node.args and all(
                isinstance(a, ast.Constant) for a in node.args) and not node.keywords:
            return ("regex", re.compile(*[a.value for a in node.args]))
        # a module-level value computed from other module-level values (f-string, concatenation, tuple of names ...)
        busy = self.__dict__.setdefault("_mv_busy", set())
        key = (module.name, name)
        if node is not None and key not in busy:
            busy.add(key)
            try:
                return self.ev(node, {"__module__": module})
            except LexUnknown as e:
                raise LexUnknown(f"module-level value {module.name}.{name}: {e}")
            finally:
                busy.discard(key)
        raise LexUnknown(f"module-level value {module.name}.{name}")

    def attribute(self, e, env):
        o = self.ev(e.value, env)
        if o is _SELF:
            if e.attr == "lexer":
                return self.lexer
            if e.attr in self.self_attrs:
                return self.self_attrs[e.attr]
            if e.attr in self.methods:
                return ("selfmethod", e.attr)
            raise PyRaise(AttributeError(f"self.{e.attr}"))
        if isinstance(o, Obj):
            if getattr(o, "_kind", None) == "logger":
                return ("method", o, e.attr)
            if e.attr == "__dict__":
                return o.__dict__
            if not hasattr(o, e.attr):
                raise PyRaise(AttributeError(f"{e.attr}"))
            return getattr(o, e.attr)
        if isinstance(o, tuple) and o and o[0] == "module":
            if o[1] == "simple_ddl_parser.tokens":
                if e.attr not in self.tokmod:
                    raise PyRaise(AttributeError(f"tokens.{e.attr}"))
                return self.tokmod[e.attr]
            m = self.model.modules[o[1]]
            r = self.model.resolve_symbol(m, e.attr)
            if r and r[0] == "func":
                return ("func", r[1])
            if r and r[0] == "value":
                return self.module_value(r[1], r[2])
            raise LexUnknown(f"attribute {e.attr} of module {o[1]}")
        if isinstance(o, tuple) and o and o[0] == "ext":
            return ("ext", f"{o[1]}.{e.attr}")
        return ("method", o, e.attr)

    def subscript(self, e, env):
        o = self.ev(e.value, env)
        if isinstance(e.slice, ast.Slice):
            lo = self.ev(e.slice.lower, env) if e.slice.lower is not None else None
            hi = self.ev(e.slice.upper, env) if e.slice.upper is not None else None
            stp = self.ev(e.slice.step, env) if e.slice.step is not None else None
            if isinstance(o, YP):
                return o.values[uniform(lo, "slice"):uniform(hi, "slice"):uniform(stp, "slice")]
            if isinstance(o, (list, tuple)):
                return o[uniform(lo, "slice"):uniform(hi, "slice"):uniform(stp, "slice")]
            return lift(lambda s, a, b, c: s[a:b:c], o, lo, hi, stp)
        k = self.ev(e.slice, env)
        if isinstance(o, YP):
            return o.getitem(uniform(k, "a production index"))
        if isinstance(o, dict):
            hit = dict_find(o, k)
            if hit is _MISSING:
                if isinstance(o, collections.defaultdict) and o.default_factory is not None:
                    o[k] = o.default_factory()
                    return o[k]
                raise PyRaise(KeyError(k))
            return o[hit]
        if isinstance(o, (list, tuple)):
            k = uniform(k, "a sequence index")
            try:
                return o[k]
            except (IndexError, TypeError) as ex:
                raise PyRaise(ex)
        if isinstance(o, (str, W)):
            try:
                return lift(lambda s, i: s[i], o, k)
            except (IndexError, TypeError) as ex:
                raise PyRaise(ex)
        if o is None:
            raise PyRaise(TypeError("'NoneType' object is not subscriptable"))
        if isinstance(o, (bool, int)):
            raise PyRaise(TypeError(f"'{type(o).__name__}' object is not subscriptable"))
        raise LexUnknown(f"subscript on {type(o).__name__}")

    def compare(self, op, l, r):
        if isinstance(op, ast.Eq):
            return deep_eq(l, r)
        if isinstance(op, ast.NotEq):
            return not deep_eq(l, r)
        if isinstance(op, (ast.In, ast.NotIn)):
            if isinstance(r, YP):
                res = seq_contains(r.values, l)
            elif isinstance(r, dict):
                res = dict_find(r, l) is not _MISSING
            elif isinstance(r, (list, tuple, set, frozenset)):
                res = seq_contains(r, l)
            elif isinstance(r, (str, W)):
                if isinstance(l, (str, W)):
                    res = uniform(lift(lambda a, b: a in b, l, r), "a substring test")
                else:
                    raise PyRaise(TypeError("'in <string>' requires string as left operand"))
            elif r is None:
                raise PyRaise(TypeError("argument of type 'NoneType' is not iterable"))
            elif isinstance(r, (bool, int)):
                raise PyRaise(TypeError(f"argument of type '{type(r).__name__}' is not iterable"))
            else:
                raise LexUnknown(f"membership in {type(r).__name__}")
            return res if isinstance(op, ast.In) else not res
        if isinstance(op, ast.Is):
            return l is r or (isinstance(l, tuple) and isinstance(r, tuple) and l == r)
        if isinstance(op, ast.IsNot):
            return not (l is r)
        fn = {ast.Gt: operator.gt, ast.Lt: operator.lt, ast.GtE: operator.ge, ast.LtE: operator.le}.get(type(op))
        if fn:
            try:
                return lift(fn, l, r)
            except TypeError as ex:
                raise PyRaise(ex)
        raise LexUnknown("comparison operator")

    def comprehension(self, e, env):
        out = []
        is_dict = isinstance(e, ast.DictComp)

        def rec(i, loc):
            if i == len(e.generators):
                if is_dict:
                    out.append((self.ev(e.key, loc), self.ev(e.value, loc)))
                else:
                    out.append(self.ev(e.elt, loc))
                return
            g = e.generators[i]
            for item in self.iterate(self.ev(g.iter, loc)):
                loc2 = dict(loc)
                self.assign(g.target, item, loc2)
                if all(self.truth(self.ev(c, loc2)) for c in g.ifs):
                    rec(i + 1, loc2)
        rec(0, dict(env))
        if is_dict:
            d = {}
            for k, v in out:
                hit = dict_find(d, k)
                d[k if hit is _MISSING else hit] = v
            return d
        if isinstance(e, ast.SetComp):
            return set(out)
        return out

    # ------------------------------------------------------------------ calls
    def call(self, e, env):
        f = self.ev(e.func, env)
        args = []
        for a in e.args:
            if isinstance(a, ast.Starred):
                args.extend(self.iterate(self.ev(a.value, env)))
            else:
                args.append(self.ev(a, env))
        kwargs = {}
        for k in e.keywords:
            if k.arg is None:
                kwargs.update(self.ev(k.value, env))
            else:
                kwargs[k.arg] = self.ev(k.value, env)
        if not isinstance(f, tuple):
            raise PyRaise(TypeError(f"{type(f).__name__} object is not callable"))
        kind = f[0]
        if kind == "selfmethod":
            return self.call_method(f[1], args, kwargs)
        if kind == "func":
            return self.call_func(f[1], args, kwargs)
        if kind == "type":
            return self.construct(f[1], args)
        if kind == "builtin":
            return self.builtin(f[1], args, kwargs)
        if kind == "method":
            return self.method(f[1], f[2], args, kwargs)
        if kind == "ext":
            return self.external(f[1], args, kwargs)
        if kind == "closure":
            return self.call_closure(f[1], f[2], args, kwargs)
        if kind == "class":
            raise LexUnknown(f"constructor call {f[1]}")
        raise LexUnknown(f"call {ast.unparse(e.func)}")

    def call_closure(self, node, outer, args, kwargs):
        a = node.args
        if a.vararg or a.kwarg or a.posonlyargs:
            raise LexUnknown("nested function with * / ** / positional-only parameters")
        params = [x.arg for x in a.args]
        env = dict(outer)
        if len(args) > len(params):
            raise PyRaise(TypeError(f"{getattr(node, 'name', '<lambda>')}() takes {len(params)} positional arguments but {len(args)} were given"))
        bound = set()
        for p, v in zip(params, args):
            env[p] = v
            bound.add(p)
        for k, v in (kwargs or {}).items():
            if k not in params and k not in [x.arg for x in a.kwonlyargs]:
                raise PyRaise(TypeError(f"unexpected keyword argument {k!r}"))
            env[k] = v
            bound.add(k)
        for p, d in zip(params[len(params) - len(a.defaults):], a.defaults):
            if p not in bound:
                env[p] = self.ev(d, outer)
                bound.add(p)
        for p, d in zip(a.kwonlyargs, a.kw_defaults):
            if p.arg not in bound and d is not None:
                env[p.arg] = self.ev(d, outer)
                bound.add(p.arg)
        for p in params:
            if p not in bound:
                raise PyRaise(TypeError(f"missing argument {p!r}"))
        self.depth += 1
        if self.depth > 60:
            raise LexUnknown("recursion too deep")
        try:
            if isinstance(node, ast.Lambda):
                return self.ev(node.body, env)
            try:
                self.block(node.body, env)
            except _Return as r:
                return r.v
            return None
        finally:
            self.depth -= 1

    def construct(self, t, args):
        if t is str:
            if not args:
                return ""
            x = args[0]
            if isinstance(x, (dict, list, tuple)) and _has_w(x):
                raise LexUnknown("str() of a container holding input words")
            return lift(lambda v: str(v), x)
        if t is int or t is float:
            try:
                return lift(t, *args)
            except (ValueError, TypeError) as ex:
                raise PyRaise(ex)
        if t is bool:
            return self.truth(args[0]) if args else False
        if t is list:
            return self.iterate(args[0]) if args else []
        if t is tuple:
            return tuple(self.iterate(args[0])) if args else ()
        if t is dict:
            if not args:
                return {}
            if isinstance(args[0], dict):
                return dict(args[0])
            return dict(self.iterate(args[0]))
        if t is set:
            return set(self.iterate(args[0])) if args else set()
        if t is frozenset:
            return frozenset(self.iterate(args[0])) if args else frozenset()
        raise LexUnknown(f"constructor {t}")

    def builtin(self, name, args, kwargs):
        if name == "setattr":
            o, a, v = args
            a = uniform(a, "an attribute name")
            if isinstance(o, Obj):
                setattr(o, a, v)
                return None
            if o is _SELF:
                self.self_attrs[a] = v
                return None
            raise LexUnknown("setattr target")
        if name == "len":
            x = args[0]
            if isinstance(x, YP):
                return len(x.values)
            if isinstance(x, (list, tuple, dict, set, frozenset)):
                return len(x)
            if isinstance(x, (str, W)):
                return lift(len, x)
            raise PyRaise(TypeError(f"object of type '{type(x).__name__}' has no len()"))
        if name == "isinstance":
            t = args[1]
            if isinstance(t, tuple) and t and t[0] == "type":
                ts = t[1]
            elif isinstance(t, tuple):
                ts = tuple(x[1] for x in t if isinstance(x, tuple) and x[0] == "type")
            else:
                raise LexUnknown("isinstance against a non-builtin type")
            return _isinstance(args[0], ts)
        if name == "enumerate":
            start = args[1] if len(args) > 1 else kwargs.get("start", 0)
            return list(enumerate(self.iterate(args[0]), start))
        if name == "range":
            return list(range(*[uniform(a, "range") for a in args]))
        if name == "zip":
            return list(zip(*[self.iterate(a) for a in args]))
        if name in ("any", "all"):
            vals = [self.truth(x) for x in self.iterate(args[0])]
            return any(vals) if name == "any" else all(vals)
        if name in ("min", "max", "abs", "sum"):
            fn = {"min": min, "max": max, "abs": abs, "sum": sum}[name]
            try:
                return lift(fn, *args)
            except (TypeError, ValueError) as ex:
                raise PyRaise(ex)
        if name == "sorted":
            return sorted(self.iterate(args[0]), key=repr)
        if name == "reversed":
            return list(reversed(self.iterate(args[0])))
        if name == "repr":
            return lift(repr, args[0])
        if name == "print":
            return None
        if name == "next":
            seq = self.iterate(args[0]) if not isinstance(args[0], list) else args[0]
            if seq:
                return seq[0]
            if len(args) > 1:
                return args[1]
            raise PyRaise(StopIteration())
        if name == "iter":
            return self.iterate(args[0])
        if name == "type":
            return ("type", type(args[0]))
        if name in ("getattr", "hasattr"):
            o, a = args[0], args[1]
            if isinstance(o, Obj):
                if name == "hasattr":
                    return hasattr(o, a)
                if hasattr(o, a):
                    return getattr(o, a)
                if len(args) > 2:
                    return args[2]
                raise PyRaise(AttributeError(a))
            if o is _SELF:
                if a in self.self_attrs:
                    return True if name == "hasattr" else self.self_attrs[a]
                if name == "hasattr":
                    return a in self.methods
                if len(args) > 2:
                    return args[2]
        raise LexUnknown(f"builtin {name}")

    def method(self, o, m, args, kwargs):
        if isinstance(o, Obj) and getattr(o, "_kind", None) == "logger":
            return None         # log output is not part of any decided behaviour
        if isinstance(o, tuple) and len(o) == 2 and o[0] == "regex":
            if m in ("match", "search", "fullmatch", "sub", "split", "findall"):
                fn = getattr(o[1], m)
                try:
                    return lift(lambda *a: fn(*a, **kwargs), *args)
                except (TypeError, re.error) as ex:
                    raise PyRaise(TypeError(str(ex)))
            raise LexUnknown(f"regex method {m}")
        if isinstance(o, W) and all(isinstance(x, re.Match) for x in o.ex):
            if m in ("group", "groups", "start", "end", "span"):
                return lift(lambda mm, *a: getattr(mm, m)(*a), o, *args)
        if isinstance(o, re.Match):
            if m in ("group", "groups", "start", "end", "span"):
                return getattr(o, m)(*args)
            raise LexUnknown(f"match method {m}")
        if isinstance(o, bytes) or isinstance(o, W) and all(isinstance(x, bytes) for x in o.ex):
            if m == "decode":
                try:
                    return lift(lambda b, *a: b.decode(*a, **kwargs), o, *args)
                except (ValueError, TypeError, LookupError) as ex:
                    raise PyRaise(ex)
            raise LexUnknown(f"bytes method {m}")
        if isinstance(o, (str, W)):
            if m == "join":
                seq = self.iterate(args[0])
                for x in seq:
                    if not isinstance(x, (str, W)) or (isinstance(x, W) and not all(isinstance(y, str) for y in x.ex)):
                        raise PyRaise(TypeError(f"sequence item: expected str instance, {type(x).__name__} found"))
                return lift(lambda sep, *xs: sep.join(xs), o, *seq)
            if m not in STR_METHODS:
                if isinstance(o, W) and not all(isinstance(x, str) for x in o.ex):
                    raise PyRaise(AttributeError(f"'{type(o.ex[0]).__name__}' object has no attribute '{m}'"))
                if m in ("get", "items", "keys", "values", "update", "append", "pop"):
                    raise PyRaise(AttributeError(f"'str' object has no attribute '{m}'"))
                raise LexUnknown(f"string method {m}")
            if isinstance(o, W) and not all(isinstance(x, str) for x in o.ex):
                raise PyRaise(AttributeError(f"'{type(o.ex[0]).__name__}' object has no attribute '{m}'"))
            try:
                return lift(lambda s, *a: getattr(s, m)(*a, **kwargs), o, *args)
            except (ValueError, TypeError, IndexError) as ex:
                raise PyRaise(ex)
        if isinstance(o, dict):
            if m == "get":
                hit = dict_find(o, args[0])
                if hit is _MISSING:
                    return args[1] if len(args) > 1 else kwargs.get("default")
                return o[hit]
            if m == "update":
                src = args[0] if args else {}
                if isinstance(src, dict):
                    items = list(src.items())
                elif src is None:
                    raise PyRaise(TypeError("'NoneType' object is not iterable"))
                else:
                    items = [tuple(self.iterate(x)) for x in self.iterate(src)]
                for k, v in items + list(kwargs.items()):
                    hit = dict_find(o, k)
                    o[k if hit is _MISSING else hit] = v
                return None
            if m == "keys":
                return KeysList(o.keys())
            if m in ("values", "items"):
                return list(getattr(o, m)())
            if m == "pop":
                hit = dict_find(o, args[0])
                if hit is _MISSING:
                    if len(args) > 1:
                        return args[1]
                    raise PyRaise(KeyError(args[0]))
                return o.pop(hit)
            if m == "setdefault":
                hit = dict_find(o, args[0])
                if hit is _MISSING:
                    o[args[0]] = args[1] if len(args) > 1 else None
                    return o[args[0]]
                return o[hit]
            if m == "copy":
                return copy.copy(o)
            if m == "clear":
                o.clear()
                return None
            raise PyRaise(AttributeError(f"'dict' object has no attribute '{m}'"))
        if isinstance(o, list):
            if m == "append":
                o.append(args[0])
                return None
            if m == "extend":
                o.extend(self.iterate(args[0]))
                return None
            if m == "pop":
                try:
                    return o.pop(*[uniform(a, "pop index") for a in args])
                except IndexError as ex:
                    raise PyRaise(ex)
            if m == "insert":
                o.insert(uniform(args[0], "insert index"), args[1])
                return None
            if m == "index":
                for i, x in enumerate(o):
                    if deep_eq(x, args[0]):
                        return i
                raise PyRaise(ValueError("not in list"))
            if m == "count":
                return sum(1 for x in o if deep_eq(x, args[0]))
            if m == "remove":
                for i, x in enumerate(o):
                    if deep_eq(x, args[0]):
                        del o[i]
                        return None
                raise PyRaise(ValueError("list.remove(x): x not in list"))
            if m == "copy":
                return list(o)
            if m == "reverse":
                o.reverse()
                return None
            if m == "sort":
                o.sort(key=repr)
                return None
            if m == "clear":
                o.clear()
                return None
            raise PyRaise(AttributeError(f"'list' object has no attribute '{m}'"))
        if isinstance(o, tuple) and not (o and isinstance(o[0], str) and o[0] in ("module", "ext", "func", "type")):
            if m == "index":
                for i, x in enumerate(o):
                    if deep_eq(x, args[0]):
                        return i
                raise PyRaise(ValueError("not in tuple"))
            if m == "count":
                return sum(1 for x in o if deep_eq(x, args[0]))
        if isinstance(o, set):
            if m == "add":
                o.add(args[0])
                return None
        if o is None:
            raise PyRaise(AttributeError(f"'NoneType' object has no attribute '{m}'"))
        if isinstance(o, (bool, int, float)):
            raise PyRaise(AttributeError(f"'{type(o).__name__}' object has no attribute '{m}'"))
        if isinstance(o, Obj):
            raise PyRaise(AttributeError(m))
        raise LexUnknown(f"method {m} on {type(o).__name__}")

    def external(self, name, args, kwargs):
        if name in ("copy.deepcopy", "copy.copy"):
            return copy.deepcopy(args[0]) if name.endswith("deepcopy") else copy.copy(args[0])
        if name == "logging.getLogger":
            return Obj(_kind="logger")
        if name == "collections.defaultdict":
            fac = args[0] if args else None
            if fac == ("type", list):
                return collections.defaultdict(list)
            if fac == ("type", dict):
                return collections.defaultdict(dict)
            if fac is None:
                return collections.defaultdict(None)
            raise LexUnknown("defaultdict factory")
        if name in ("os.path.splitext", "os.path.basename", "os.path.dirname", "posixpath.splitext"):
            import os.path as _osp
            return lift(getattr(_osp, name.split(".")[-1]), *args)
        if name == "re.compile":
            try:
                return ("regex", re.compile(*[uniform(a, "a regex") for a in args], **kwargs))
            except (TypeError, re.error) as ex:
                raise PyRaise(ex if isinstance(ex, TypeError) else TypeError(str(ex)))
        if name in ("re.match", "re.search", "re.fullmatch", "re.sub", "re.split", "re.findall"):
            fn = getattr(re, name.split(".")[1])
            try:
                return lift(lambda *a: fn(*a, **kwargs), *args)
            except (TypeError, re.error) as ex:
                raise PyRaise(ex if isinstance(ex, TypeError) else TypeError(str(ex)))
        raise LexUnknown(f"external call {name}")


def _has_w(x):
    if isinstance(x, W):
        return True
    if isinstance(x, dict):
        return any(_has_w(k) or _has_w(v) for k, v in x.items())
    if isinstance(x, (list, tuple, set)):
        return any(_has_w(v) for v in x)
    return False


def _as_load(t):
    t2 = copy.copy(t)
    t2.ctx = ast.Load()
    return t2
