#!/venv/bin/python
"""Regenerates MANIFEST.json from the table below (kept in one place so that the
manifest stays valid while checks are added)."""
import json, os, sys
HERE = os.path.dirname(os.path.abspath(__file__))
sys.path.insert(0, HERE)
from manifest_data import CHECKS, NOT_APPLICABLE, ENGINES, NOTES

def main():
    checks = []
    for pid, c in sorted(CHECKS.items()):
        checks.append({
            "property_id": pid,
            "quick_cmd": f"/venv/bin/python -m sdpverif check {pid} --tier quick",
            "thorough_cmd": f"/venv/bin/python -m sdpverif check {pid} --tier thorough",
            "evidence_file": f"/verif/evidence/{pid}.json",
            "replay_cmd_template": "/venv/bin/python -m sdpverif replay {path}",
            "engine": c["engine"],
            "level_claimed": {"category": c.get("category", "other"), "text": c["text"], "design_ref": c["design_ref"]},
            "level_note": c["note"],
            "technique": c["technique"],
        })
    m = {
        "version": 1,
        "setup_cmd": "/venv/bin/python -m sdpverif setup",
        "hooks": {
            "guard": "SIMPLE_DDL_PARSER_VERIF",
            "enable": "no hooks: the checks are static and read /repo's sources; the guard name is reserved and unused",
            "baseline_off_cmd": "cd /repo && /venv/bin/python -m pytest -ra -q -p no:cacheprovider --timeout=900 --continue-on-collection-errors",
            "source_commits": [],
            "add_only": True,
        },
        "engines": ENGINES,
        "checks": checks,
        "notes": NOTES,
        "not_applicable": [{"property_id": k, "reason": v} for k, v in sorted(NOT_APPLICABLE.items())],
    }
    with open(os.path.join(HERE, "MANIFEST.json"), "w") as fh:
        json.dump(m, fh, indent=1)
    print("MANIFEST.json written:", len(checks), "checks,", len(NOT_APPLICABLE), "not applicable")

if __name__ == "__main__":
    main()
