"""development helper: the ALTER sequences alone.  usage: [SDPVERIF_REPO=..] PYTHONPATH=/verif /venv/bin/python tools/runseq.py"""
import time
from sdpverif.context import Context
from sdpverif.specs.alter import AlterOracle, classes
c = Context(); t = time.time()
orc = AlterOracle(c, None, classes(c))
class Col:
    def __init__(self): self.found = []
    def add(self, r, key, detail, witness): self.found.append((r, key, detail, witness))
col = Col()
orc.sequences(col)
for f in col.found: print(*f, sep="\n    ")
print("scripts", orc.checked, "findings", len(col.found), round(time.time() - t, 1), "s")
