#!/venv/bin/python
"""Development helper: re-base a stored seeded / benign patch onto the current /repo after `fix:` commits touched the same lines.
Finds the newest /repo commit the patch still applies to, applies it there, and 3-way merges every touched file with the current
version (git merge-file).  Writes the new patch in place when the merge is clean; prints the conflicts otherwise.
usage: rebase_seed.py <dir under /verif/seeded> ..."""
import os, re, shutil, subprocess, sys, tempfile

def sh(*a, **kw):
    return subprocess.run(a, capture_output=True, text=True, **kw)

def main():
    commits = sh("git", "-C", "/repo", "log", "--format=%H").stdout.split()
    for rel in sys.argv[1:]:
        pd = os.path.join("/verif/seeded", rel, "patch.diff")
        files = sorted(set(re.findall(r"^\+\+\+ b/(\S+)", open(pd).read(), re.M)))
        tmp = tempfile.mkdtemp(prefix="rebase_", dir="/dev/shm")
        try:
            base = None
            for c in commits:
                d = os.path.join(tmp, "base")
                shutil.rmtree(d, ignore_errors=True)
                os.makedirs(d)
                sh("sh", "-c", f"git -C /repo archive {c} simple_ddl_parser | tar -x -C {d}")
                if sh("patch", "-p1", "-s", "--dry-run", "-F0", "-d", d, "-i", pd).returncode == 0:
                    base = c
                    break
            if base is None:
                print(rel, "NO BASE COMMIT FOUND")
                continue
            pat = os.path.join(tmp, "patched")
            shutil.copytree(os.path.join(tmp, "base"), pat)
            sh("patch", "-p1", "-s", "--no-backup-if-mismatch", "-d", pat, "-i", pd)
            cur = os.path.join(tmp, "cur")
            os.makedirs(cur)
            sh("sh", "-c", f"git -C /repo archive HEAD simple_ddl_parser | tar -x -C {cur}")
            ok = True
            for f in files:
                r = sh("git", "merge-file", "-p", os.path.join(cur, f), os.path.join(tmp, "base", f), os.path.join(pat, f))
                if r.returncode != 0:
                    ok = False
                    print(rel, "CONFLICT in", f)
                    i = r.stdout.find("<<<<<<<")
                    print(r.stdout[max(0, i - 300): i + 1200])
                    break
                merged = os.path.join(tmp, "merged", f)
                os.makedirs(os.path.dirname(merged), exist_ok=True)
                open(merged, "w").write(r.stdout)
            if not ok:
                continue
            out = ""
            for f in files:
                d = sh("diff", "-u", "--label", "a/" + f, "--label", "b/" + f, os.path.join(cur, f), os.path.join(tmp, "merged", f)).stdout
                out += f"diff --git a/{f} b/{f}\n" + d
            open(pd, "w").write(out)
            print(rel, "rebased from", base[:7])
        finally:
            shutil.rmtree(tmp, ignore_errors=True)

main()
