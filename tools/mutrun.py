#!/venv/bin/python
"""Development helper: run checks on a scratch copy of /repo with one textual edit applied.
usage: mutrun.py <props comma-separated> <relative file> <old text> <new text>   (old/new may be @file)
       mutrun.py <props> --patch <diff file>"""
import os, shutil, subprocess, sys, tempfile

def main():
    props = sys.argv[1].split(",")
    tmp = tempfile.mkdtemp(prefix="sdpmut_", dir="/dev/shm" if os.path.isdir("/dev/shm") else None)
    try:
        dst = os.path.join(tmp, "repo")
        shutil.copytree("/repo", dst, ignore=shutil.ignore_patterns(".git", "__pycache__", "tests", "docs"))
        if sys.argv[2] == "--patch":
            r = subprocess.run(["patch", "-p1", "-s", "-d", dst, "-i", os.path.abspath(sys.argv[3])])
            if r.returncode:
                print("PATCH FAILED"); return 3
        else:
            rel, old, new = sys.argv[2:5]
            rd = lambda x: open(x[2:]).read() if x.startswith("@@") else x
            old, new = rd(old), rd(new)
            p = os.path.join(dst, rel)
            s = open(p).read()
            if old not in s:
                print("OLD TEXT NOT FOUND"); return 3
            open(p, "w").write(s.replace(old, new, 1))
        env = dict(os.environ, SDPVERIF_REPO=dst, SDPVERIF_EVIDENCE_DIR=os.path.join(tmp, "ev"))
        rc = 0
        for pr in props:
            r = subprocess.run(["/venv/bin/python", "-m", "sdpverif", "check", pr, "--tier", os.environ.get("TIER", "quick")],
                               cwd="/verif", env=env, capture_output=True, text=True)
            lines = [l for l in r.stdout.splitlines() if not l.startswith("KNOWN-FINDING")]
            print(f"--- {pr}: exit {r.returncode}")
            print("\n".join(lines[-int(os.environ.get("LINES", "14")):]))
            if r.stderr.strip():
                print(r.stderr[-1500:])
            rc = max(rc, r.returncode)
        return rc
    finally:
        shutil.rmtree(tmp, ignore_errors=True)

sys.exit(main())
