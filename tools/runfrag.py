import time, sys, importlib
from sdpverif.context import Context
from sdpverif.deriv import Explorer
c=Context(); t=time.time()
mod=importlib.import_module('sdpverif.specs.'+sys.argv[1])
kw=eval(sys.argv[2]) if len(sys.argv)>2 else {}
s,o=mod.build(c, **kw)
ex=Explorer(c,s,o).explore()
print('configs',ex.n_configs,'trans',ex.n_trans,'reductions',ex.n_reductions,'evaluated',ex.n_actions_evaluated,'uneval',ex.n_unevaluated,'valuechecks',o.checked if o else None, 'depth',ex.max_depth, round(time.time()-t,2))
for k,f in ex.findings.items(): print(f.rule,'|',f.key,'\n    ',f.detail,'\n     W:',f.witness)
print(ex.unevaluated)
for x in ex.samples[:4]: print(x)
