#!/venv/bin/python
"""Development helper (not a registered check): a line-preserving mutation sweep over /repo's package.

For every sampled mutant (one textual edit on ONE line, so that no definition moves - PLY orders the grammar by line numbers):
  1. scratch copy under /dev/shm, edit applied, byte-compiled;
  2. the pinned test suite is run there (-x): a mutant the suite kills is of no interest (the tests already settle it);
  3. for a mutant the suite does NOT kill, the registered quick checks are run on the copy (SDPVERIF_REPO), fastest first, until
     one of them exits non-zero.
The result (tools output, JSON lines) lists per mutant: operator, file:line, old -> new text, suite verdict, first check that fired
(exit 1 / 2) or `uncaught`.  `uncaught` mutants are candidates only: many are equivalent (dead code, defensive tests); each is triaged
by hand before it counts as a miss.

usage: mutsweep.py <out.jsonl> [--n 300] [--seed 1] [--jobs 12] [--phase fast|all] [--files a.py,b.py]"""
import argparse
import ast
import concurrent.futures as cf
import json
import os
import random
import shutil
import subprocess
import sys
import tempfile

REPO = "/repo"
PKG = "simple_ddl_parser"
PY = "/venv/bin/python"
FAST = ["C15", "C19", "C14", "C20", "C18", "C17", "C09", "C01", "C07", "C03", "C16", "C13", "C11", "C08", "C05", "C06"]
SLOW = ["C10", "C02", "C12", "C04"]


def targets(files):
    out = []
    for root, _, names in os.walk(os.path.join(REPO, PKG)):
        for n in sorted(names):
            if n.endswith(".py") and n not in ("parsetab.py", "exception.py"):
                rel = os.path.relpath(os.path.join(root, n), REPO)
                if not files or any(rel.endswith(f) for f in files):
                    out.append(rel)
    return sorted(out)


def one_line(node):
    return getattr(node, "end_lineno", None) == node.lineno


def seg(lines, node):
    return lines[node.lineno - 1][node.col_offset:node.end_col_offset]


def mutants_of(rel):
    src = open(os.path.join(REPO, rel)).read()
    lines = src.split("\n")
    tree = ast.parse(src)
    res = []

    def add(op, node, new, old=None):
        old = seg(lines, node) if old is None else old
        if new != old:
            res.append({"op": op, "file": rel, "line": node.lineno, "col": node.col_offset, "end": node.end_col_offset, "old": old, "new": new})
    for fn in ast.walk(tree):
        if not isinstance(fn, (ast.FunctionDef,)):
            continue
        doc = ast.get_docstring(fn, clean=False)
        body = fn.body
        if doc is not None and fn.name.startswith("p_") and isinstance(body[0], ast.Expr):
            d = body[0].value
            for ln in range(d.lineno, d.end_lineno + 1):
                t = lines[ln - 1]
                if t.strip().startswith("|") and '"""' not in t:
                    res.append({"op": "ALT-DROP", "file": rel, "line": ln, "col": 0, "end": len(t), "old": t, "new": ""})
            body = body[1:]
        for st in body:
            for node in ast.walk(st):
                if isinstance(node, (ast.If, ast.While)) and one_line(node.test):
                    add("COND-NEG", node.test, f"not ({seg(lines, node.test)})")
                if isinstance(node, ast.IfExp) and one_line(node.test):
                    add("COND-NEG", node.test, f"not ({seg(lines, node.test)})")
                if isinstance(node, ast.BoolOp) and one_line(node):
                    t = seg(lines, node)
                    a, b = (" and ", " or ") if isinstance(node.op, ast.And) else (" or ", " and ")
                    if t.count(a) >= 1:
                        add("BOOL-SWAP", node, t.replace(a, b, 1))
                if isinstance(node, ast.Compare) and one_line(node) and len(node.ops) == 1:
                    t = seg(lines, node)
                    for a, b in ((" == ", " != "), (" != ", " == "), (" not in ", " in "), (" is not ", " is "), (" > ", " >= "), (" < ", " <= "),
                                 (" >= ", " > "), (" <= ", " < ")):
                        if a in t:
                            add("CMP", node, t.replace(a, b, 1))
                            break
                    else:
                        if " in " in t:
                            add("CMP", node, t.replace(" in ", " not in ", 1))
                if isinstance(node, ast.Subscript) and one_line(node) and isinstance(node.ctx, ast.Load):
                    sl = node.slice
                    v = None
                    if isinstance(sl, ast.Constant) and isinstance(sl.value, int):
                        v = sl.value
                    elif isinstance(sl, ast.UnaryOp) and isinstance(sl.op, ast.USub) and isinstance(sl.operand, ast.Constant) and isinstance(sl.operand.value, int):
                        v = -sl.operand.value
                    if v is not None and one_line(sl):
                        add("INDEX", sl, str(v + 1 if v >= 0 else v - 1))
                if isinstance(node, ast.Constant) and isinstance(node.value, bool) and one_line(node):
                    add("BOOL-CONST", node, str(not node.value))
                if isinstance(node, ast.Constant) and isinstance(node.value, str) and one_line(node) and node.value.isupper() and len(node.value) > 2:
                    t = seg(lines, node)
                    if t[:1] in "\"'" and t[1:-1] == node.value:
                        add("STR-CONST", node, t[0] + node.value.lower() + t[0])
            for node in ast.walk(st):
                for child in ast.iter_child_nodes(node):
                    pass
        # statement deletion: simple one-line statements anywhere in the function
        for node in ast.walk(fn):
            if isinstance(node, (ast.Assign, ast.AugAssign, ast.Expr, ast.Delete)) and one_line(node):
                if isinstance(node, ast.Expr) and isinstance(node.value, ast.Constant):
                    continue
                add("STMT-DEL", node, "pass")
    # de-duplicate
    seen, out = set(), []
    for m in res:
        k = (m["file"], m["line"], m["col"], m["new"])
        if k not in seen:
            seen.add(k)
            out.append(m)
    return out


def apply(dst, m):
    p = os.path.join(dst, m["file"])
    lines = open(p).read().split("\n")
    t = lines[m["line"] - 1]
    assert t[m["col"]:m["end"]] == m["old"], (t, m)
    lines[m["line"] - 1] = t[:m["col"]] + m["new"] + t[m["end"]:]
    open(p, "w").write("\n".join(lines))


def run_one(args):
    m, phase = args
    tmp = tempfile.mkdtemp(prefix="sdpsweep_", dir="/dev/shm" if os.path.isdir("/dev/shm") else None)
    try:
        dst = os.path.join(tmp, "repo")
        shutil.copytree(REPO, dst, ignore=shutil.ignore_patterns(".git", "__pycache__", "docs"))
        apply(dst, m)
        env = dict(os.environ, PYTHONPATH=dst, PYTHONDONTWRITEBYTECODE="1")
        r = subprocess.run([PY, "-c", f"import ast,sys;ast.parse(open({os.path.join(dst, m['file'])!r}).read())"], capture_output=True)
        if r.returncode:
            return dict(m, suite="syntax")
        try:
            r = subprocess.run([PY, "-m", "pytest", "-q", "-x", "-p", "no:cacheprovider", "tests"], cwd=dst, env=env, capture_output=True, text=True, timeout=600)
        except subprocess.TimeoutExpired:
            return dict(m, suite="timeout")
        tail = (r.stdout.strip().splitlines() or [""])[-1]
        if r.returncode != 0:
            return dict(m, suite="killed")
        res = dict(m, suite="survived", tail=tail)
        env2 = dict(os.environ, SDPVERIF_REPO=dst, SDPVERIF_EVIDENCE_DIR=os.path.join(tmp, "ev"), SDPVERIF_JOBS="1")
        env2.pop("PYTHONPATH", None)
        shutil.rmtree(os.path.join(dst, "tests"), ignore_errors=True)
        for pr in (FAST + SLOW if phase == "all" else FAST):
            try:
                c = subprocess.run([PY, "-m", "sdpverif", "check", pr, "--tier", "quick"], cwd=os.path.dirname(os.path.dirname(os.path.abspath(__file__))),
                                   env=env2, capture_output=True, text=True, timeout=1500)
            except subprocess.TimeoutExpired:
                res.update(verdict="timeout", check=pr)
                return res
            if c.returncode != 0:
                line = [l for l in c.stdout.splitlines() if l.startswith(("VIOLATION", "ANALYSIS-ERROR"))]
                detail = [l for l in c.stdout.splitlines() if l.strip() and not l.startswith("KNOWN-FINDING")]
                res.update(verdict="caught" if c.returncode == 1 else f"exit{c.returncode}", check=pr, line=(line or [""])[0][:200],
                           detail=[d[:240] for d in detail[:4]])
                return res
        res.update(verdict="uncaught")
        return res
    except Exception as e:  # bookkeeping tool: never stop the sweep
        return dict(m, suite="error", err=repr(e)[:300])
    finally:
        shutil.rmtree(tmp, ignore_errors=True)


def main():
    ap = argparse.ArgumentParser()
    ap.add_argument("out")
    ap.add_argument("--n", type=int, default=300)
    ap.add_argument("--seed", type=int, default=1)
    ap.add_argument("--jobs", type=int, default=12)
    ap.add_argument("--phase", default="fast")
    ap.add_argument("--files", default="")
    a = ap.parse_args()
    allm = []
    for rel in targets([f for f in a.files.split(",") if f]):
        allm += mutants_of(rel)
    rnd = random.Random(a.seed)
    byop = {}
    for m in allm:
        byop.setdefault(m["op"], []).append(m)
    per = max(1, a.n // len(byop))
    sample = []
    for op, ms in sorted(byop.items()):
        rnd.shuffle(ms)
        sample += ms[:per]
    print(f"{len(allm)} mutants over {len(byop)} operators; sampled {len(sample)}", flush=True)
    with open(a.out, "w") as fo, cf.ProcessPoolExecutor(a.jobs) as ex:
        for res in ex.map(run_one, [(m, a.phase) for m in sample]):
            fo.write(json.dumps(res) + "\n")
            fo.flush()
            print(res.get("suite"), res.get("verdict"), res.get("check"), res["op"], f"{res['file']}:{res['line']}", repr(res["old"][:60]), "->", repr(res["new"][:60]), flush=True)


if __name__ == "__main__":
    main()
