#!/venv/bin/python
"""Applies every behaviour-preserving refactoring under /verif/seeded/benign/ to a scratch copy of /repo and runs all registered
checks on it: every check must exit 0 (no VIOLATION, no ANALYSIS-ERROR).  Prints what fired."""
import concurrent.futures as cf, json, os, shutil, subprocess, sys, tempfile
VERIF = os.path.dirname(os.path.dirname(os.path.abspath(__file__)))
B = os.path.join(VERIF, "seeded", "benign")

def one(bid):
    tmp = tempfile.mkdtemp(prefix="sdpben_", dir="/dev/shm" if os.path.isdir("/dev/shm") else None)
    try:
        dst = os.path.join(tmp, "repo")
        shutil.copytree("/repo", dst, ignore=shutil.ignore_patterns(".git", "__pycache__", "docs", "tests"))
        r = subprocess.run(["patch", "-p1", "-s", "--no-backup-if-mismatch", "-d", dst, "-i", os.path.join(B, bid, "patch.diff")], capture_output=True, text=True)
        if r.returncode:
            return bid, {"patch": (r.stdout + r.stderr)[-200:]}
        props = [c["property_id"] for c in json.load(open(os.path.join(VERIF, "MANIFEST.json")))["checks"]]
        if os.environ.get("BENIGN_PROPS"):      # restrict the run to the checks whose code changed
            props = [p_ for p_ in props if p_ in os.environ["BENIGN_PROPS"].split(",")]
        env = dict(os.environ, SDPVERIF_REPO=dst, SDPVERIF_EVIDENCE_DIR=os.path.join(tmp, "ev"))
        out = {}
        for p in props:
            r = subprocess.run(["/venv/bin/python", "-m", "sdpverif", "check", p], cwd=VERIF, env=env, capture_output=True, text=True)
            if r.returncode:
                lines = [l for l in r.stdout.splitlines() if not l.startswith("KNOWN")]
                out[p] = (r.returncode, " | ".join(l.strip()[:140] for l in lines if l.startswith("  ") and not l.startswith("     "))[:500] or lines[-1][:300])
        return bid, out
    finally:
        shutil.rmtree(tmp, ignore_errors=True)

ids = sys.argv[1:] or sorted(os.listdir(B), key=lambda x: int(x[1:]))
with cf.ThreadPoolExecutor(int(os.environ.get('BENIGN_THREADS', '4'))) as ex:
    for bid, out in ex.map(one, ids):
        print(bid, "SILENT" if not out else f"ALARM {out}")
