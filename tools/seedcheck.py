#!/venv/bin/python
"""Development / bookkeeping helper for the seeded changes written by independent sub-agents.

  seedcheck.py verify <dir with patchK.diff/demoK.py/notesK.md> <PROP>   -> confirms each change (demo passes clean, fails
        patched, 308 tests pass patched) in scratch copies and stores the confirmed ones under /verif/seeded/<PROP>-<k>/
  seedcheck.py run [<PROP>-<k> ...]   -> applies every stored change to a scratch copy of /repo and runs all registered checks
        on it (SDPVERIF_REPO); prints which checks fire; writes /verif/seeded/RESULTS.json

Scratch copies live under /dev/shm (or $TMPDIR) and are removed as soon as each run ends.  Nothing is applied to /repo."""
import concurrent.futures as cf
import json
import os
import re
import shutil
import subprocess
import sys
import tempfile

VERIF = os.path.dirname(os.path.dirname(os.path.abspath(__file__)))
SEEDED = os.path.join(VERIF, "seeded")
PY = "/venv/bin/python"


def scratch():
    base = "/dev/shm" if os.path.isdir("/dev/shm") else None
    return tempfile.mkdtemp(prefix="sdpseed_", dir=base)


def copy_repo(dst, with_tests=True):
    ign = [".git", "__pycache__", "docs"] + ([] if with_tests else ["tests"])
    shutil.copytree("/repo", dst, ignore=shutil.ignore_patterns(*ign))


def apply_patch(dst, patch):
    r = subprocess.run(["patch", "-p1", "-s", "--no-backup-if-mismatch", "-d", dst, "-i", patch], capture_output=True, text=True)
    return r.returncode == 0, r.stdout + r.stderr


def run_demo(dst, demo):
    r = subprocess.run([PY, demo], cwd=dst, capture_output=True, text=True, timeout=600,
                       env=dict(os.environ, PYTHONPATH=dst, PYTHONDONTWRITEBYTECODE="1"))
    return r.returncode, (r.stdout + r.stderr)[-600:]


def run_suite(dst):
    r = subprocess.run([PY, "-m", "pytest", "-q", "-p", "no:cacheprovider", "-x", "tests"], cwd=dst, capture_output=True, text=True,
                       timeout=1800, env=dict(os.environ, PYTHONPATH=dst, PYTHONDONTWRITEBYTECODE="1"))
    tail = r.stdout.strip().splitlines()[-1] if r.stdout.strip() else r.stderr[-200:]
    return r.returncode == 0 and " passed" in tail and "failed" not in tail, tail


def verify_one(src, prop, k):
    patch, demo, notes = (os.path.join(src, f"{n}{k}{e}") for n, e in (("patch", ".diff"), ("demo", ".py"), ("notes", ".md")))
    if not (os.path.exists(patch) and os.path.exists(demo)):
        return None
    tmp = scratch()
    res = {"id": f"{prop}-{k}", "property": prop}
    try:
        clean, pat = os.path.join(tmp, "clean"), os.path.join(tmp, "patched")
        copy_repo(clean)
        copy_repo(pat)
        ok, msg = apply_patch(pat, patch)
        res["applies"] = ok
        if not ok:
            res["error"] = msg[-300:]
            return res
        rc_clean, out_clean = run_demo(clean, demo)
        rc_pat, out_pat = run_demo(pat, demo)
        res["demo_clean_rc"], res["demo_patched_rc"] = rc_clean, rc_pat
        res["demo_patched_tail"] = out_pat[-300:]
        ok_suite, tail = run_suite(pat)
        res["suite_ok"], res["suite_tail"] = ok_suite, tail
        res["confirmed"] = rc_clean == 0 and rc_pat != 0 and ok_suite
        if res["confirmed"]:
            dst = os.path.join(SEEDED, f"{prop}-{k}")
            os.makedirs(dst, exist_ok=True)
            shutil.copy(patch, os.path.join(dst, "patch.diff"))
            shutil.copy(demo, os.path.join(dst, "demo.py"))
            if os.path.exists(notes):
                shutil.copy(notes, os.path.join(dst, "notes.md"))
            meta = {"id": f"{prop}-{k}", "breaks_property": re.sub(r"^R\d", "", prop),
                    "needs_to_manifest": open(notes).read()[:1500] if os.path.exists(notes) else "",
                    "confirmed_by": ["demo.py exits 0 on a clean scratch copy of /repo HEAD (rc %d)" % rc_clean,
                                     "demo.py exits non-zero with patch.diff applied (rc %d)" % rc_pat,
                                     "pytest tests with patch.diff applied: " + tail],
                    "author": "independent sub-agent given only the property text and a scratch worktree"}
            with open(os.path.join(dst, "meta.json"), "w") as fh:
                json.dump(meta, fh, indent=1)
        return res
    finally:
        shutil.rmtree(tmp, ignore_errors=True)


def registered_props():
    with open(os.path.join(VERIF, "MANIFEST.json")) as fh:
        return [c["property_id"] for c in json.load(fh)["checks"]]


def run_one(sid, props):
    d = os.path.join(SEEDED, sid)
    tmp = scratch()
    out = {"id": sid, "fired": {}, "errors": {}}
    try:
        dst = os.path.join(tmp, "repo")
        copy_repo(dst, with_tests=False)
        ok, msg = apply_patch(dst, os.path.join(d, "patch.diff"))
        if not ok:
            out["errors"]["patch"] = msg[-200:]
            return out
        env = dict(os.environ, SDPVERIF_REPO=dst, SDPVERIF_EVIDENCE_DIR=os.path.join(tmp, "ev"))
        own = re.sub(r"^R\d", "", sid.split("-")[0])
        # the check of the property the change was written for runs first; when it fires the other checks are not needed for the
        # verdict (set SEED_ALL=1 to run them all the same)
        props = sorted(props, key=lambda p_: (p_ != own, p_))
        for p in props:
            if out["fired"].get(own) and p != own and not os.environ.get("SEED_ALL"):
                break
            if p != own and os.environ.get("SEED_OWN_ONLY"):      # first verdict of the own check only
                break
            try:
                r = subprocess.run([PY, "-m", "sdpverif", "check", p, "--tier", "quick"], cwd=VERIF, env=env, capture_output=True, text=True, timeout=1500)
            except subprocess.TimeoutExpired:
                out["errors"][p] = "TIMEOUT (1500 s)"
                continue
            if r.returncode == 1:
                rules = []
                lines = r.stdout.splitlines()
                for i, l in enumerate(lines):
                    if l.startswith("VIOLATION"):
                        j = i - 1
                        while j >= 0 and not (lines[j].startswith("  ") and not lines[j].startswith("     ")):
                            j -= 1
                        if j >= 0:
                            rules.append(lines[j].strip()[:160])
                out["fired"][p] = rules[:6]
            elif r.returncode != 0:
                out["errors"][p] = (r.stdout + r.stderr).strip().splitlines()[-1][:200]
        return out
    finally:
        shutil.rmtree(tmp, ignore_errors=True)


def main():
    cmd = sys.argv[1]
    if cmd == "verify":
        src, prop = sys.argv[2], sys.argv[3]
        with cf.ThreadPoolExecutor(3) as ex:
            for r in ex.map(lambda k: verify_one(src, prop, k), (1, 2, 3)):
                if r:
                    print(json.dumps(r))
    elif cmd == "run":
        merge = "--merge" in sys.argv
        if merge:
            sys.argv.remove("--merge")
        ids = sys.argv[2:] or sorted(d for d in os.listdir(SEEDED) if os.path.isdir(os.path.join(SEEDED, d)) and d != "benign")
        props = registered_props()
        results = {}
        if merge and os.path.exists(os.path.join(SEEDED, "RESULTS.json")):
            with open(os.path.join(SEEDED, "RESULTS.json")) as fh:
                results = json.load(fh)
        def props_for(sid):
            own = re.sub(r"^R\d", "", sid.split("-")[0])
            # the two slowest checks (all-mode output evaluation) are run only for the properties they belong to
            return [p for p in props if p not in ("C10", "C12") or own in ("C10", "C11", "C12")]
        with cf.ThreadPoolExecutor(7) as ex:
            for r in ex.map(lambda s: run_one(s, props_for(s)), ids):
                own = re.sub(r"^R\d", "", r["id"].split("-")[0])
                status = "CAUGHT(own)" if own in r["fired"] else ("caught(other)" if r["fired"] else ("ERROR" if r["errors"] else "MISSED"))
                print(f"{r['id']:8s} {status:14s} fired={ {k: v[:1] for k, v in r['fired'].items()} } errors={r['errors']}")
                results[r["id"]] = r
                if not sys.argv[2:] or merge:
                    with open(os.path.join(SEEDED, "RESULTS.json"), "w") as fh:
                        json.dump(results, fh, indent=1, sort_keys=True)


main()
