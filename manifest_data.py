"""Source of MANIFEST.json (see tools_manifest.py)."""
_PENDING = "check under construction in this commit; not claimed yet (see DESIGN.md section 4 for the planned obligations)"

ENGINES = [
    {"name": "E1 srcmodel", "path": "/verif/sdpverif/srcmodel.py", "serves_properties": ["C20"],
     "kind_free_text": "ast-only resolved program model: modules, imports, C3 MRO, method resolution, call graph"},
    {"name": "E2 grammar", "path": "/verif/sdpverif/grammar.py", "serves_properties": ["C20"],
     "kind_free_text": "grammar extracted from p_* docstrings in PLY's function order; LALR tables from PLY's generator used as a library"},
]

CHECKS = {
    "C20": {
        "engine": "E2 grammar",
        "category": "translation_validation",
        "technique": "static table comparison: ast-extracted grammar -> fresh LALR generation vs parsetab.py read as data; call-site option lint",
        "text": "Exhaustive for the tree analysed: every action, goto and production cell of the shipped table file is compared with a fresh generation from the grammar as declared in the source, the cache state is classified from the source (valid / stale / other version / missing), and the yacc.yacc()/lex.lex() call sites are shown not to pass an option that would keep a non-matching table. This is the whole property except run-time equality of results, which follows from table identity plus PLY determinism.",
        "design_ref": "DESIGN.md section 4 C20, section 2 E2",
        "note": "Trusted: PLY 3.11's generator as the definition of 'tables derived from the grammar', its signature / version test and regeneration path as read from ply/yacc.py; CPython ast. Both tiers also re-derive the LALR(1) automaton independently (LR(0) kernels + look-ahead propagation) and compare it cell by cell with PLY's generation.",
    },
}

NOT_APPLICABLE = {f"C{n:02d}": _PENDING for n in range(1, 20)}
NOT_APPLICABLE["C08"] = ("the comment scanner is a per-line string state machine over runtime text; whether a comment "
                         "swallows or leaks code depends on marker positions in the input, which no code-shape argument bounds "
                         "(DESIGN.md section 6); code-shaped sub-facts are carried by C13/C14")
CHECKS["C14"] = {
    "engine": "E5 rules (effects, read-before-write)",
    "technique": "interprocedural read-before-write / must-assign analysis on the parser object, effect and escape rules, set-order lint, file-effect reachability",
    "text": "Decides the code-shaped core of the property for all call histories: no attribute of the parser object that a run changes is read or mutated before being re-assigned in the next run (so no accumulator or pending statement survives), objects that escape into a result are rebound to fresh objects, formatter/table objects and their accumulators are created per run, no mutable class-level default, no process-global PLY handle, set-typed values are used only order-insensitively (hash-seed independence), file-creating calls are reachable only under the dump / log_file guards, entry points do not mutate their arguments. Equality of results across processes then follows from PLY / json determinism (trusted), not from an execution.",
    "design_ref": "DESIGN.md section 4 C14, section 3 T-RESET/T-SETORD/T-FILE/T-NOGLOBAL",
    "note": "Trusted: PLY keeps no state between parse() calls beyond the lexer object (whose flags are reset per statement, C03); CPython dict order; json. Not decided: run-time equality as such.",
}
CHECKS["C15"] = {
    "engine": "E5 rules (T-NOGLOBAL) on E1 call graph",
    "technique": "who-may-call / shared-state effect analysis over the resolved call graph",
    "text": "For all interleavings and thread schedules: two parser objects share no mutable state in repository code. Shown by: the statement parse goes through the per-object handle stored from yacc.yacc(module=self) and passes the per-object lexer stored from lex.lex(object=self) (PLY would otherwise fall back to module globals bound to the most recently built parser); no global statement, module- or class-attribute store, or module-level container mutation is reachable from construction, run() or any lexer rule / grammar action; no mutable class-level value in the parser MRO; every lexer flag is stored on self.lexer; silent / normalize_names are read from self.",
    "design_ref": "DESIGN.md section 4 C15, section 3 T-NOGLOBAL",
    "note": "Trusted: objects returned by PLY's yacc.yacc()/lex.lex() are independent of one another apart from PLY's module globals (shown unused); logging configuration is process-global by nature.",
}
CHECKS["C16"] = {
    "engine": "E5 rules (T-RAISEGATE, T-FLAGFLOW) on E1 call graph / guard atoms",
    "technique": "raise-site enumeration over the call graph with control-dependence on the silent flag; flag-use def-use check",
    "text": "Every raise statement reachable from run() (including lexer rules and grammar actions, which PLY calls by reflection) is either one of the two raises the properties require (unknown output_mode, ALTER/INDEX on an undefined table), control-dependent on `not self.silent`, or raised under a parse call whose handler re-raises only under `not self.silent`; `silent` is used only as the test of such a raise (hence cannot change a result); the error hooks raise DDLParserError, which subclasses SimpleDDLParserException; the unknown-mode test dominates parsing and builds its message from the mode table.",
    "design_ref": "DESIGN.md section 4 C16, section 3 T-RAISEGATE",
    "note": "Declined: exceptions thrown implicitly by actions on malformed values (int('x'), KeyError); 'supported DDL never raises' is covered at parse level by the O-accept obligations of the derivation checks.",
}
for _k in ("C14", "C15", "C16"):
    NOT_APPLICABLE.pop(_k, None)
ENGINES.append({"name": "E5 rules", "path": "/verif/sdpverif/rules", "serves_properties": ["C03", "C10", "C12", "C13", "C14", "C15", "C16", "C19"],
                "kind_free_text": "effect / def-use / must-assign / guard-atom rules over E1 (statement CFG, dominators, read-before-write)"})

NOTES = "Static analysis only; nothing from /repo is imported or executed. See DESIGN.md."

_FRAG_NOTE = ("Trusted: PLY 3.11 driver semantics (default reductions, shift/reduce and reduce/reduce resolution as generated), "
              "CPython ast/re. Assumed: words are separated as pre_process_data intends (the L1 string pre-processor is declined, "
              "DESIGN 8); word classes are represented by 3-6 lock-step exemplars and every branch condition / table hit / token type "
              "must agree on all of them (else ANALYSIS-ERROR). Not decided: text of multi-word / transformed types and multi-token defaults.")
CHECKS["C01"] = {
    "engine": "E3 lexmodel x E4 deriv (spec x lexer x LALR fixed point, abstract action evaluation) + E5 T-ORDER",
    "category": "model_checking",
    "technique": "static fixed point over the product of a segment-tagged fragment automaton, the abstractly interpreted lexer and the freshly generated LALR tables, with abstract interpretation of the semantic actions (no repo code executed); append-only lint on column lists",
    "text": "For every CREATE TABLE of the core column fragment, of any number of columns and any number/order of options (the product is finite because the grammar's list constructs are left-recursive): the statement is accepted, no grammar symbol merges words of two options / columns, every column dict is exactly {name, type, size, six option keys} as written and the table's column list grows by exactly that column at its end. Decides the derivation-level and action-level part of the property for all inputs of the fragment at word-class granularity; not the character-level pre-processing.",
    "design_ref": "DESIGN.md section 4 C01, section 2 E3/E4",
    "note": _FRAG_NOTE,
}
CHECKS["C02"] = {
    "engine": "E3 lexmodel x E4 deriv (constraints fragment)",
    "category": "model_checking",
    "technique": "static fixed point (fragment automaton x abstract lexer x LALR tables) with abstract evaluation of the constraint / reference actions against key-level expectations",
    "text": "For every table mixing columns with table-level PRIMARY KEY / UNIQUE / CONSTRAINT ... / CHECK / FOREIGN KEY declarations (1..2 columns each, any number, any position after the first column) and inline REFERENCES with ON DELETE / ON UPDATE actions: each declaration is accepted, folded exactly once, adds exactly its own entry with its exact column list / referenced schema, table, column and actions, flags exactly the single column of a one-column UNIQUE, and touches nothing else. The SET NULL action family is a recorded known finding.",
    "design_ref": "DESIGN.md section 4 C02",
    "note": _FRAG_NOTE + " The output-layer post-processing (PK collection, NOT NULL forcing, unique propagation) is decided by the E5 rules listed in the evidence.",
}
CHECKS["C11"] = {
    "engine": "E3 lexmodel x E4 deriv (ten clause-group fragments)",
    "category": "model_checking",
    "technique": "static fixed point per dialect clause group (any sequence of the group's clauses) with abstract evaluation of the clause actions: exactly the documented key is added, nothing else changes",
    "text": "For each of the ten dialect groups and every sequence of its catalogue clauses after a table body: accepted, each clause is folded on its own by an action that adds exactly its documented key holding the clause's value words as written, and the table's name, columns, keys, constraints and the other clauses are unchanged. Oracle ORGANIZATION INDEX after TABLESPACE/STORAGE is a recorded known finding.",
    "design_ref": "DESIGN.md section 4 C11",
    "note": _FRAG_NOTE + " Placement top-level vs table_properties per output mode is decided by the C10 check.",
}
CHECKS["C17"] = {
    "engine": "E3 lexmodel x E4 deriv (sequence fragment) + E5 T-RESET",
    "category": "model_checking",
    "technique": "static fixed point (sequence-option automaton x abstract lexer x LALR tables) with abstract evaluation of the option action on lock-step integer words incl. 64-bit and negative values; per-statement flag-reset analysis",
    "text": "For CREATE SEQUENCE [s.]n followed by any sequence of the twelve option forms in both keyword spellings with positive, negative and 64-bit values: accepted, every option folded on its own, each fold adds exactly one key holding int(value) / False / True, schema and name as written; the lexer's sequence mode flag is reset before every statement so options cannot leak into neighbours.",
    "design_ref": "DESIGN.md section 4 C17",
    "note": _FRAG_NOTE,
}
for _k in ("C01", "C02", "C11", "C17"):
    NOT_APPLICABLE.pop(_k, None)
ENGINES += [
    {"name": "E3 lexmodel / pyabs", "path": "/verif/sdpverif/lexmodel.py", "serves_properties": ["C01", "C02", "C04", "C05", "C06", "C09", "C11", "C17", "C18"],
     "kind_free_text": "abstract interpretation of the t_* lexer methods over word classes (lock-step exemplars with uniformity check) -> finite transducer"},
    {"name": "E4 deriv", "path": "/verif/sdpverif/deriv.py", "serves_properties": ["C01", "C02", "C04", "C05", "C06", "C09", "C11", "C17", "C18"],
     "kind_free_text": "fixed point over fragment spec x lexer transducer x LALR automaton; obligations O-accept / O-segment / O-value / O-raise / O-case; actions evaluated abstractly"},
]
CHECKS["C03"] = {
    "engine": "E5 rules (T-RESET.lexer, T-DOM, T-CALLERS, T-PURE, T-CHANNEL, T-CARRY, T-REBIND, T-ORDER, T-ITER) on E1",
    "technique": "read-before-write / effect analysis over the resolved call graph: per-statement reset of every lexer attribute, dominance of the reset over the single route to the parser, purity of lexer rules and actions, enumeration of the state carried between lines, append-only in-order accumulation",
    "text": "Decides the code-shaped core for all scripts: what a statement yields is a function of its own text because every lexer attribute written and read during a parse is reset to a constant on the only route to the parser, lexer rules / actions read nothing else of the parser object and touch no module state, and nothing computed from the whole script is consulted during a parse except through placeholder tokens; results are concatenated by append in one in-order pass; the line machine carries only its enumerated registers and re-binds the pending statement on every path. Not decided: the string-level assembly of lines into statements and PLY's error recovery inside one unsupported statement.",
    "design_ref": "DESIGN.md section 4 C03, section 3 T-RESET/T-DOM/T-ORDER",
    "note": "Trusted: PLY's parse() starts from an empty stack and keeps no state but the lexer object. Declined: line-based statement assembly, skip regex behaviour on run-time text, error recovery on arbitrary unsupported text.",
}
NOT_APPLICABLE.pop("C03", None)
CHECKS["C13"] = {
    "engine": "E5 rules (T-GROUP.*, T-ORDER, T-FLAGFLOW, T-AGREE.markers) on E1",
    "technique": "structural loop-shape and table-agreement analysis of the regrouping function against the documented kind->bucket mapping; flag def-use check",
    "text": "For all flat results: the regrouping visits every entity once in order, files it (itself or a plain copy) in the bucket mapped from the first marker key it carries and leaves the marker loop; the marker table equals the documented kind->bucket mapping with generic markers last; the six documented buckets start as empty lists and only an empty comments bucket can be removed; buckets only grow by append/extend; the flag is consulted only after the flat list is complete. This is the whole function's behaviour decided from its shape, given that an entity's kind is identified by its marker key.",
    "design_ref": "DESIGN.md section 4 C13",
    "note": "Assumes entity dicts of one kind do not carry the marker key of another kind (decided for the supported statement forms by the C18 fragments). Trusted: CPython dict iteration order = literal order.",
}
NOT_APPLICABLE.pop("C13", None)
CHECKS["C10"] = {
    "engine": "E1 + dataclass-field model (dcmodel) + E5 rules (T-FLAGFLOW, T-MODE.*)",
    "technique": "non-interference by def-use (the parse path never reads the mode) + symbolic assembly of the 15 per-mode dataclasses (C3 MRO, field overlay, decorator metadata) checked against the common-field table + key-effect analysis of mode-specific code + guard-atom analysis of the output filter",
    "text": "For all DDL and all 15 modes: the mode cannot influence parsing (it is read only by the validation and the formatter), every common field of every mode's table class keeps its default-mode definition and visibility, every dialect-specific field is filtered by a list of valid modes, the filter drops a field exactly under the four metadata rules, the parse result is split exhaustively and disjointly into declared fields and table_properties, and code that runs only in some modes writes no common table field or column attribute except the documented schema->dataset rename and the MSSQL `clustered` index attribute; the in-place reference hook gets a per-column copy (so a mode cannot turn a parse into a KeyError).",
    "design_ref": "DESIGN.md section 4 C10, section 3 T-FLAGFLOW / T-MODE",
    "note": "Trusted: CPython dataclasses field collection and Field.metadata semantics; the decorator / class-factory shape is itself checked (T-MODE.decorator). Not decided: deep run-time equality of values across modes (follows from the above).",
}
NOT_APPLICABLE.pop("C10", None)
CHECKS["C12"] = {
    "engine": "E1 + dataclass-field model + E5 rules (T-SHAPE.*, T-KEYS-NODEL, T-JSON, T-JSONDUMP)",
    "technique": "must-assign / key-effect analysis of the column actions and the output layer against the documented skeleton, per-mode dataclass field tables, non-JSON-value lint, structural check of the json_dump tail of run()",
    "text": "For all supported DDL and all modes: the nine documented table keys are unconditional fields of every mode class with container defaults, primary_key is bound to a list on every path, the emitting loop outputs every attribute that passes the filter, every column dict that reaches `columns` has name / type / size (literal) and the six option keys (must-assigned on every path of the column production), nothing downstream deletes a required column key, unique / nullable are only stored as booleans, no set / bytes / object flows into a result, and json_dump returns json.dumps of exactly the returned object.",
    "design_ref": "DESIGN.md section 4 C12",
    "note": "Trusted: json, dataclasses. Declined: `primary_key lists names of that table's columns` (value-level). Reviewed exception: prepare_alter_columns may append a reference-only record for an ALTER naming an unknown column (ill-formed DDL).",
}
NOT_APPLICABLE.pop("C12", None)
CHECKS["C19"] = {
    "engine": "E5 rules (T-PASS, T-CLI, T-FILE) on E1",
    "technique": "argument pass-through / call-site shape analysis of the file, dump and CLI plumbing; file-effect reachability",
    "text": "Narrow, code-shaped claim: the path and encoding reach open(), the decoded content and parser_settings reach the constructor, file_path and the remaining keywords reach run() whose result is returned unchanged and without caching; files are written only under `if dump`, the dumped object is the result structure before the optional JSON encoding, the file is <dump_path>/<base name>_schema.json written by json.dump; the CLI flags map to dump / dump_path / output_mode with the right polarity and defaults, a file argument calls the API once and a directory argument once per file whose last extension is accepted.",
    "design_ref": "DESIGN.md section 4 C19",
    "note": "Declined: encodings, file-system states and the run-time equality of file content and result (I/O behaviour). Trusted: argparse, json, open().",
}
NOT_APPLICABLE.pop("C19", None)
CHECKS["C05"] = {
    "engine": "E3 lexmodel x E4 deriv (O-case, O-comma over all fragments) + E5 rules (T-CASE-LOOKUP, T-CASE-LIT, T-CASE-VALUE, T-CASE-LINE)",
    "category": "model_checking",
    "technique": "static fixed point over (fragment automaton x abstractly interpreted lexer x LALR tables) with both spellings of every keyword edge; per-grammar-alternative resolution of raw-identifier comparisons in the actions; keyword-table look-up lint",
    "text": "Keyword-case clause of the property, for all statements of the CREATE TABLE (columns, constraints, dialect clauses), CREATE SEQUENCE, ALTER TABLE and CREATE INDEX fragments: at every reachable configuration both spellings of a keyword give the same token type and lexer-flag update (hence the same derivation), values are upper-cased iff the token is not an identifier, every keyword-table look-up and every action comparison on a raw identifier position normalises case, a glued trailing comma never changes how a word is lexed. The whitespace / CRLF / blank-line / line-break clauses are NOT decided (regexes and split() over run-time text).",
    "design_ref": "DESIGN.md section 4 C05",
    "note": "Declined clauses: whitespace amount and kind, glued separators, CRLF, blank lines, line-break positions (L1 string machine). Trusted: PLY lexer rule ordering, CPython re.",
}
NOT_APPLICABLE.pop("C05", None)
CHECKS["C06"] = {
    "engine": "E3 lexmodel x E4 deriv (kwnames, verbatim-names, normalize-names fragments) + E5 rules",
    "category": "model_checking",
    "technique": "static fixed points: every keyword-table key in both spellings in column / table naming positions; the columns+constraints fragment with every identifier position in four quoting styles, evaluated abstractly with normalize_names False and True against key-level expectations; lexer-rule prefix probes; flag def-use",
    "text": "For all statements of the fragments: every grammar keyword outside the property's exception list is accepted verbatim as column name (first and later) and as table name (after TABLE, after `schema.`); schema, table, column, constraint and referenced names in plain / double-quoted / back-ticked / bracketed form are reported exactly as written; with normalize_names=True exactly the one outer delimiter pair is removed and nothing else in the produced column / table dicts changes; no keyword-prefixed identifier is split by an earlier lexer rule; only the single `id` production reads the flag.",
    "design_ref": "DESIGN.md section 4 C06",
    "note": "Assumed: words separated as pre_process_data intends. Known finding: CREATE SCHEMA strips back-ticks. Sequence / index / alter naming positions are decided by the C17 / C04 fragments.",
}
NOT_APPLICABLE.pop("C06", None)
CHECKS["C09"] = {
    "engine": "E3 lexmodel x E4 deriv (types fragment) + E5 T-RESET / T-DOM",
    "category": "model_checking",
    "technique": "static fixed point over (type-language automaton with bounded nesting x abstractly interpreted lexer incl. the bracket counter x LALR tables) with abstract evaluation of the type / column actions against a one-balanced-string expectation; reset analysis of the counter",
    "text": "For every column type of the fragment (sizes, [] suffix, two-word, schema-qualified, angle-bracket types as word sequences to nesting depth 3 / 6 in every admissible order) placed between two plain columns and followed by any sequence of NOT NULL / DEFAULT / COMMENT: accepted, the type is one string with all its words in order and balanced brackets plus the size as given, the options land on that column, and the neighbouring columns and the column list are exactly as next to a plain type. Types whose first word both opens and closes a bracket are a recorded known finding.",
    "design_ref": "DESIGN.md section 4 C09",
    "note": _FRAG_NOTE + " Depth is bounded (3 quick / 6 thorough); beyond that the argument is the uniformity of the counter rows, which is not mechanised.",
}
NOT_APPLICABLE.pop("C09", None)
CHECKS["C04"] = {
    "engine": "E3 lexmodel x E4 deriv (alter / index fragment) x objabs (output layer evaluated abstractly) + E5 registry rules",
    "category": "model_checking",
    "technique": "static fixed point over every ALTER / CREATE INDEX form x every way of writing the target, followed by abstract interpretation of Output.format on [three same-named tables, statement] and comparison of the final entries with property-level expectations; registry key lint",
    "text": "For a script of three tables sharing one name (two schemas and none) and every supported ALTER TABLE / CREATE INDEX statement with its target written in any quoting style or letter case: exactly the named table changes and the other entries equal their stand-alone output; columns are added / dropped / renamed / modified as declared, a single-column ADD UNIQUE flags that column, ADD DEFAULT ... FOR sets that column's default, the alter section records the declared names and values, an index records name, uniqueness, ordered columns and direction; a statement naming an undefined table raises. Decided on the final output, not on the parse result.",
    "design_ref": "DESIGN.md section 4 C04",
    "note": _FRAG_NOTE + " The output layer (Output, TableData, BaseData, per-mode dataclasses) is evaluated by the object-capable abstract interpreter on the lock-step values. Known finding: NOT NULL / NULL after ALTER ... ADD column.",
}
NOT_APPLICABLE.pop("C04", None)
CHECKS["C18"] = {
    "engine": "E3 lexmodel x E4 deriv (entities fragment) x objabs (output layer, flat and grouped)",
    "category": "model_checking",
    "technique": "static fixed point over the entity statement forms with abstract interpretation of the actions and of Output.format (flat and group_by_type) against property-level expectations",
    "text": "For every statement form of the fragment (types as enum / object / table, domains, schemas with IF NOT EXISTS / AUTHORIZATION / COMMENT, databases, tablespaces with kind and temporary flags, names plain or schema-qualified, 1..3 enum values) the final output holds exactly one entity with exactly the marker key of its kind and the declared details as written, group_by_type files it exactly once in its bucket, and a table using such a type reports the type name verbatim. CREATE DOMAIN without a parenthesised list is a recorded known finding.",
    "design_ref": "DESIGN.md section 4 C18",
    "note": _FRAG_NOTE,
}
NOT_APPLICABLE.pop("C18", None)
CHECKS["C07"] = {
    "engine": "E5 rules (T-NUMERIC, T-STRTOKEN, T-FLOW.string) + E3 x E4 (x objabs) fragments with literal positions",
    "category": "model_checking",
    "technique": "control-dependence check of the numeric-default conversion; abstract evaluation of the literal-bearing fragments (defaults, comments, enum values, string-valued options) with exemplars containing blanks / ` = ` / ` . `; per-alternative lint of string methods applied to string-literal positions",
    "text": "Narrow claim: purely numeric defaults (incl. 0 and leading zeros) are reported as the integer of the same value because the conversion is guarded by exactly isnumeric(); in every literal position of the explored fragments a quoted literal - taken as one word - is reported with exactly its characters by lexer, actions and output layer; no action splits / replaces / re-cases a production position that can hold a string literal (one known finding). What the line pre-processor does to the characters inside literals is NOT decided.",
    "design_ref": "DESIGN.md section 4 C07, section 6",
    "note": "Declined (run-time string rewriting by regexes): pre_process_data spacing, quote-parity handling, comment markers and semicolons inside literals, non-ASCII letters. The property text records such literals come back altered.",
}
NOT_APPLICABLE.pop("C07", None)

CHECKS["C02"]["text"] += " In addition the output layer (key collection, NOT NULL forcing, unique propagation, attachment of table-level FOREIGN KEY clauses) is evaluated abstractly on up to 400 structurally distinct tables of the fixed point, including tables whose column names differ only in quoting / case, and the final primary_key / nullable / unique / references / checks are compared with the declarations (O-keys)."
CHECKS["C02"]["engine"] += " x objabs (final output, O-keys)"
CHECKS["C10"]["text"] += " Finally Output.format is evaluated abstractly in all 15 modes on a spread of the tables produced by the columns+constraints fixed point and in the default / owning / an unrelated mode on the tables of the ten clause groups: no mode raises, common fields equal the default mode's, dialect keys are at top level only in documented modes (O-mode)."
CHECKS["C10"]["engine"] += " + objabs (Output.format evaluated abstractly per mode)"
CHECKS["C11"]["text"] += " The final output is evaluated abstractly in the default mode, the owning dialect's mode and an unrelated mode: what the default mode reports under table_properties is at top level in the owning mode, and common fields are equal (O-mode)."
CHECKS["C12"]["text"] += " The documented skeleton, booleans and JSON-encodable leaves are additionally checked on the abstractly evaluated final output of the fixed points' tables in six modes (O-shape)."
CHECKS["C12"]["engine"] += " + E4 fragments x objabs (O-shape)"
CHECKS["C13"]["text"] = "The regrouping function is evaluated abstractly (object-capable interpreter) on representative flat results - one entity of every kind incl. entities carrying generic keys, reversed order, same kinds separated by others, comments, the empty result, a property with an empty value - and must file every entity once, unchanged, in order, in the bucket of its kind with the six documented buckets present (O-group); the entity statement forms are evaluated down to the grouped output (O-final); structural rules (marker table = documented mapping, f-string markers per grammar alternative, flag consulted only after the flat list is complete) add the cases the scenarios cannot reach."
CHECKS["C13"]["engine"] = "objabs (regrouping evaluated abstractly) + E4 entities fragment + E5 rules (T-GROUP.*, T-FLAGFLOW, T-AGREE.markers)"
CHECKS["C13"]["category"] = "other"

ENGINES[:] = [
    {"name": "E1 srcmodel / cfg / effects / fold", "path": "/verif/sdpverif/srcmodel.py", "serves_properties": ["C03", "C10", "C12", "C13", "C14", "C15", "C16", "C19", "C20"],
     "kind_free_text": "ast-only resolved program model: modules, imports, C3 MRO, method resolution, call graph, statement CFG, guard atoms, access / read-before-write summaries, constant folder for tokens.py"},
    {"name": "E1b dcmodel", "path": "/verif/sdpverif/dcmodel.py", "serves_properties": ["C10", "C11", "C12"],
     "kind_free_text": "dataclass-field model of the 15 per-mode output classes (decorator metadata, field overlay, synthetic classes)"},
    {"name": "E2 grammar + independent LALR", "path": "/verif/sdpverif/grammar.py", "serves_properties": ["C20", "C01", "C02", "C04", "C05", "C06", "C07", "C09", "C11", "C13", "C17", "C18"],
     "kind_free_text": "grammar extracted from p_* docstrings in PLY's function order; LALR tables from PLY's generator used as a library; independent LALR(1) derivation (lalr_indep.py)"},
    {"name": "E3 lexmodel / pyabs", "path": "/verif/sdpverif/lexmodel.py", "serves_properties": ["C01", "C02", "C04", "C05", "C06", "C07", "C09", "C10", "C11", "C12", "C13", "C17", "C18"],
     "kind_free_text": "abstract interpretation of the t_* lexer methods and p_* actions over word classes (lock-step exemplars with uniformity check, per-exemplar fallback)"},
    {"name": "E4 deriv + specs", "path": "/verif/sdpverif/deriv.py", "serves_properties": ["C01", "C02", "C04", "C05", "C06", "C07", "C09", "C10", "C11", "C12", "C13", "C17", "C18"],
     "kind_free_text": "fixed point over fragment spec x lexer transducer x LALR automaton; obligations O-accept / segment / value / uniform / case / counter; specs: table, kwnames, types, clauses, sequence, alter, entities"},
    {"name": "E4b objabs + final judges", "path": "/verif/sdpverif/objabs.py", "serves_properties": ["C02", "C03", "C04", "C10", "C11", "C12", "C13", "C18"],
     "kind_free_text": "object-capable abstract interpreter: Output.format, TableData, BaseData and the per-mode dataclasses evaluated abstractly; obligations O-final / keys / shape / mode / concat / group, T-MODE.filter / partition / class"},
    {"name": "E5 rules", "path": "/verif/sdpverif/rules", "serves_properties": ["C03", "C04", "C05", "C06", "C07", "C10", "C12", "C13", "C14", "C15", "C16", "C19", "C20"],
     "kind_free_text": "effect / def-use / must-assign / guard-atom / per-alternative rules (T-*)"},
]
NOTES = ("Static analysis only; nothing of /repo is imported or executed: the analyser walks the ast of the functions found in the source "
         "(abstract interpretation on lock-step word classes) and uses PLY's table generator as a library. See DESIGN.md, in particular section 9 (as built). "
         "Seeded changes and behaviour-preserving refactorings used to test the checks both ways: /verif/seeded (tools/seedcheck.py, tools/benigncheck.py).")

CHECKS["C16"]["text"] += " In addition the core-column, sequence and dialect-clause fixed points show that on every derivation of those fragments the parser always has an action, the lexer meets no unknown symbol and no semantic action raises: supported DDL of these fragments reaches neither error hook (O-accept / O-raise)."
CHECKS["C16"]["engine"] += " + E3 x E4 (O-accept / O-raise over the core fragments)"


CHECKS["C08"] = {
    "engine": "E7 linemodel (Parser.process_line evaluated abstractly on line classes) - relational fixed point over pairs of line-machine states",
    "category": "model_checking",
    "technique": "abstract interpretation of the per-line comment / statement-assembly machine (the real method bodies walked as ast, regexes compiled from the source, the LALR call intercepted) on lock-step exemplar lines; relational (2-safety) fixed point over (state of a script, state of the same script with comments added); syntactic justification of the state abstraction (T-ABS: every read of the text registers has a content-independent form)",
    "text": "For every well-formed sequence of the listed code-line classes (statement openers, column lines, lines with string literals, closers with and without ';', clause lines, one-line statements with and without ';', skipped statements, SET lines, blank lines) and from every reachable pair of machine states: adding a trailing `--` or `/* */` comment to a code line, a whole-line `--` / `#` / `/* */` comment (at the margin or indented), a block comment over several lines, or a comment at the very end of the script leaves the statements handed to the grammar, the pending statement, the SET registers and the returned entities unchanged; comment lines hand nothing to the grammar; the machine leaves block-comment mode at the closing line; every item appended to `comments` is taken from the comment text of that line (so items are in source order and contain no code). Comment texts: plain words, SQL-like text with keywords / commas / parentheses / semicolons, text containing the other comment marker (`--` inside /* */, `/*` `*/` inside `--`), and in the thorough tier `=`-bearing, statement-word, long and unbalanced-parenthesis texts. Three known findings (indented opener of a multi-line block comment; a comment after a line whose string literal contains `--`, two forms); four defects found by this check were repaired.",
    "design_ref": "DESIGN.md section 9.8",
    "note": "Decided at line-class level: lines are written as they look after pre_process_data; the whole-script regex spacing / quote-parity step that precedes the line loop is NOT decided, nor are comments placed in the middle of a line's code or block comments opened after code. What the grammar does with a statement text is outside this check (the statements are shown to be the same texts). The output-side clause (comments entry kept apart by group_by_type) is C13's O-group.",
}
NOT_APPLICABLE.pop("C08", None)
ENGINES.append({"name": "E7 linemodel", "path": "/verif/sdpverif/linemodel.py", "serves_properties": ["C08"],
                "kind_free_text": "the line machine of parser.py (process_line, comment detection, SET handling, statement assembly, end of parse_data) as an abstract transition function over line classes; the LALR call is intercepted"})

CHECKS["C03"]["text"] += " Statement boundaries (E7, O-split): Parser.process_line is evaluated abstractly on line classes - from the start of the script and from the state left by each kind of statement, a `;`-terminated statement (one-line, multi-line table with / without a clause line) hands over exactly its own text once, skipped statements / GO / SET / blank lines hand nothing over, the line machine is left as at the start of the script, and the last statement of a script is still handed over / reported."
CHECKS["C03"]["engine"] += " + E7 linemodel (O-split)"
CHECKS["C03"]["technique"] += "; abstract evaluation of the line machine at statement boundaries"
CHECKS["C03"]["note"] = "Trusted: PLY's parse() starts from an empty stack and keeps no state but the lexer object. The line machine is decided at line-class level (listed statement shapes); declined: unsupported statements spanning several lines, error recovery on arbitrary unsupported text."
CHECKS["C05"]["note"] = "Layout is decided at line-class level (E7) for the listed line classes, exemplar scripts and layout variants - not for arbitrary run-time text; what the pre-processor does inside string literals is C07's concern; lines starting with a statement-level word inside a statement are excluded by the property. Trusted: PLY lexer rule ordering, CPython re."
CHECKS["C05"]["text"] += " Line layout (E7): per-line laws of the line machine in every reachable state (O-line: continuation lines - also lines whose first word merely begins like a statement-level word, or starts with a comma / parenthesis / keyword / `=`-glued word - are appended verbatim with one blank; a line ending with ';' hands over the assembled text without the ';'; blank lines do nothing; leading / trailing blanks do not matter), from which invariance under the position of line breaks follows by induction for `;`-terminated statements; and line formation (O-form: everything parse_data does before the line loop, evaluated on exemplar scripts): CRLF vs LF, tabs vs blanks, amount of blanks, glued vs spaced commas / parentheses, blank lines, trailing blanks and a missing final newline give the same lines."
CHECKS["C05"]["engine"] += " + E7 linemodel (O-line, O-form)"
CHECKS["C05"]["technique"] += "; abstract evaluation of the line machine (per-line laws) and of the line formation on exemplar scripts under layout variants"
for _e in ENGINES:
    if _e["name"] == "E7 linemodel":
        _e["serves_properties"] = ["C03", "C05", "C08"]

CHECKS["C07"]["text"] = CHECKS["C07"]["text"].replace(" What the line pre-processor does to the characters inside literals is NOT decided.", "") + " Line pre-processing (E7, O-literal): for 25 classes of literal content (blanks, comma, parentheses, equals, semicolon, comment markers, hash, keywords, statement words, non-ASCII letters, doubled quote, double quotes, dot, colon / slash, tab, digits) in four positions, the script is formed into lines and run through the line machine, both evaluated abstractly, and the literal must reach the grammar verbatim inside one statement; ten classes do not (recorded known findings, each confirmed on the real parser - the property text itself records them)."
CHECKS["C07"]["engine"] += " + E7 linemodel (O-literal)"
CHECKS["C07"]["technique"] += "; abstract evaluation of pre_process_data / line formation / line machine on literal classes"
CHECKS["C07"]["note"] = "Decided per class of literal content and position, not for arbitrary literals or combinations of features. Ten known findings (pre-processor re-spaces commas, parentheses, equals signs inside literals of more than one word; cuts at /* */; keeps non-ASCII letters escaped; turns tabs into blanks)."
for _e in ENGINES:
    if _e["name"] == "E7 linemodel":
        _e["serves_properties"] = ["C03", "C05", "C07", "C08"]

CHECKS["C05"]["text"] += " Seam to the fixed points (O-canon / O-glue / O-break): an edge cover of every fragment spec NFA (about 1500 sentences: all word classes in all the contexts the fixed points explore) is rendered as scripts - one blank between words; commas and parentheses glued to their neighbours; a line break after every comma / opening parenthesis and before every closing one - and pushed through parse_data evaluated abstractly; the text reaching the grammar must be cut by PLY's scanner (rules tried in PLY's order, t_ignore skipped) into the same lexemes in all three renderings, namely the words the fixed points assume. This discharges, for the fragments' own sentences, the assumption 'words are separated as pre_process_data intends' that C01, C02, C04, C06, C07, C09, C11, C17, C18 rest on."
CHECKS["C08"]["text"] += " Whole-script level (O-script): parse_data evaluated abstractly as a whole (its own line loop, the more-lines argument, the code after the loop) on exemplar scripts with a comment of each form inserted at every line position, once and again at the end."
_FRAG_NOTE_SEAM = " The word-separation assumption is discharged for the fragments' own sentences by C05's O-canon / O-glue / O-break (E7)."
for _k in ("C01", "C02", "C04", "C06", "C09", "C11", "C17", "C18"):
    if _k in CHECKS and "separated as pre_process_data intends" in CHECKS[_k]["note"]:
        CHECKS[_k]["note"] += _FRAG_NOTE_SEAM

CHECKS["C16"]["text"] += " Line pre-processing (E7, O-noraise): Parser.process_line, the end of parse_data and the whole of parse_data are evaluated abstractly on odd lines (SET with one / two / many words, punctuation only, lone quotes, comment markers in every order, statement words alone, equals signs, blanks) in every reachable state of the line machine, also as last line, and on odd scripts (empty, blank, quotes of odd parity, input.regex without value / in a comment / single-quoted / unbalanced): the pre-processing itself never raises."
CHECKS["C16"]["engine"] += " + E7 linemodel (O-noraise)"
CHECKS["C03"]["text"] += " Unsupported statements over several lines (a query over three lines, a skipped statement over two): whatever reaches the grammar is a run of that statement's own words, no entity appears, the line machine returns to its start state; known finding: an UPDATE whose SET clause starts a line yields a bogus SET entity."
CHECKS["C05"]["text"] += " Also: a statement without ';' closed by the first line of the next statement is handed over whole (repaired: it lost its last character)."
for _e in ENGINES:
    if _e["name"] == "E7 linemodel":
        _e["serves_properties"] = ["C03", "C05", "C06", "C07", "C08", "C09", "C14", "C16", "C17"]

CHECKS["C06"]["text"] += " O-lex-prefix: in every lexer configuration the table / alter / sequence / entities fixed points reach with a plain name (table, column, constraint, REFERENCES target, ALTER / INDEX target, sequence and entity names), a name that merely begins like one of the keywords (four spellings per keyword) is typed ID with its value verbatim. O-name (E7 + scanner): identifiers with unusual characters (#, $, -, blank, dot, -- inside delimiters; delimited keywords; digit-first and long names) in four naming positions reach the grammar verbatim and are one lexeme; two known findings (bracketed / back-ticked names with a blank are cut)."
CHECKS["C13"]["text"] += " O-run: Parser.run itself is evaluated abstractly with parse_data replaced by representative flat results (empty, a property, every kind but tables, comments only ...): with and without group_by_type, in two modes, with and without json_dump it returns exactly what the formatter returns - the six documented buckets also for an empty result."
CHECKS["C03"]["text"] += " O-concat also covers CREATE TABLE statements whose names are equal up to quoting / letter case, with and without IF NOT EXISTS (each is reported). T-SHARED-DEFAULT also rejects mutable default arguments that are stored, returned, passed on or mutated."
CHECKS["C02"]["text"] += " Key lists are also written in the reverse of the column-definition order, and the final-output shapes are distinguished by where the declared key columns sit in the column list (a key is reported in declaration order)."
CHECKS["C04"]["text"] += " MODIFY / ALTER COLUMN / DROP / RENAME are applied to the first, a middle and the last column; eight scripts of two to four ALTER statements on one table are judged on the final output (every column keeps the documented keys, the column list is the declared one)."
CHECKS["C17"]["text"] += " Sequence names are also written double-quoted, bracketed, back-ticked and schema-qualified with quotes (the options after a delimited name are options all the same)."
CHECKS["C11"]["text"] += " Two-element clause lists whose second column is named like a word of the column-definition vocabulary (CLUSTER BY (a, order), CLUSTERED BY (a, set)) are part of the Snowflake and Hive groups."
CHECKS["C18"]["text"] += " Entity names are also written double-quoted, including names with a dot or a blank inside the quotes (schema and name are tokens, never a textual split)."

CHECKS["C16"]["text"] += " Silent mode, semantically (O-silent): Parser.process_line -> process_statement -> parse_statement is evaluated abstractly with only the LALR call stubbed (returns a result / returns nothing / the error hooks raise DDLParserError; the interpreter models try / except over the package's exception hierarchy and bare re-raise): with silent=True the exception is swallowed, nothing is reported, the registers and the lexer flags are as before the statement and the next statement is handed over intact; with silent=False exactly that exception escapes; a recognised statement is reported once either way. The PLY error hooks are evaluated as well: p_error (with a token, and with None at the end of the input) raises DDLParserError exactly when silent is off, t_error raises DDLParserError and nothing else."
CHECKS["C16"]["technique"] += "; abstract evaluation of the statement driver and of the error hooks with exception handling modelled over the package's exception classes"
CHECKS["C19"] = dict(CHECKS["C19"])
CHECKS["C19"]["engine"] = "entryabs (entry points evaluated abstractly with the outside world replaced by recorders) + objabs run_tail + E5 rules (T-FILE, T-CLI argument table)"
CHECKS["C19"]["technique"] = "abstract evaluation of parse_from_file, cli.run_for_file, cli.main, dump_data_to_file and the dump branch of Parser.run over scenario tables (encoding x parser_settings x run arguments; flag combinations; directory listing; existing / missing target) with open / read / DDLParser(...) / run(...) / os / json / pprint / sys.exit recorded; syntactic statelessness and file-effect reachability rules"
CHECKS["C19"]["text"] = ("Value flow through the entry points, however they are written (O-entry): in 90 combinations parse_from_file opens file_path once for reading with the given encoding, hands the decoded content as the only positional argument and parser_settings as the only keywords to DDLParser, passes file_path and the remaining keywords to run() and returns its result as is; it and its helpers keep no state between calls. sdp: --no-dump / -t / -o reach dump / dump_path / output_mode with the right polarity in all flag combinations, the result is printed exactly with -v or --no-dump, a missing path parses nothing, a file is parsed once, a directory once per .sql / .ddl / .hql / .bql file in listing order (extension test evaluated on representative names). dump_data_to_file creates a missing target with its parents, writes <target>/<name>_schema.json once with json.dump of the data. Parser.run dumps the result structure (before JSON encoding) exactly when dump is set, under the base name of file_path also for paths with dotted directories, and json_dump returns json.dumps of the same object (the real encoder, per exemplar). File-creating calls are reachable only under the dump / log_file guards (through helpers too).")
CHECKS["C19"]["note"] = "Decided on scenario tables by abstract evaluation: the file system, real decoding of bytes and argparse's own behaviour are outside (trusted: open / argparse / json). A rewrite using pathlib is outside the interpreted subset (exit 2, never a silent pass)."
CHECKS["C14"]["text"] += " T-SETORD also knows set algebra on dict views (d.keys() & e.keys()); T-NOGLOBAL also rejects attribute / item stores through a local taken out of a module-level registry (a per-class cache on the dialect classes); T-SHARED-DEFAULT covers mutable default arguments; the file-effect guard follows helper functions."
CHECKS["C03"]["text"] += " The reset-before-parse obligation (T-DOM) is semantic: process_line is evaluated with the reset function not intercepted over all line classes and reachable states, the lexer flags being carried from line to line and dirtied by every parse; whenever a statement is handed to the grammar the flags must be the reset vector."
for _e in ENGINES:
    if _e["name"] == "E7 linemodel":
        _e["serves_properties"] = ["C03", "C05", "C06", "C07", "C08", "C09", "C14", "C16", "C17"]
ENGINES.append({"name": "entryabs", "path": "/verif/sdpverif/entryabs.py", "serves_properties": ["C19"],
                "kind_free_text": "E3 interpreter with recorders for open / read / DDLParser(...) / run(...) / os / json / pprint / sys.exit: the entry points evaluated abstractly on scenario tables"})
CHECKS["C19"]["note"] = "Decided on scenario tables by abstract evaluation: the file system, real decoding of bytes and argparse's own behaviour are outside (trusted: open / argparse / json). os.path and a minimal pathlib (Path(), /, mkdir(parents=, exist_ok=), open, name / stem / parent) are modelled; other libraries are outside the interpreted subset (exit 2, never a silent pass)."

# ---- session 3, late: exact-shape rules on glue code replaced by abstract evaluation (DESIGN 9.5b)
CHECKS["C13"]["text"] = ("The regrouping is decided by evaluating the code (object-capable interpreter), not by the shape of its loops. O-group: "
    "Output.group_by_type_result on 19 flat results (every entity kind alone and together, reversed, interleaved, entities carrying generic keys of later "
    "markers, several comment items, blank comment texts, optional kinds only, the empty result) must file every entity once, unchanged, in order, in the bucket of "
    "its kind, with the six documented buckets present and no other empty bucket; and Output(...).format() evaluated flat and grouped on the same parser output "
    "(tables, every other kind, comments, nothing at all, ALTER / INDEX statements naming a missing table) in three modes: the grouped result is the regrouping of "
    "the flat one. O-run: Parser.run hands the formatter's result through (also json_dump). O-final: the entity statement forms (incl. DATABASE / SCHEMA with a "
    "TABLESPACE option) carry exactly one kind marker and land in its bucket. E1 rules: group_by_type is read only by Parser.run and class Output; no sorting in the "
    "regrouping; keyword-derived marker keys of the grammar actions are known to the regrouping.")
CHECKS["C13"]["engine"] = "objabs (group_by_type_result, Output.format, Parser.run evaluated abstractly) + E4 entities fragment + E1 who-may-read rules"
CHECKS["C12"]["text"] += (" T-SHAPE.pk and T-JSONDUMP are evaluated, not matched: table objects are built and emitted in all 15 modes with primary_key absent / None / a "
    "clause list (with and without an inline key column) and must come out with that list; run() is evaluated with and without json_dump on flat results of every kind and must "
    "return json.dumps of the plain result; encoder calls carry no default= / skipkeys / cls.")
CHECKS["C12"]["engine"] = CHECKS["C12"]["engine"].replace("T-JSON, T-JSONDUMP", "T-JSON") + " + objabs (table construction, Parser.run evaluated)"
CHECKS["C10"]["text"] += (" The dialect() decorator is evaluated on every decorated class (abstract Field objects) and compared with the field model; Parser.run is evaluated in all 15 "
    "modes, flat and grouped, against the formatter constructed with that mode.")
CHECKS["C16"]["text"] += (" Unknown modes: Parser.run is evaluated with modes that are not in dialect_by_name (wrong case, empty, a near miss): it raises the package's "
    "SimpleDDLParserException whose evaluated message names every valid mode; every valid mode is accepted. The error hooks are evaluated with parser attributes and "
    "lexer flags compared before / after (no other effect).")
CHECKS["C04"]["text"] += (" get_table_id is evaluated on pairs of spellings: one name in three delimiter styles and any case gives one id; different names, different schemas and a "
    "missing schema give different ids.")
CHECKS["C02"]["text"] += (" Inline constraint names (CONSTRAINT n before UNIQUE / PRIMARY KEY / NOT NULL / REFERENCES) are options of the column; whether a column carries a name / a "
    "reference is kept in the configuration identity, so what the table-level fold does with such a column and with the columns after it is explored.")
CHECKS["C01"]["text"] += " Parenthesised defaults (DEFAULT (NULL), DEFAULT (0)) belong to the option alphabet."
CHECKS["C06"]["text"] += " kwnames also puts every keyword in the referenced-column position of an inline REFERENCES."

# ---- session 4
CHECKS["C04"]["text"] += (" Session 4: nineteen ALTER sequences (evaluated in a fork pool): a column added and dropped again stays dropped whatever ALTER "
                          "follows (found and repaired: 7d73cb7), and a column-level effect - unique flag, default - reaches the column as it is after an "
                          "earlier MODIFY / RENAME / ADD.")
for _k in ("C14", "C15"):
    CHECKS[_k]["technique"] += "; alias rule: no module-level container of mutable objects flows into a parse result (T-ALIAS over everything run() reaches)"
    CHECKS[_k]["text"] += (" T-ALIAS: a module-level dict / list literal holding mutable objects may be consulted (membership, get, index, iteration) "
                           "but not copied / unpacked into a result anywhere run() reaches - the inner objects would be shared by every run and every parser object.")
CHECKS["C16"]["text"] += " The unknown-mode evaluation is repeated on scripts that yield nothing, only non-table entities, and a table."
CHECKS["C09"]["text"] += " The type alphabet includes a suffix after the size: numeric(10,2)[], decimal(10,2) unsigned (type = base + suffix, size kept)."
CHECKS["C18"]["text"] += " A tablespace may be CALLED like one of the optional words (temporary, bigfile): the flags come from the words before TABLESPACE only."
CHECKS["C07"]["text"] += " Literal classes include `; + statement word`; the structural T-NUMERIC anchor is optional (the values are decided by the fixed point)."
