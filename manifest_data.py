"""Source of MANIFEST.json (see tools_manifest.py)."""
_PENDING = "check under construction in this commit; not claimed yet (see DESIGN.md section 4 for the planned obligations)"

ENGINES = [
    {"name": "E1 srcmodel", "path": "/verif/sdpverif/srcmodel.py", "serves_properties": ["C20"],
     "kind_free_text": "ast-only resolved program model: modules, imports, C3 MRO, method resolution, call graph"},
    {"name": "E2 grammar", "path": "/verif/sdpverif/grammar.py", "serves_properties": ["C20"],
     "kind_free_text": "grammar extracted from p_* docstrings in PLY's function order; LALR tables from PLY's generator used as a library"},
]

CHECKS = {
    "C20": {
        "engine": "E2 grammar",
        "category": "translation_validation",
        "technique": "static table comparison: ast-extracted grammar -> fresh LALR generation vs parsetab.py read as data; call-site option lint",
        "text": "Exhaustive for the tree analysed: every action, goto and production cell of the shipped table file is compared with a fresh generation from the grammar as declared in the source, the cache state is classified from the source (valid / stale / other version / missing), and the yacc.yacc()/lex.lex() call sites are shown not to pass an option that would keep a non-matching table. This is the whole property except run-time equality of results, which follows from table identity plus PLY determinism.",
        "design_ref": "DESIGN.md section 4 C20, section 2 E2",
        "note": "Trusted: PLY 3.11's generator as the definition of 'tables derived from the grammar', its signature / version test and regeneration path as read from ply/yacc.py; CPython ast. The thorough tier re-derives the LALR automaton independently.",
    },
}

NOT_APPLICABLE = {f"C{n:02d}": _PENDING for n in range(1, 20)}
NOT_APPLICABLE["C08"] = ("the comment scanner is a per-line string state machine over runtime text; whether a comment "
                         "swallows or leaks code depends on marker positions in the input, which no code-shape argument bounds "
                         "(DESIGN.md section 6); code-shaped sub-facts are carried by C13/C14")
CHECKS["C14"] = {
    "engine": "E5 rules (effects, read-before-write)",
    "technique": "interprocedural read-before-write / must-assign analysis on the parser object, effect and escape rules, set-order lint, file-effect reachability",
    "text": "Decides the code-shaped core of the property for all call histories: no attribute of the parser object that a run changes is read or mutated before being re-assigned in the next run (so no accumulator or pending statement survives), objects that escape into a result are rebound to fresh objects, formatter/table objects and their accumulators are created per run, no mutable class-level default, no process-global PLY handle, set-typed values are used only order-insensitively (hash-seed independence), file-creating calls are reachable only under the dump / log_file guards, entry points do not mutate their arguments. Equality of results across processes then follows from PLY / json determinism (trusted), not from an execution.",
    "design_ref": "DESIGN.md section 4 C14, section 3 T-RESET/T-SETORD/T-FILE/T-NOGLOBAL",
    "note": "Trusted: PLY keeps no state between parse() calls beyond the lexer object (whose flags are reset per statement, C03); CPython dict order; json. Not decided: run-time equality as such.",
}
CHECKS["C15"] = {
    "engine": "E5 rules (T-NOGLOBAL) on E1 call graph",
    "technique": "who-may-call / shared-state effect analysis over the resolved call graph",
    "text": "For all interleavings and thread schedules: two parser objects share no mutable state in repository code. Shown by: the statement parse goes through the per-object handle stored from yacc.yacc(module=self) and passes the per-object lexer stored from lex.lex(object=self) (PLY would otherwise fall back to module globals bound to the most recently built parser); no global statement, module- or class-attribute store, or module-level container mutation is reachable from construction, run() or any lexer rule / grammar action; no mutable class-level value in the parser MRO; every lexer flag is stored on self.lexer; silent / normalize_names are read from self.",
    "design_ref": "DESIGN.md section 4 C15, section 3 T-NOGLOBAL",
    "note": "Trusted: objects returned by PLY's yacc.yacc()/lex.lex() are independent of one another apart from PLY's module globals (shown unused); logging configuration is process-global by nature.",
}
CHECKS["C16"] = {
    "engine": "E5 rules (T-RAISEGATE, T-FLAGFLOW) on E1 call graph / guard atoms",
    "technique": "raise-site enumeration over the call graph with control-dependence on the silent flag; flag-use def-use check",
    "text": "Every raise statement reachable from run() (including lexer rules and grammar actions, which PLY calls by reflection) is either one of the two raises the properties require (unknown output_mode, ALTER/INDEX on an undefined table), control-dependent on `not self.silent`, or raised under a parse call whose handler re-raises only under `not self.silent`; `silent` is used only as the test of such a raise (hence cannot change a result); the error hooks raise DDLParserError, which subclasses SimpleDDLParserException; the unknown-mode test dominates parsing and builds its message from the mode table.",
    "design_ref": "DESIGN.md section 4 C16, section 3 T-RAISEGATE",
    "note": "Declined: exceptions thrown implicitly by actions on malformed values (int('x'), KeyError); 'supported DDL never raises' is covered at parse level by the O-accept obligations of the derivation checks.",
}
for _k in ("C14", "C15", "C16"):
    NOT_APPLICABLE.pop(_k, None)
ENGINES.append({"name": "E5 rules", "path": "/verif/sdpverif/rules", "serves_properties": ["C03", "C10", "C12", "C13", "C14", "C15", "C16", "C19"],
                "kind_free_text": "effect / def-use / must-assign / guard-atom rules over E1 (statement CFG, dominators, read-before-write)"})

NOTES = "Static analysis only; nothing from /repo is imported or executed. See DESIGN.md."
