"""Source of MANIFEST.json (see tools_manifest.py)."""
_PENDING = "check under construction in this commit; not claimed yet (see DESIGN.md section 4 for the planned obligations)"

ENGINES = [
    {"name": "E1 srcmodel", "path": "/verif/sdpverif/srcmodel.py", "serves_properties": ["C20"],
     "kind_free_text": "ast-only resolved program model: modules, imports, C3 MRO, method resolution, call graph"},
    {"name": "E2 grammar", "path": "/verif/sdpverif/grammar.py", "serves_properties": ["C20"],
     "kind_free_text": "grammar extracted from p_* docstrings in PLY's function order; LALR tables from PLY's generator used as a library"},
]

CHECKS = {
    "C20": {
        "engine": "E2 grammar",
        "category": "translation_validation",
        "technique": "static table comparison: ast-extracted grammar -> fresh LALR generation vs parsetab.py read as data; call-site option lint",
        "text": "Exhaustive for the tree analysed: every action, goto and production cell of the shipped table file is compared with a fresh generation from the grammar as declared in the source, the cache state is classified from the source (valid / stale / other version / missing), and the yacc.yacc()/lex.lex() call sites are shown not to pass an option that would keep a non-matching table. This is the whole property except run-time equality of results, which follows from table identity plus PLY determinism.",
        "design_ref": "DESIGN.md section 4 C20, section 2 E2",
        "note": "Trusted: PLY 3.11's generator as the definition of 'tables derived from the grammar', its signature / version test and regeneration path as read from ply/yacc.py; CPython ast. The thorough tier re-derives the LALR automaton independently.",
    },
}

NOT_APPLICABLE = {f"C{n:02d}": _PENDING for n in range(1, 20)}
NOT_APPLICABLE["C08"] = ("the comment scanner is a per-line string state machine over runtime text; whether a comment "
                         "swallows or leaks code depends on marker positions in the input, which no code-shape argument bounds "
                         "(DESIGN.md section 6); code-shaped sub-facts are carried by C13/C14")
NOTES = "Static analysis only; nothing from /repo is imported or executed. See DESIGN.md."
